(* Proofs/VerifyP.v — structure of the repaired Script.evaluate / Tx.verify_input (C06):
   a conditional-free suffix of the command list (a standard scriptPubKey, or the commands
   appended by a witness rule) is always executed, whatever precedes it; hence acceptance of
   an input implies the authorisation its output type demands, for EVERY scriptSig / witness
   and for every signature oracle. *)
From V Require Import Base.Prelude Base.Ints Model.Helper Model.Script Model.Op Model.Interp
  Model.Pecc Model.Taproot Model.Verify Proofs.OpP Proofs.MultisigP.

(* ------------------------------------------------------------------ OP_IF scanning *)

Definition is_cond (c : cmd) : bool :=
  match c with
  | Op o => (o =? 99) || (o =? 100) || (o =? 103) || (o =? 104)
  | Push _ => false
  end.
Definition plain (l : list cmd) : Prop := forallb (fun c => negb (is_cond c)) l = true.

Lemma if_scan_unfold it rest need cur t f :
  if_scan (it :: rest) need cur t f =
  let keep := if cur then if_scan rest need cur (it :: t) f else if_scan rest need cur t (it :: f) in
  match it with
  | Push _ => keep
  | Op o =>
      if (o =? 99) || (o =? 100) then
        (if cur then if_scan rest (S need) cur (it :: t) f else if_scan rest (S need) cur t (it :: f))
      else if o =? 103 then
        match need with O => if_scan rest need (negb cur) t f | S _ => keep end
      else if o =? 104 then
        match need with
        | O => Some (rev t, rev f, rest)
        | S k => if cur then if_scan rest k cur (it :: t) f else if_scan rest k cur t (it :: f)
        end
      else keep
  end.
Proof.
  destruct it as [o|b]; [|reflexivity].
  cbn [if_scan]. destruct o as [|q|q]; try reflexivity.
  do 8 (destruct q as [q|q|]; try reflexivity).
Qed.

Lemma if_scan_plain_none suf : plain suf -> forall need cur t f, if_scan suf need cur t f = None.
Proof.
  induction suf as [|it r IH]; intros Hp need cur t f; [reflexivity|].
  unfold plain in Hp. cbn [forallb] in Hp. apply andb_true_iff in Hp as [H1 H2].
  rewrite if_scan_unfold. cbn zeta.
  destruct it as [o|b].
  - cbn [is_cond] in H1. apply negb_true_iff in H1.
    repeat (apply orb_false_iff in H1 as [H1 ?E]).
    rewrite H1, E1, E0, E. cbn [orb]. destruct cur; now apply IH.
  - destruct cur; now apply IH.
Qed.

(* the scan never reaches into a conditional-free suffix and leaves it intact *)
Lemma if_scan_suffix suf : plain suf -> forall pre need cur t f T F rest,
  if_scan (pre ++ suf) need cur t f = Some (T, F, rest) ->
  exists pre', rest = pre' ++ suf.
Proof.
  intros Hp. induction pre as [|it pre IH]; intros need cur t f T F rest H.
  - cbn [app] in H. rewrite (if_scan_plain_none suf Hp) in H. discriminate.
  - cbn [app] in H. rewrite if_scan_unfold in H. cbn zeta in H.
    destruct it as [o|b].
    + destruct ((o =? 99) || (o =? 100)).
      { destruct cur; eapply IH; exact H. }
      destruct (o =? 103).
      { destruct need; [eapply IH; exact H|]. destruct cur; eapply IH; exact H. }
      destruct (o =? 104).
      { destruct need.
        - injection H as _ _ <-. now exists pre.
        - destruct cur; eapply IH; exact H. }
      destruct cur; eapply IH; exact H.
    + destruct cur; eapply IH; exact H.
Qed.

(* ------------------------------------------------------------------ the loop without rules *)

Definition fl_off (tap : bool) : flags := {| f_p2sh := false; f_wit := false; f_tap := tap |}.

Section Loop.
Variable C : curve.
Variables ripemd160 sha1 sha256 hash160 hash256 : bytes -> bytes.
Variable so : sigops.
Variable c : txctx.
Variable witness : list bytes.

Notation vloop := (vloop C ripemd160 sha1 sha256 hash160 hash256 so c witness).
Notation table := (table ripemd160 sha1 sha256 hash160 hash256 so).

Lemma after_push_off rest s tap :
  after_push C sha256 hash160 so witness rest s (fl_off tap) = Ok (rest, s, fl_off tap).
Proof.
  unfold after_push, p2sh_rule. cbn [f_p2sh fl_off andb].
  destruct rest as [|[o|b] rest]; cbn [bind]; try reflexivity.
  all: repeat match goal with
       | |- context [match ?x with _ => _ end] => destruct x; cbn [bind]; try reflexivity
       end.
Qed.

Lemma exec_op_suffix tbl suf : plain suf -> forall o pre s a rest' s' a',
  exec_op tbl c o (pre ++ suf) s a = Ok (rest', s', a') ->
  exists pre', rest' = pre' ++ suf.
Proof.
  intros Hp o pre s a rest' s' a' H. unfold exec_op in H.
  destruct (tbl o) as [[f|neg|f|f]|]; try discriminate.
  - destruct (f s); cbn [bind] in H; [|discriminate]. injection H as <- _ _. now exists pre.
  - unfold op_if_gen in H. destruct s as [|e r]; cbn [bind] in H; [discriminate|].
    destruct (if_scan (pre ++ suf) 0 true [] []) as [[[T F] rest]|] eqn:E; cbn [bind] in H; [|discriminate].
    destruct (if_scan_suffix suf Hp _ _ _ _ _ _ _ _ E) as [pre' ->].
    injection H as <- _ _. rewrite app_assoc. eexists. reflexivity.
  - destruct (f s a) as [[s1 a1]|]; cbn [bind] in H; [|discriminate]. injection H as <- _ _. now exists pre.
  - destruct (f c s); cbn [bind] in H; [|discriminate]. injection H as <- _ _. now exists pre.
Qed.

(* acceptance of [pre ++ suf] means that [suf] itself was run, from some stacks, and accepted *)
Lemma vloop_suffix suf tap : plain suf -> forall fuel pre s a,
  vloop fuel (pre ++ suf) s a (fl_off tap) = OTrue ->
  exists fuel' s' a', vloop fuel' suf s' a' (fl_off tap) = OTrue.
Proof.
  intros Hp. induction fuel as [|fuel IH]; intros pre s a H.
  - destruct pre as [|cm pre]; [now exists 0%nat, s, a|]. cbn in H. discriminate.
  - destruct pre as [|cm pre]; [now exists (S fuel), s, a|].
    cbn [app Verify.vloop] in H. destruct cm as [o|b].
    + cbn [f_tap fl_off] in H.
      destruct (exec_op (table tap) c o (pre ++ suf) s a) as [[[rest' s'] a']|] eqn:E; [|discriminate].
      destruct (exec_op_suffix _ suf Hp _ _ _ _ _ _ _ E) as [pre' ->].
      eapply IH. exact H.
    + rewrite after_push_off in H. eapply IH. exact H.
Qed.

End Loop.

(* ------------------------------------------------------------------ standard suffixes *)

Section Std.
Variable C : curve.
Variables ripemd160 sha1 sha256 hash160 hash256 : bytes -> bytes.
Variable so : sigops.
Variable c : txctx.
Variable witness : list bytes.

Notation vloop := (vloop C ripemd160 sha1 sha256 hash160 hash256 so c witness).
Notation table := (table ripemd160 sha1 sha256 hash160 hash256 so).

Lemma enc_bool_truth b : (decode_num (enc_bool b) =? 0) = negb b.
Proof. destruct b; reflexivity. Qed.

Lemma plain_p2pkh h : plain (p2pkh_script h).
Proof. reflexivity. Qed.

(* OP_DUP OP_HASH160 <h> OP_EQUALVERIFY OP_CHECKSIG accepts only a stack whose two top
   elements are a public key hashing to h and a signature the oracle accepts *)
Lemma p2pkh_suffix_sound h fuel s a :
  vloop fuel (p2pkh_script h) s a (fl_off false) = OTrue ->
  exists sec sg r, s = sec :: sg :: r /\ hash160 sec = h /\ so_checksig so sec sg = Ok true.
Proof.
  unfold p2pkh_script. intros H.
  (* OP_DUP *)
  destruct fuel as [|fuel]; [discriminate H|].
  cbn [Verify.vloop f_tap fl_off] in H.
  unfold exec_op in H. change (table false 118) with (Some (FStack op_dup)) in H. cbv iota beta in H.
  destruct s as [|sec s]; [discriminate H|]. cbn [op_dup bind] in H.
  (* OP_HASH160 *)
  destruct fuel as [|fuel]; [discriminate H|].
  cbn [Verify.vloop f_tap fl_off] in H.
  unfold exec_op in H. change (table false 169) with (Some (FStack (op_hash hash160))) in H. cbv iota beta in H.
  cbn [op_hash bind] in H.
  (* <h> *)
  destruct fuel as [|fuel]; [discriminate H|].
  cbn [Verify.vloop] in H. change {| f_p2sh := false; f_wit := false; f_tap := false |} with (fl_off false) in H.
  rewrite after_push_off in H.
  (* OP_EQUALVERIFY *)
  destruct fuel as [|fuel]; [discriminate H|].
  cbn [Verify.vloop f_tap fl_off] in H.
  unfold exec_op in H. change (table false 136) with (Some (FStack op_equalverify)) in H. cbv iota beta in H.
  cbn [op_equalverify op_equal bind op_verify] in H.
  rewrite enc_bool_truth in H.
  destruct (beq h (hash160 sec)) eqn:E; cbn [negb bind] in H; [|discriminate H].
  apply beq_eq in E.
  (* OP_CHECKSIG *)
  destruct fuel as [|fuel]; [discriminate H|].
  cbn [Verify.vloop f_tap fl_off] in H.
  unfold exec_op in H. change (table false 172) with (Some (FTx (fun _ => op_checksig so))) in H. cbv iota beta in H.
  destruct s as [|sg r]; [discriminate H|].
  cbn [op_checksig] in H.
  destruct sg as [|g0 sg]; [discriminate H|].
  destruct (so_checksig so sec (g0 :: sg)) as [b|] eqn:Ec; cbn [bind] in H; [|discriminate H].
  assert (b = true) as ->.
  { destruct fuel; cbn [Verify.vloop final_test] in H; rewrite enc_bool_truth in H;
      destruct b; cbn [negb] in H; try discriminate H; reflexivity. }
  exists sec, (g0 :: sg), r; auto.
Qed.


Lemma vloop_pushes tap l : forall fuel rest s a,
  vloop (length l + fuel) (map Push l ++ rest) s a (fl_off tap) = vloop fuel rest (rev l ++ s) a (fl_off tap).
Proof.
  induction l as [|b l IH]; intros fuel rest s a; [reflexivity|].
  cbn [length map app plus Verify.vloop]. rewrite after_push_off. rewrite IH.
  cbn [rev]. now rewrite <- app_assoc.
Qed.

Lemma vloop_pushes_fuel tap l : forall fuel rest s a,
  rest <> [] -> (fuel <= length l)%nat ->
  vloop fuel (map Push l ++ rest) s a (fl_off tap) = OFalse.
Proof.
  induction l as [|b l IH]; intros fuel rest s a Hr Hf.
  - destruct rest as [|cm r]; [congruence|]. cbn in Hf. assert (fuel = 0%nat) as -> by lia. reflexivity.
  - destruct fuel as [|fuel]; [reflexivity|].
    cbn [map app Verify.vloop]. rewrite after_push_off. apply IH; [exact Hr|cbn in Hf; lia].
Qed.

(* fuel only matters when it runs out: more fuel never turns acceptance into rejection *)
Lemma vloop_fuel_mono fuel : forall cmds s a fl extra,
  vloop fuel cmds s a fl = OTrue -> vloop (fuel + extra) cmds s a fl = OTrue.
Proof.
  induction fuel as [|fuel IH]; intros cmds s a fl extra H.
  - destruct cmds as [|cm r]; [destruct extra; exact H | discriminate H].
  - destruct cmds as [|cm r]; [exact H|].
    cbn [plus Verify.vloop] in *. destruct cm as [o|b].
    + destruct (exec_op (table (f_tap fl)) c o r s a) as [[[r' s'] a']|]; [|discriminate H]. now apply IH.
    + destruct (after_push C sha256 hash160 so witness r (b :: s) fl) as [[[r' s'] fl']|]; [|discriminate H].
      now apply IH.
Qed.

(* ---------------- P2PKH / P2WPKH ---------------- *)

Notation verify_input := (verify_input C ripemd160 sha1 sha256 hash160 hash256 so c witness).

Theorem p2pkh_sound ss h :
  verify_input ss (p2pkh_script h) = OTrue ->
  exists sec sg, hash160 sec = h /\ so_checksig so sec sg = Ok true.
Proof.
  unfold Verify.verify_input. cbn [p2pkh_script is_p2wpkh is_p2wsh is_p2tr is_p2sh orb].
  unfold evaluate_full. intros H.
  change {| f_p2sh := false; f_wit := false; f_tap := false |} with (fl_off false) in H.
  destruct (vloop_suffix C ripemd160 sha1 sha256 hash160 hash256 so c witness
              (p2pkh_script h) false (plain_p2pkh h) _ ss [] [] H) as (f' & s' & a' & H').
  destruct (p2pkh_suffix_sound h f' s' a' H') as (sec & sg & r & _ & Hh & Hc). eauto.
Qed.

Theorem p2wpkh_sound ss h :
  length h = 20%nat ->
  verify_input ss (p2wpkh_script h) = OTrue ->
  ss = [] /\ witness <> [] /\ exists sec sg, hash160 sec = h /\ so_checksig so sec sg = Ok true.
Proof.
  intros Hl. unfold Verify.verify_input, p2wpkh_script. cbn [is_p2wpkh]. rewrite Hl. cbn [Nat.eqb orb].
  destruct ss as [|x ss]; [|discriminate]. cbn [app]. unfold evaluate_full. intros H.
  set (fuel := fuel_for witness [Op 0; Push h]) in H.
  assert (exists k, fuel = S (S k)) as [k ->] by (unfold fuel, fuel_for; eexists; cbn; reflexivity).
  cbn [Verify.vloop f_tap] in H. unfold exec_op in H.
  change (table false 0) with (Some (FStack (op_push_num 0))) in H. cbv iota beta in H.
  cbn [op_push_num bind] in H. change (encode_num 0) with (@nil Z) in H.
  unfold after_push, p2sh_rule in H. cbn [bind f_wit witness_rule negb] in H.
  rewrite Hl in H. cbn [Nat.eqb] in H.
  destruct witness as [|w0 ws] eqn:Ew; [discriminate H|]. rewrite <- Ew in *.
  cbn [app] in H.
  change {| f_p2sh := false; f_wit := false; f_tap := false |} with (fl_off false) in H.
  split; [reflexivity|]. split; [rewrite Ew; discriminate|].
  destruct (vloop_suffix C ripemd160 sha1 sha256 hash160 hash256 so c witness
              (p2pkh_script h) false (plain_p2pkh h) _ (map Push witness) [] [] H) as (f' & s' & a' & H').
  destruct (p2pkh_suffix_sound h f' s' a' H') as (sec & sg & r & _ & Hh & Hc). eauto.
Qed.


(* ---------------- P2SH ---------------- *)

Definition fl_p2sh (w : bool) : flags := {| f_p2sh := true; f_wit := w; f_tap := false |}.

Lemma p2sh_rule_long rest s fl : (4 <= length rest)%nat -> p2sh_rule hash160 rest s fl = Ok (rest, s, fl).
Proof.
  intros H. unfold p2sh_rule.
  destruct rest as [|c1 [|c2 [|c3 [|c4 r]]]]; cbn in H; try lia.
  destruct c1 as [o1|]; [|reflexivity].
  destruct o1 as [|q|q]; try reflexivity.
  do 8 (destruct q as [q|q|]; try reflexivity).
  destruct c2; try reflexivity. destruct c3 as [o3|]; [|reflexivity].
  destruct o3 as [|q|q]; try reflexivity.
  do 8 (destruct q as [q|q|]; try reflexivity).
Qed.

Lemma after_push_p2sh_long rest s : (4 <= length rest)%nat ->
  after_push C sha256 hash160 so witness rest s (fl_p2sh false) = Ok (rest, s, fl_p2sh false).
Proof. intros H. unfold after_push. rewrite p2sh_rule_long by exact H. reflexivity. Qed.

Lemma vloop_suffix_p2sh suf : plain suf -> (4 <= length suf)%nat -> forall fuel pre s a,
  vloop fuel (pre ++ suf) s a (fl_p2sh false) = OTrue ->
  exists fuel' s' a', vloop fuel' suf s' a' (fl_p2sh false) = OTrue.
Proof.
  intros Hp Hl. induction fuel as [|fuel IH]; intros pre s a H.
  - destruct pre as [|cm pre]; [now exists 0%nat, s, a|]. discriminate H.
  - destruct pre as [|cm pre]; [now exists (S fuel), s, a|].
    cbn [app Verify.vloop] in H. destruct cm as [o|b].
    + cbn [f_tap fl_p2sh] in H.
      destruct (exec_op (table false) c o (pre ++ suf) s a) as [[[rest' s'] a']|] eqn:E; [|discriminate H].
      destruct (exec_op_suffix c _ suf Hp _ _ _ _ _ _ _ E) as [pre' ->].
      eapply IH. exact H.
    + rewrite after_push_p2sh_long in H by (rewrite app_length; lia). eapply IH. exact H.
Qed.

Lemma last_push_split (ss : list cmd) b :
  ss <> [] -> last ss (Op 0) = Push b -> exists pre, ss = pre ++ [Push b].
Proof.
  intros Hn Hl. destruct (exists_last Hn) as (pre & x & ->).
  rewrite last_last in Hl. subst x. now exists pre.
Qed.

Lemma plain_p2sh_suffix b h : plain (Push b :: p2sh_script h).
Proof. reflexivity. Qed.

(* the output is p2sh and the redeem script is not a witness program *)
Theorem p2sh_sound ss h :
  length h = 20%nat ->
  verify_input ss (p2sh_script h) = OTrue ->
  exists pre b cs, ss = pre ++ [Push b] /\ hash160 b = h /\ parse_cmds b = Ok cs /\
    (is_p2wpkh cs || is_p2wsh cs = false ->
     exists fuel s a, vloop fuel cs s a (fl_off false) = OTrue).
Proof.
  intros Hl. unfold Verify.verify_input, p2sh_script.
  cbn [is_p2wpkh is_p2wsh is_p2tr is_p2sh orb]. rewrite Hl. cbn [Nat.eqb].
  destruct (last ss (Op 0)) as [o|b] eqn:El; [discriminate|].
  destruct ss as [|x ss']; [discriminate|]. set (ss := x :: ss') in *.
  destruct (existsb is_int_above_96 ss); [discriminate|].
  destruct (parse_cmds b) as [cs|] eqn:Ep; [|discriminate].
  destruct (last_push_split ss b ltac:(discriminate) El) as [pre Hpre].
  intros H. exists pre, b, cs.
  destruct (is_p2wpkh cs || is_p2wsh cs) eqn:Ew.
  - (* wrapped witness program: the scriptSig is exactly the push *)
    destruct (length ss =? 1)%nat eqn:E1; [|discriminate H].
    assert (pre = []) as -> by (apply Nat.eqb_eq in E1; rewrite Hpre, app_length in E1; cbn in E1;
                                destruct pre; [reflexivity|cbn in E1; lia]).
    cbn [app] in Hpre. rewrite Hpre in H. unfold evaluate_full in H. cbn [app] in H.
    set (fuel := fuel_for witness _) in H.
    assert (exists k, fuel = S k) as [k ->] by (unfold fuel, fuel_for; eexists; cbn; reflexivity).
    cbn [Verify.vloop] in H. unfold after_push, p2sh_rule in H. cbn [f_p2sh andb] in H.
    rewrite Hl in H. cbn [Nat.eqb] in H.
    destruct (beq (hash160 b) h) eqn:Eh; cbn [bind] in H; [|discriminate H].
    apply beq_eq in Eh. repeat split; auto. discriminate.
  - rewrite Hpre in H. unfold evaluate_full in H.
    change {| f_p2sh := true; f_wit := false; f_tap := false |} with (fl_p2sh false) in H.
    rewrite <- app_assoc in H. cbn [app] in H.
    destruct (vloop_suffix_p2sh (Push b :: p2sh_script h) (plain_p2sh_suffix b h) ltac:(cbn; lia)
                _ pre [] [] H) as (f' & s' & a' & H').
    destruct f' as [|f']; [discriminate H'|].
    unfold p2sh_script in H'. cbn [Verify.vloop] in H'.
    unfold after_push, p2sh_rule in H'. cbn [f_p2sh fl_p2sh andb] in H'.
    rewrite Hl in H'. cbn [Nat.eqb] in H'.
    destruct (beq (hash160 b) h) eqn:Eh; cbn [bind] in H'; [|discriminate H'].
    apply beq_eq in Eh. rewrite Ep in H'. cbn [bind witness_rule f_wit negb] in H'.
    repeat split; auto. intros _. exists f', s', a'. exact H'.
Qed.


(* ---------------- m-of-n CHECKMULTISIG scripts ---------------- *)

Definition multisig_script (m : Z) (keys : list bytes) : list cmd :=
  Op (80 + m) :: map Push keys ++ [Op (80 + zlen keys); Op 174].

Lemma table_small_num m : 1 <= m <= 16 -> table false (80 + m) = Some (FStack (op_push_num m)).
Proof.
  intros H.
  assert (In m [1;2;3;4;5;6;7;8;9;10;11;12;13;14;15;16]) as Hin by (cbn; lia).
  cbn [In] in Hin.
  repeat (destruct Hin as [<-|Hin]; [reflexivity|]). contradiction.
Qed.

Lemma pop_n_app l : forall r, pop_n (length l) (l ++ r) = Ok (l, r).
Proof. induction l as [|x l IH]; intros r; cbn; [reflexivity|]. now rewrite IH. Qed.

Lemma pop_n_spec n : forall s l r, pop_n n s = Ok (l, r) -> s = l ++ r /\ length l = n.
Proof.
  induction n as [|n IH]; intros s l r H; cbn in H.
  - injection H as <- <-. auto.
  - destruct s as [|x s]; [discriminate|].
    destruct (pop_n n s) as [[l' r']|] eqn:E; cbn [bind] in H; [|discriminate].
    injection H as <- <-. destruct (IH _ _ _ E) as [-> <-]. auto.
Qed.

Lemma plain_multisig m keys : plain (multisig_script m keys) \/ True.
Proof. now right. Qed.

(* OP_m <keys> OP_n OP_CHECKMULTISIG accepts only if the matching of the popped signatures
   against the popped keys succeeded; exactly m signatures are consumed *)
Lemma multisig_suffix_sound m keys fuel s a :
  1 <= m <= 16 -> 1 <= zlen keys <= 16 ->
  vloop fuel (multisig_script m keys) s a (fl_off false) = OTrue ->
  exists sigs dummy r, s = sigs ++ dummy :: r /\ zlen sigs = m /\
    so_multisig so (rev keys) sigs = Ok true.
Proof.
  intros Hm Hn H. unfold multisig_script in H.
  destruct fuel as [|fuel]; [discriminate H|].
  cbn [Verify.vloop f_tap fl_off] in H. unfold exec_op in H.
  rewrite (table_small_num m Hm) in H. cbn [op_push_num bind] in H.
  (* the pushes *)
  destruct (Nat.le_gt_cases (length keys) fuel) as [Hf|Hf].
  2:{ rewrite vloop_pushes_fuel in H by (try discriminate; lia). discriminate H. }
  replace fuel with (length keys + (fuel - length keys))%nat in H by lia.
  rewrite vloop_pushes in H.
  set (f2 := (fuel - length keys)%nat) in H.
  destruct f2 as [|f2]; [discriminate H|].
  cbn [Verify.vloop f_tap fl_off] in H. unfold exec_op in H.
  rewrite (table_small_num (zlen keys) Hn) in H. cbn [op_push_num bind] in H.
  destruct f2 as [|f2]; [discriminate H|].
  cbn [Verify.vloop f_tap fl_off] in H. unfold exec_op in H.
  change (table false 174) with (Some (FTx (fun _ => op_checkmultisig so))) in H. cbv iota beta in H.
  unfold op_checkmultisig in H. rewrite decode_encode in H.
  destruct (zlen (rev keys ++ encode_num m :: s) <? zlen keys + 1); [discriminate H|].
  assert (Z.to_nat (zlen keys) = length (rev keys)) as Hk by (unfold zlen; rewrite Nat2Z.id, rev_length; reflexivity).
  rewrite Hk, pop_n_app in H. cbn [bind] in H. rewrite decode_encode in H.
  destruct (zlen s <? m + 1); [discriminate H|].
  destruct (pop_n (Z.to_nat m) s) as [[sigs s4]|] eqn:Ep; cbn [bind] in H; [|discriminate H].
  destruct (existsb _ sigs); [discriminate H|].
  destruct s4 as [|dummy s5]; [discriminate H|].
  destruct (so_multisig so (rev keys) sigs) as [[|]|] eqn:Es; cbn [bind] in H; try discriminate H.
  destruct (pop_n_spec _ _ _ _ Ep) as [-> Hls].
  exists sigs, dummy, s5. repeat split; auto. unfold zlen. lia.
Qed.


Lemma small_num_not_cond k : 1 <= k <= 16 -> is_cond (Op (80 + k)) = false.
Proof. intros H. cbn [is_cond]. repeat (apply orb_false_iff; split); apply Z.eqb_neq; lia. Qed.

Lemma plain_multisig_script m keys : 1 <= m <= 16 -> 1 <= zlen keys <= 16 -> plain (multisig_script m keys).
Proof.
  intros Hm Hn. unfold plain, multisig_script. apply forallb_forall. intros x Hx.
  destruct Hx as [<-|Hx]; [now rewrite small_num_not_cond|].
  apply in_app_or in Hx as [Hx|Hx].
  - apply in_map_iff in Hx as (b & <- & _). reflexivity.
  - destruct Hx as [<-|[<-|[]]]; [now rewrite small_num_not_cond|reflexivity].
Qed.

(* ---------------- P2WSH ---------------- *)

Theorem p2wsh_sound ss x :
  length x = 32%nat ->
  verify_input ss (p2wsh_script x) = OTrue ->
  ss = [] /\ witness <> [] /\ sha256 (last witness []) = x /\
  exists cs fuel, parse_cmds (last witness []) = Ok cs /\
    vloop fuel (map Push (removelast witness) ++ cs) [] [] (fl_off false) = OTrue.
Proof.
  intros Hl. unfold Verify.verify_input, p2wsh_script. cbn [is_p2wpkh is_p2wsh]. rewrite Hl. cbn [Nat.eqb orb].
  destruct ss as [|y ss]; [|discriminate]. cbn [app]. unfold evaluate_full. intros H.
  set (fuel := fuel_for witness [Op 0; Push x]) in H.
  assert (exists k, fuel = S (S k)) as [k ->] by (unfold fuel, fuel_for; eexists; cbn; reflexivity).
  cbn [Verify.vloop f_tap] in H. unfold exec_op in H.
  change (table false 0) with (Some (FStack (op_push_num 0))) in H. cbv iota beta in H.
  cbn [op_push_num bind] in H. change (encode_num 0) with (@nil Z) in H.
  unfold after_push, p2sh_rule in H. cbn [bind f_wit witness_rule negb] in H.
  rewrite Hl in H. cbn [Nat.eqb] in H.
  destruct witness as [|w0 ws] eqn:Ew; [discriminate H|]. rewrite <- Ew in *.
  destruct (beq x (sha256 (last witness []))) eqn:Eb; [|discriminate H].
  apply beq_eq in Eb.
  destruct (parse_cmds (last witness [])) as [cs|] eqn:Ep; cbn [bind] in H; [|discriminate H].
  cbn [app] in H.
  change {| f_p2sh := false; f_wit := false; f_tap := false |} with (fl_off false) in H.
  split; [reflexivity|]. split; [rewrite Ew; discriminate|]. split; [auto|].
  exists cs, k. split; [reflexivity|exact H].
Qed.

(* ---------------- m-of-n corollaries: at least m signatures by distinct script keys ------- *)

Section Quorum.
Variable sec_ok : bytes -> bool.
Variable ver : bytes -> bytes -> bool.
Hypothesis so_loop : forall secs sigs, so_multisig so secs sigs = so_multisig_loop sec_ok ver secs sigs.

Lemma loop_true secs sigs : so_multisig so secs sigs = Ok true -> embeds ver sigs secs.
Proof.
  rewrite so_loop. unfold so_multisig_loop. destruct (forallb sec_ok secs); [|discriminate].
  intros [= H]. now apply match_sigs_sound.
Qed.

(* a p2sh output whose redeem script is m-of-n: m signatures, each verifying under a
   different key of the script, in key order (keys and signatures in pop order) *)
Theorem p2sh_multisig_sound ss h m keys :
  length h = 20%nat -> 1 <= m <= 16 -> 1 <= zlen keys <= 16 ->
  verify_input ss (p2sh_script h) = OTrue ->
  exists b, hash160 b = h /\
    (parse_cmds b = Ok (multisig_script m keys) ->
     exists sigs, zlen sigs = m /\ embeds ver sigs (rev keys)).
Proof.
  intros Hl Hm Hn H. destruct (p2sh_sound ss h Hl H) as (pre & b & cs & _ & Hh & Hp & Hrun).
  exists b. split; [exact Hh|]. intros Hb. rewrite Hb in Hp. injection Hp as <-.
  assert (is_p2wpkh (multisig_script m keys) || is_p2wsh (multisig_script m keys) = false) as Hw.
  { unfold multisig_script. cbn [is_p2wpkh is_p2wsh].
    destruct (80 + m) as [|q|q] eqn:E; try lia; try reflexivity. }
  destruct (Hrun Hw) as (fuel & s & a & Hv).
  destruct (multisig_suffix_sound m keys fuel s a Hm Hn Hv) as (sigs & d & r & _ & Hz & Hs).
  exists sigs. split; [exact Hz|]. now apply loop_true.
Qed.

Theorem p2wsh_multisig_sound ss x m keys :
  length x = 32%nat -> 1 <= m <= 16 -> 1 <= zlen keys <= 16 ->
  verify_input ss (p2wsh_script x) = OTrue ->
  sha256 (last witness []) = x /\
  (parse_cmds (last witness []) = Ok (multisig_script m keys) ->
   exists sigs, zlen sigs = m /\ embeds ver sigs (rev keys)).
Proof.
  intros Hl Hm Hn H. destruct (p2wsh_sound ss x Hl H) as (_ & _ & Hx & cs & fuel & Hp & Hv).
  split; [exact Hx|]. intros Hb. rewrite Hb in Hp. injection Hp as <-.
  destruct (vloop_suffix C ripemd160 sha1 sha256 hash160 hash256 so c witness
              (multisig_script m keys) false (plain_multisig_script m keys Hm Hn) _ _ [] [] Hv)
    as (f' & s' & a' & H').
  destruct (multisig_suffix_sound m keys f' s' a' Hm Hn H') as (sigs & d & r & _ & Hz & Hs).
  exists sigs. split; [exact Hz|]. now apply loop_true.
Qed.
End Quorum.

(* ---------------- P2TR ---------------- *)

Definition annex_stripped (w : list bytes) : list bytes := if has_annex w then removelast w else w.

Theorem p2tr_sound ss x :
  length x = 32%nat ->
  verify_input ss (p2tr_script x) = OTrue ->
  ss = [] /\ witness <> [] /\
  let items := annex_stripped witness in
  (exists sg, items = [sg] /\ sg <> [] /\ so_xonly_ok so x = true /\
              so_schnorr so x (fst (schnorr_split sg)) (snd (schnorr_split sg)) = Ok true /\
              schnorr_form_ok sg = true)
  \/
  ((2 <= length items)%nat /\ script_path_commit_check C sha256 x witness = Ok true /\
   exists ts fuel, witness_tap_script items = Ok ts /\
     vloop fuel (map Push (firstn (length items - 2) items) ++ s_cmds ts) [] [] (fl_off true) = OTrue).
Proof.
  intros Hl. unfold Verify.verify_input, p2tr_script.
  cbn [is_p2wpkh is_p2wsh is_p2tr orb]. rewrite Hl. cbn [Nat.eqb orb].
  destruct ss as [|y ss]; [|discriminate]. cbn [app]. unfold evaluate_full. intros H.
  set (fuel := fuel_for witness [Op 81; Push x]) in H.
  assert (exists k, fuel = S (S k)) as [k ->] by (unfold fuel, fuel_for; eexists; cbn; reflexivity).
  cbn [Verify.vloop f_tap] in H. unfold exec_op in H.
  change (table false 81) with (Some (FStack (op_push_num 1))) in H. cbv iota beta in H.
  cbn [op_push_num bind] in H. change (encode_num 1) with [1] in H.
  unfold after_push, p2sh_rule in H. cbn [bind f_wit witness_rule negb] in H.
  rewrite Hl in H. cbn [Nat.eqb] in H.
  destruct witness as [|w0 ws] eqn:Ew; [discriminate H|]. rewrite <- Ew in *.
  split; [reflexivity|]. split; [rewrite Ew; discriminate|].
  unfold annex_stripped. cbv zeta.
  destruct (if has_annex witness then removelast witness else witness) as [|i0 [|i1 items]] eqn:Ei;
    [discriminate H| |].
  - (* key path *)
    left. exists i0. split; [reflexivity|].
    unfold op_checksig_schnorr in H.
    destruct (so_xonly_ok so x) eqn:Ex; cbn [negb] in H; [|discriminate H].
    destruct i0 as [|g0 g]; cbn [bind] in H.
    + destruct k; cbn [Verify.vloop final_test] in H; discriminate H.
    + destruct (schnorr_form_ok (g0 :: g)) eqn:Ef; cbn [negb] in H; [|discriminate H].
      destruct (schnorr_split (g0 :: g)) as [sg' ht] eqn:Es. cbn [fst snd].
      destruct (so_schnorr so x sg' ht) as [b|] eqn:Eb; cbn [bind] in H; [|discriminate H].
      assert (b = true) as ->.
      { destruct k; cbn [Verify.vloop final_test] in H; rewrite enc_bool_truth in H;
          destruct b; cbn [negb] in H; try discriminate H; reflexivity. }
      repeat split; auto. discriminate.
  - (* script path *)
    right. split; [cbn; lia|].
    destruct (script_path_commit_check C sha256 x witness) as [[|]|] eqn:Ec; cbn [bind] in H;
      try discriminate H.
    split; [reflexivity|].
    destruct (witness_tap_script (i0 :: i1 :: items)) as [ts|] eqn:Et; cbn [bind] in H; [|discriminate H].
    exists ts, k. split; [reflexivity|].
    change {| f_p2sh := false; f_wit := false; f_tap := true |} with (fl_off true) in H. exact H.
Qed.

(* ---------------- completeness: the canonical spends are accepted ---------------- *)

Lemma fuel_big cmds : exists k, fuel_for witness cmds = (16 + k)%nat.
Proof. unfold fuel_for. exists (2 * total_size cmds + 2 * witness_size witness + 48)%nat. lia. Qed.

Lemma p2pkh_suffix_complete sec sg r a k :
  sg <> [] -> so_checksig so sec sg = Ok true ->
  vloop (5 + k) (p2pkh_script (hash160 sec)) (sec :: sg :: r) a (fl_off false) = OTrue.
Proof.
  intros Hs Hc. unfold p2pkh_script.
  (* OP_DUP *)
  cbn [plus Verify.vloop f_tap fl_off]. unfold exec_op.
  change (table false 118) with (Some (FStack op_dup)). cbv iota beta. cbn [op_dup bind].
  (* OP_HASH160 *)
  cbn [Verify.vloop f_tap]. unfold exec_op.
  change (table false 169) with (Some (FStack (op_hash hash160))). cbv iota beta. cbn [op_hash bind].
  (* push *)
  cbn [Verify.vloop]. change {| f_p2sh := false; f_wit := false; f_tap := false |} with (fl_off false).
  rewrite after_push_off.
  (* OP_EQUALVERIFY *)
  cbn [Verify.vloop f_tap fl_off]. unfold exec_op.
  change (table false 136) with (Some (FStack op_equalverify)). cbv iota beta.
  cbn [op_equalverify op_equal bind op_verify]. rewrite beq_refl. rewrite enc_bool_truth. cbn [negb bind].
  (* OP_CHECKSIG *)
  cbn [Verify.vloop f_tap]. unfold exec_op.
  change (table false 172) with (Some (FTx (fun _ => op_checksig so))). cbv iota beta.
  cbn [op_checksig]. destruct sg as [|g0 g]; [congruence|]. rewrite Hc. cbn [bind].
  destruct k; reflexivity.
Qed.

Theorem p2pkh_complete sec sg :
  sg <> [] -> so_checksig so sec sg = Ok true ->
  verify_input [Push sg; Push sec] (p2pkh_script (hash160 sec)) = OTrue.
Proof.
  intros Hs Hc. unfold Verify.verify_input.
  cbn [p2pkh_script is_p2wpkh is_p2wsh is_p2tr is_p2sh orb]. unfold evaluate_full.
  match goal with |- context [fuel_for witness ?cs] => destruct (fuel_big cs) as [k ->] end.
  change {| f_p2sh := false; f_wit := false; f_tap := false |} with (fl_off false).
  match goal with |- context [Verify.vloop _ _ _ _ _ _ _ _ _ _ ?cs] =>
    change cs with (map Push [sg; sec] ++ p2pkh_script (hash160 sec)) end.
  replace (16 + k)%nat with (length [sg; sec] + (5 + (9 + k)))%nat by (cbn; lia).
  rewrite vloop_pushes. cbn [rev app]. now apply p2pkh_suffix_complete.
Qed.

End Std.

Section Complete2.
Variable C : curve.
Variables ripemd160 sha1 sha256 hash160 hash256 : bytes -> bytes.
Variable so : sigops.
Variable c : txctx.

Lemma vloop_op_step w f o rest s a fl :
  vloop C ripemd160 sha1 sha256 hash160 hash256 so c w (S f) (Op o :: rest) s a fl =
  match exec_op (table ripemd160 sha1 sha256 hash160 hash256 so (f_tap fl)) c o rest s a with
  | Err => OFalse
  | Ok (rest', s', a') => vloop C ripemd160 sha1 sha256 hash160 hash256 so c w f rest' s' a' fl
  end.
Proof. reflexivity. Qed.

Lemma vloop_push_step w f b rest s a fl :
  vloop C ripemd160 sha1 sha256 hash160 hash256 so c w (S f) (Push b :: rest) s a fl =
  match after_push C sha256 hash160 so w rest (b :: s) fl with
  | Err => OFalse
  | Ok (rest', s', fl') => vloop C ripemd160 sha1 sha256 hash160 hash256 so c w f rest' s' a fl'
  end.
Proof. reflexivity. Qed.

Theorem p2wpkh_complete sec sg :
  length (hash160 sec) = 20%nat -> sg <> [] -> so_checksig so sec sg = Ok true ->
  verify_input C ripemd160 sha1 sha256 hash160 hash256 so c [sg; sec] [] (p2wpkh_script (hash160 sec)) = OTrue.
Proof.
  intros Hl Hs Hc. unfold verify_input, p2wpkh_script. cbn [is_p2wpkh]. rewrite Hl. cbn [Nat.eqb orb app].
  unfold evaluate_full.
  destruct (fuel_big [sg; sec] [Op 0; Push (hash160 sec)]) as [k ->].
  change (16 + k)%nat with (S (S (2 + (5 + (7 + k))))).
  rewrite vloop_op_step. cbn [f_tap]. unfold exec_op.
  change (table ripemd160 sha1 sha256 hash160 hash256 so false 0) with (Some (FStack (op_push_num 0))).
  cbv iota beta. cbn [op_push_num bind]. change (encode_num 0) with (@nil Z).
  rewrite vloop_push_step.
  unfold after_push, p2sh_rule. cbn [bind f_wit f_p2sh f_tap witness_rule negb]. rewrite Hl. cbn [Nat.eqb app].
  change {| f_p2sh := false; f_wit := false; f_tap := false |} with (fl_off false).
  change 2%nat with (length [sg; sec]).
  rewrite vloop_pushes. cbn [rev app]. now apply p2pkh_suffix_complete.
Qed.

(* taproot key path: one 64- or 65-byte signature the oracle accepts *)
Theorem p2tr_keypath_complete x sg :
  length x = 32%nat -> sg <> [] -> so_xonly_ok so x = true -> schnorr_form_ok sg = true ->
  so_schnorr so x (fst (schnorr_split sg)) (snd (schnorr_split sg)) = Ok true ->
  verify_input C ripemd160 sha1 sha256 hash160 hash256 so c [sg] [] (p2tr_script x) = OTrue.
Proof.
  intros Hl Hs Hx Hf Hv. unfold verify_input, p2tr_script. cbn [is_p2wpkh is_p2wsh is_p2tr orb].
  rewrite Hl. cbn [Nat.eqb orb app]. unfold evaluate_full.
  destruct (fuel_big [sg] [Op 81; Push x]) as [k ->].
  change (16 + k)%nat with (S (S (14 + k))).
  rewrite vloop_op_step. cbn [f_tap]. unfold exec_op.
  change (table ripemd160 sha1 sha256 hash160 hash256 so false 81) with (Some (FStack (op_push_num 1))).
  cbv iota beta. cbn [op_push_num bind]. change (encode_num 1) with [1].
  rewrite vloop_push_step.
  unfold after_push, p2sh_rule. cbn [bind f_wit f_p2sh f_tap witness_rule negb]. rewrite Hl. cbn [Nat.eqb].
  unfold has_annex. cbn [length Nat.leb andb].
  unfold op_checksig_schnorr. rewrite Hx. cbn [negb].
  destruct sg as [|g0 g]; [congruence|]. rewrite Hf. cbn [negb].
  destruct (schnorr_split (g0 :: g)) as [sg' ht]. cbn [fst snd] in Hv. rewrite Hv. cbn [bind].
  reflexivity.
Qed.
End Complete2.
