(* Proofs/InterpP.v — whole-program conformance: the library's evaluation by splicing the command
   list (Model/Interp.v) and the consensus evaluation with an execution-condition stack
   (Spec/Consensus.v [run]) agree on every properly nested program.

   Programs are given as an AST; [flatten] turns them into the command list both interpreters
   consume.  The alternatives of a conditional are written inside its body, separated by the
   marker [IElse] (any number of them: every OP_ELSE toggles). *)
From V Require Import Base.Prelude Base.Ints Model.Script Model.Op Model.Interp Spec.Consensus
  Proofs.OpP Proofs.ConformP.

Inductive item : Type :=
| IPlain (cm : cmd)                       (* a push or a non-conditional op code *)
| IElse                                   (* OP_ELSE, only inside the body of an IIf *)
| IIf (neg : bool) (body : list item).    (* OP_IF / OP_NOTIF body OP_ENDIF *)

Fixpoint flat_item (i : item) : list cmd :=
  match i with
  | IPlain cm => [cm]
  | IElse => [Op 103]
  | IIf neg body =>
      Op (if neg then 100 else 99)
      :: (fix fl (l : list item) : list cmd :=
            match l with [] => [] | x :: r => flat_item x ++ fl r end) body
      ++ [Op 104]
  end.
Definition flatten (p : list item) : list cmd := flat_map flat_item p.

Lemma flat_item_if neg body :
  flat_item (IIf neg body) = Op (if neg then 100 else 99) :: flatten body ++ [Op 104].
Proof. reflexivity. Qed.

Lemma flatten_cons i p : flatten (i :: p) = flat_item i ++ flatten p.
Proof. reflexivity. Qed.

Lemma flatten_app p q : flatten (p ++ q) = flatten p ++ flatten q.
Proof. unfold flatten. apply flat_map_app. Qed.

Fixpoint isize (i : item) : nat :=
  match i with
  | IPlain _ => 1
  | IElse => 1
  | IIf _ body =>
      S (S ((fix ls (l : list item) : nat := match l with [] => O | x :: r => (isize x + ls r)%nat end) body))
  end.
Definition psize (p : list item) : nat := fold_right (fun i n => isize i + n)%nat O p.

Lemma isize_if neg body : isize (IIf neg body) = S (S (psize body)).
Proof. reflexivity. Qed.
Lemma psize_cons i p : psize (i :: p) = (isize i + psize p)%nat.
Proof. reflexivity. Qed.
Lemma psize_app p q : psize (p ++ q) = (psize p + psize q)%nat.
Proof. induction p as [|x r IH]; [reflexivity|]. cbn [app]. rewrite !psize_cons, IH. lia. Qed.
Lemma isize_pos i : (0 < isize i)%nat.
Proof. destruct i; cbn; lia. Qed.

(* the items executed when the condition is [take]: every IElse toggles *)
Fixpoint select (take : bool) (body : list item) : list item :=
  match body with
  | [] => []
  | IElse :: r => select (negb take) r
  | i :: r => if take then i :: select take r else select take r
  end.
Fixpoint toggle (body : list item) (h : bool) : bool :=
  match body with
  | [] => h
  | IElse :: r => toggle r (negb h)
  | _ :: r => toggle r h
  end.

Lemma psize_select take body : (psize (select take body) <= psize body)%nat.
Proof.
  revert take; induction body as [|i r IH]; intros take; [cbn; lia|].
  destruct i; cbn [select]; rewrite ?psize_cons.
  - pose proof (IH take) as H. destruct take; rewrite ?psize_cons; lia.
  - specialize (IH (negb take)). cbn [isize]. lia.
  - pose proof (IH take) as H. destruct take; rewrite ?psize_cons; lia.
Qed.

Definition is_ctl (o : Z) : bool := (o =? 99) || (o =? 100) || (o =? 103) || (o =? 104).

(* well-formed: a plain item is a push of a byte string or an op code that is not one of the
   four conditional op codes and not OP_2ROT (known finding) *)
Fixpoint wf_item (i : item) : bool :=
  match i with
  | IPlain (Push b) => bytes_okb b
  | IPlain (Op o) => negb (is_ctl o) && negb (o =? 113)
  | IElse => true
  | IIf _ body =>
      (fix wl (l : list item) : bool := match l with [] => true | x :: r => wf_item x && wl r end) body
  end.
Definition wf_items (p : list item) : bool := forallb wf_item p.
Lemma wf_item_if neg body : wf_item (IIf neg body) = wf_items body.
Proof. reflexivity. Qed.
Definition no_else (p : list item) : bool :=
  forallb (fun i => match i with IElse => false | _ => true end) p.
(* a program: well-formed items, no OP_ELSE outside a conditional *)
Definition wf_prog (p : list item) : bool := wf_items p && no_else p.

Lemma wf_select take body : wf_items body = true -> wf_items (select take body) = true.
Proof.
  revert take; induction body as [|i r IH]; intros take H; [reflexivity|].
  cbn [wf_items forallb] in H. apply andb_true_iff in H as [H1 H2]. fold (wf_items r) in H2.
  destruct i; cbn [select].
  - destruct take; [cbn [wf_items forallb]; rewrite H1; exact (IH true H2) | exact (IH false H2)].
  - exact (IH _ H2).
  - destruct take; [cbn [wf_items forallb]; rewrite H1; exact (IH true H2) | exact (IH false H2)].
Qed.
Lemma no_else_select take body : no_else (select take body) = true.
Proof.
  revert take; induction body as [|i r IH]; intros take; [reflexivity|].
  destruct i; cbn [select]; try apply IH; destruct take; try apply IH; cbn [no_else forallb]; apply IH.
Qed.
Lemma wf_items_app p q : wf_items (p ++ q) = wf_items p && wf_items q.
Proof. unfold wf_items. apply forallb_app. Qed.
Lemma no_else_app p q : no_else (p ++ q) = no_else p && no_else q.
Proof. unfold no_else. apply forallb_app. Qed.

(* ------------------------------------------------------------------ the scan of op_if *)

Definition push_cur (cur : bool) (x : list cmd) (t f : list cmd) : list cmd * list cmd :=
  if cur then (rev x ++ t, f) else (t, rev x ++ f).

Lemma if_scan_plain cm rest need cur t f :
  match cm with Op o => is_ctl o = false | Push _ => True end ->
  if_scan (cm :: rest) need cur t f =
  let '(t', f') := push_cur cur [cm] t f in if_scan rest need cur t' f'.
Proof.
  intros H. destruct cm as [o|b].
  - unfold is_ctl in H. repeat (apply orb_false_iff in H as [H ?E]).
    apply Z.eqb_neq in H, E, E0, E1.
    cbn [if_scan]. destruct cur; cbn [push_cur rev app];
      destruct o as [|q|q]; try reflexivity;
      repeat (destruct q as [q|q|]; try reflexivity; try lia).
  - cbn [if_scan]. destruct cur; reflexivity.
Qed.

Ltac fin_scan :=
  cbn [push_cur rev app]; rewrite ?rev_app_distr; cbn [rev app]; rewrite <- ?app_assoc; cbn [app];
  rewrite ?rev_app_distr; cbn [rev app]; rewrite <- ?app_assoc; cbn [app]; try reflexivity.

(* below the level of the OP_IF being resolved (need >= 1) a flattened, well-formed item list is
   copied to the current array as it is *)
Lemma if_scan_nested n : forall q, (psize q <= n)%nat -> wf_items q = true ->
  forall rest k cur t f,
  if_scan (flatten q ++ rest) (S k) cur t f =
  let '(t', f') := push_cur cur (flatten q) t f in if_scan rest (S k) cur t' f'.
Proof.
  induction n as [|n IH]; intros q Hn Hw rest k cur t f.
  - destruct q as [|i r]; [destruct cur; reflexivity|].
    rewrite psize_cons in Hn. pose proof (isize_pos i). lia.
  - destruct q as [|i r]; [destruct cur; reflexivity|].
    rewrite psize_cons in Hn. cbn [wf_items forallb] in Hw. apply andb_true_iff in Hw as [Hi Hr].
    fold (wf_items r) in Hr.
    rewrite flatten_cons, <- app_assoc.
    assert (Tail : forall t1 f1, if_scan (flatten r ++ rest) (S k) cur t1 f1 =
              let '(t', f') := push_cur cur (flatten r) t1 f1 in if_scan rest (S k) cur t' f').
    { intros. apply IH; [pose proof (isize_pos i); lia | exact Hr]. }
    destruct i as [cm| |neg body].
    + cbn [flat_item app]. rewrite if_scan_plain.
      * destruct cur; cbn [push_cur]; rewrite Tail; fin_scan.
      * destruct cm as [o|b]; [|exact I]. cbn [wf_item] in Hi. apply andb_true_iff in Hi as [Hi _].
        now apply negb_true_iff in Hi.
    + cbn [flat_item app if_scan].
      destruct cur; rewrite Tail; fin_scan.
    + rewrite flat_item_if. rewrite isize_if in Hn. rewrite wf_item_if in Hi.
      cbn [app]. rewrite <- app_assoc.
      assert (Body : forall t1 f1, if_scan (flatten body ++ [Op 104] ++ flatten r ++ rest) (S (S k)) cur t1 f1 =
                let '(t', f') := push_cur cur (flatten body) t1 f1 in
                if_scan ([Op 104] ++ flatten r ++ rest) (S (S k)) cur t' f').
      { intros. apply IH; [lia | exact Hi]. }
      destruct neg; cbn [if_scan]; destruct cur; rewrite Body; cbn [push_cur app if_scan];
        rewrite Tail; fin_scan.
Qed.

(* at the level of the OP_IF being resolved: items go to the array selected by the OP_ELSEs *)
Lemma if_scan_body body : wf_items body = true ->
  forall rest cur t f,
  if_scan (flatten body ++ Op 104 :: rest) O cur t f =
  Some (rev t ++ flatten (select cur body), rev f ++ flatten (select (negb cur) body), rest).
Proof.
  induction body as [|i r IH]; intros Hw rest cur t f.
  - cbn [flatten flat_map app if_scan select]. now rewrite !app_nil_r.
  - cbn [wf_items forallb] in Hw. apply andb_true_iff in Hw as [Hi Hr]. fold (wf_items r) in Hr.
    specialize (IH Hr rest).
    rewrite flatten_cons, <- app_assoc.
    destruct i as [cm| |neg body].
    + cbn [flat_item app]. rewrite if_scan_plain.
      * destruct cur; cbn [push_cur negb select]; rewrite IH; cbn [negb]; rewrite flatten_cons;
          cbn [flat_item rev app]; rewrite <- ?app_assoc; reflexivity.
      * destruct cm as [o|b]; [|exact I]. cbn [wf_item] in Hi. apply andb_true_iff in Hi as [Hi _].
        now apply negb_true_iff in Hi.
    + cbn [flat_item app if_scan select]. rewrite IH. destruct cur; reflexivity.
    + rewrite flat_item_if. rewrite wf_item_if in Hi. cbn [app]. rewrite <- app_assoc.
      assert (Body : forall t1 f1, if_scan (flatten body ++ [Op 104] ++ flatten r ++ Op 104 :: rest) 1 cur t1 f1 =
                let '(t', f') := push_cur cur (flatten body) t1 f1 in
                if_scan ([Op 104] ++ flatten r ++ Op 104 :: rest) 1 cur t' f').
      { intros. apply (if_scan_nested (psize body)); [lia | exact Hi]. }
      destruct neg; cbn [if_scan]; destruct cur; rewrite Body; cbn [push_cur app if_scan];
        rewrite IH; cbn [negb select]; rewrite ?flatten_cons, ?flat_item_if;
        fin_scan; rewrite rev_involutive; reflexivity.
Qed.

Lemma op_if_flat neg e s body rest : wf_items body = true ->
  op_if_gen neg (e :: s) (flatten body ++ Op 104 :: rest) =
  Ok (s, flatten (select (xorb (negb (decode_num e =? 0)) neg) body) ++ rest).
Proof.
  intros Hw. unfold op_if_gen. rewrite (if_scan_body body Hw). cbn [rev app negb].
  destruct (decode_num e =? 0); destruct neg; reflexivity.
Qed.

(* ------------------------------------------------------------------ the consensus loop *)

Definition sbind {A B} (r : sres A) (f : A -> sres B) : sres B :=
  match r with SOk a => f a | SFail => SFail | SOOS => SOOS end.

(* x refines to y unless x is out of scope *)
Definition oos_or {A} (x y : sres A) : Prop := x = SOOS \/ x = y.

Definition fex (vf : list bool) : bool := forallb (fun b => b) vf.
Lemma fex_app a g : fex (a ++ g) = fex a && fex g.
Proof. unfold fex. apply forallb_app. Qed.

Section Whole.
  Variables ripemd160 sha1 sha256 : bytes -> bytes.
  Variable c : txctx.
  Variable xw : bool.              (* allow_witness of the library = excl_witness of the spec *)

  Notation run := (Consensus.run ripemd160 sha1 sha256 (to_ctx c) xw).
  Notation sexec := (Consensus.exec_op ripemd160 sha1 sha256 (to_ctx c)).

  (* a non-conditional command when executed / when skipped *)
  Definition spec_cmd (cm : cmd) (st : cstate) : sres cstate :=
    match cm with
    | Push b => if 520 <? zlen b then SOOS
                else if xw && witness_shape (b :: fst st) then SOOS
                else SOk (b :: fst st, snd st)
    | Op o => if negb (in_set o) then SOOS else sexec o st
    end.
  Definition scan_oos (cm : cmd) : bool :=
    match cm with Push b => 520 <? zlen b | Op o => negb (in_set o) end.
  Definition plain_cmd (cm : cmd) : Prop :=
    match cm with Op o => is_ctl o = false | Push _ => True end.

  Lemma run_plain cm rest vf st : plain_cmd cm ->
    run (cm :: rest) vf st =
    if fex vf then sbind (spec_cmd cm st) (fun st' => run rest vf st')
    else if scan_oos cm then SOOS else run rest vf st.
  Proof.
    intros P. destruct cm as [o|b]; cbn [Consensus.run spec_cmd scan_oos]; fold (fex vf).
    - cbn [plain_cmd] in P. unfold is_ctl in P. repeat (apply orb_false_iff in P as [P ?E]).
      rewrite P, E1, E0, E. cbn [orb].
      destruct (negb (in_set o)); [destruct (fex vf); reflexivity|].
      destruct (fex vf); [|reflexivity]. unfold sbind. destruct (sexec o st); reflexivity.
    - destruct (520 <? zlen b); [destruct (fex vf); reflexivity|].
      destruct (fex vf); [|reflexivity]. cbn [fst snd sbind].
      destruct (xw && witness_shape (b :: fst st)); reflexivity.
  Qed.

  Lemma run_else rest h vf st : run (Op 103 :: rest) (h :: vf) st = run rest (negb h :: vf) st.
  Proof. reflexivity. Qed.
  Lemma run_endif rest h vf st : run (Op 104 :: rest) (h :: vf) st = run rest vf st.
  Proof. reflexivity. Qed.
  Lemma run_if (neg : bool) rest vf st :
    run (Op (if neg then 100 else 99) :: rest) vf st =
    if fex vf
    then match fst st with
         | [] => SFail
         | v :: s => run rest (xorb (cast_to_bool v) neg :: vf) (s, snd st)
         end
    else run rest (false :: vf) st.
  Proof. destruct neg; reflexivity. Qed.

  Lemma run_app a : forall b vf st,
    run (a ++ b) vf st = sbind (run a vf st) (fun '(vf', st') => run b vf' st').
  Proof.
    induction a as [|cm a IH]; intros b vf st; [reflexivity|].
    cbn [app]. cbn [Consensus.run].
    destruct cm as [o|d].
    - repeat match goal with
             | |- context [if ?x then _ else _] => destruct x
             | |- context [match fst st with _ => _ end] => destruct (fst st)
             | |- context [match vf with _ => _ end] => destruct vf
             | |- context [match sexec ?o ?s with _ => _ end] => destruct (sexec o s)
             end; try reflexivity; apply IH.
    - repeat match goal with
             | |- context [if ?x then _ else _] => destruct x
             end; try reflexivity; apply IH.
  Qed.

  (* ---- structure of [run] on flattened well-formed items *)

  Definition frame (g : list bool) (r : sres (list bool * cstate)) : sres (list bool * cstate) :=
    match r with SOk (vf, st) => SOk (vf ++ g, st) | SFail => SFail | SOOS => SOOS end.

  Lemma run_item_if neg body R V st :
    run (flat_item (IIf neg body) ++ R) V st =
    if fex V
    then match fst st with
         | [] => SFail
         | v :: s =>
             sbind (run (flatten body) (xorb (cast_to_bool v) neg :: V) (s, snd st))
                   (fun '(V', st') => run (Op 104 :: R) V' st')
         end
    else sbind (run (flatten body) (false :: V) st) (fun '(V', st') => run (Op 104 :: R) V' st').
  Proof.
    rewrite flat_item_if. cbn [app]. rewrite run_if, <- app_assoc. cbn [app].
    destruct (fex V); [destruct (fst st)|]; try reflexivity; apply run_app.
  Qed.

  (* shape: a flattened item list started under (h :: vf) ends under (toggle q h :: vf) *)
  Lemma run_shape n : forall q, (psize q <= n)%nat -> wf_items q = true ->
    forall h vf st V st', run (flatten q) (h :: vf) st = SOk (V, st') -> V = toggle q h :: vf.
  Proof.
    induction n as [|n IH]; intros q Hn Hw h vf st V st' E.
    - destruct q as [|i r]; [cbn in E; now inversion E|].
      rewrite psize_cons in Hn. pose proof (isize_pos i). lia.
    - destruct q as [|i r]; [cbn in E; now inversion E|].
      rewrite psize_cons in Hn. cbn [wf_items forallb] in Hw. apply andb_true_iff in Hw as [Hi Hr].
      fold (wf_items r) in Hr. pose proof (isize_pos i) as Hp.
      rewrite flatten_cons in E.
      destruct i as [cm| |neg body].
      + cbn [flat_item app] in E. rewrite run_plain in E.
        * cbn [toggle].
          destruct (fex (h :: vf)).
          -- destruct (spec_cmd cm st) as [st1| |]; cbn [sbind] in E; try discriminate.
             eapply IH; [| exact Hr | exact E]. lia.
          -- destruct (scan_oos cm); [discriminate|]. eapply IH; [| exact Hr | exact E]. lia.
        * destruct cm as [o|b]; [|exact I]. cbn [wf_item] in Hi. apply andb_true_iff in Hi as [Hi _].
          now apply negb_true_iff in Hi.
      + cbn [flat_item app] in E. rewrite run_else in E. cbn [toggle].
        eapply IH; [| exact Hr | exact E]. lia.
      + rewrite run_item_if in E. rewrite isize_if in Hn. rewrite wf_item_if in Hi. cbn [toggle].
        assert (K : forall b0 st0, sbind (run (flatten body) (b0 :: h :: vf) st0)
                      (fun '(V', st'0) => run (Op 104 :: flatten r) V' st'0) = SOk (V, st') ->
                    V = toggle r h :: vf).
        { intros b0 st0 E0. destruct (run (flatten body) (b0 :: h :: vf) st0) as [[V1 st1]| |] eqn:E1;
            cbn [sbind] in E0; try discriminate.
          apply IH in E1; [| lia | exact Hi]. subst V1. rewrite run_endif in E0.
          eapply IH; [| exact Hr | exact E0]. lia. }
        destruct (fex (h :: vf)); [destruct (fst st); [discriminate|]|]; eapply K; exact E.
  Qed.

  (* frame: all-true conditions below do not matter *)
  Lemma run_frame n : forall q, (psize q <= n)%nat -> wf_items q = true ->
    forall h vf g st, fex g = true ->
    run (flatten q) (h :: vf ++ g) st = frame g (run (flatten q) (h :: vf) st).
  Proof.
    induction n as [|n IH]; intros q Hn Hw h vf g st Hg.
    - destruct q as [|i r]; [reflexivity|].
      rewrite psize_cons in Hn. pose proof (isize_pos i). lia.
    - destruct q as [|i r]; [reflexivity|].
      rewrite psize_cons in Hn. cbn [wf_items forallb] in Hw. apply andb_true_iff in Hw as [Hi Hr].
      fold (wf_items r) in Hr. pose proof (isize_pos i) as Hp.
      assert (Fx : forall x, fex (x :: vf ++ g) = fex (x :: vf)).
      { intros x. change (x :: vf ++ g) with ((x :: vf) ++ g). rewrite fex_app, Hg. apply andb_true_r. }
      rewrite flatten_cons.
      destruct i as [cm| |neg body].
      + cbn [flat_item app]. rewrite !run_plain.
        * rewrite Fx. destruct (fex (h :: vf)).
          -- destruct (spec_cmd cm st) as [st1| |]; cbn [sbind frame]; try reflexivity.
             apply IH; [lia | exact Hr | exact Hg].
          -- destruct (scan_oos cm); [reflexivity|]. apply IH; [lia | exact Hr | exact Hg].
        * destruct cm as [o|b]; [|exact I]. cbn [wf_item] in Hi. apply andb_true_iff in Hi as [Hi _].
          now apply negb_true_iff in Hi.
        * destruct cm as [o|b]; [|exact I]. cbn [wf_item] in Hi. apply andb_true_iff in Hi as [Hi _].
          now apply negb_true_iff in Hi.
      + cbn [flat_item app]. rewrite !run_else. apply IH; [lia | exact Hr | exact Hg].
      + rewrite !run_item_if. rewrite isize_if in Hn. rewrite wf_item_if in Hi. rewrite Fx.
        assert (K : forall b0 st0,
                  sbind (run (flatten body) (b0 :: h :: vf ++ g) st0)
                    (fun '(V', st'0) => run (Op 104 :: flatten r) V' st'0) =
                  frame g (sbind (run (flatten body) (b0 :: h :: vf) st0)
                    (fun '(V', st'0) => run (Op 104 :: flatten r) V' st'0))).
        { intros b0 st0.
          change (b0 :: h :: vf ++ g) with (b0 :: (h :: vf) ++ g).
          rewrite (IH body) by (try lia; assumption).
          destruct (run (flatten body) (b0 :: h :: vf) st0) as [[V1 st1]| |] eqn:E1;
            cbn [sbind frame]; try reflexivity.
          apply (run_shape (psize body)) in E1; [| lia | exact Hi]. subst V1.
          cbn [app]. rewrite !run_endif. apply IH; [lia | exact Hr | exact Hg]. }
        destruct (fex (h :: vf)); [destruct (fst st); [reflexivity|]|]; apply K.
  Qed.

  Lemma plain_of_wf cm : wf_item (IPlain cm) = true -> plain_cmd cm.
  Proof.
    destruct cm as [o|b]; [|intros; exact I]. cbn [wf_item plain_cmd]. intros Hi.
    apply andb_true_iff in Hi as [Hi _]. now apply negb_true_iff in Hi.
  Qed.

  (* selection: under (h :: vf) the loop executes exactly the items [select h q] (when everything
     below is true) or nothing (otherwise) — up to the op codes it scans while skipping *)
  Lemma run_select n : forall q, (psize q <= n)%nat -> wf_items q = true ->
    forall h vf st,
    oos_or (run (flatten q) (h :: vf) st)
      (if fex vf
       then sbind (run (flatten (select h q)) [] st) (fun '(_, st') => SOk (toggle q h :: vf, st'))
       else SOk (toggle q h :: vf, st)).
  Proof.
    induction n as [|n IH]; intros q Hn Hw h vf st.
    - destruct q as [|i r]; [right; destruct (fex vf); reflexivity|].
      rewrite psize_cons in Hn. pose proof (isize_pos i). lia.
    - destruct q as [|i r]; [right; destruct (fex vf); reflexivity|].
      rewrite psize_cons in Hn. cbn [wf_items forallb] in Hw. apply andb_true_iff in Hw as [Hi Hr].
      fold (wf_items r) in Hr. pose proof (isize_pos i) as Hp.
      assert (IHr : forall h0 vf0 st0, oos_or (run (flatten r) (h0 :: vf0) st0)
                (if fex vf0
                 then sbind (run (flatten (select h0 r)) [] st0) (fun '(_, st') => SOk (toggle r h0 :: vf0, st'))
                 else SOk (toggle r h0 :: vf0, st0))).
      { intros. apply IH; [lia | exact Hr]. }
      rewrite flatten_cons.
      destruct i as [cm| |neg body].
      + pose proof (plain_of_wf cm Hi) as P.
        cbn [flat_item app]. rewrite run_plain by exact P. cbn [toggle].
        change (fex (h :: vf)) with (h && fex vf).
        destruct h; cbn [andb select].
        * destruct (fex vf) eqn:Ev.
          -- rewrite flatten_cons. cbn [flat_item app]. rewrite run_plain by exact P.
             change (fex []) with true. cbv iota.
             destruct (spec_cmd cm st) as [st1| |]; cbn [sbind]; [|right; reflexivity|left; reflexivity].
             specialize (IHr true vf st1). rewrite Ev in IHr. exact IHr.
          -- destruct (scan_oos cm); [left; reflexivity|].
             specialize (IHr true vf st). rewrite Ev in IHr. exact IHr.
        * destruct (scan_oos cm); [left; reflexivity|]. apply IHr.
      + cbn [flat_item app]. rewrite run_else. cbn [toggle select]. apply IHr.
      + rewrite run_item_if. rewrite isize_if in Hn. rewrite wf_item_if in Hi. cbn [toggle].
        change (fex (h :: vf)) with (h && fex vf).
        destruct (h && fex vf) eqn:Ex.
        * apply andb_true_iff in Ex as [-> Ev]. rewrite Ev. cbn [select].
          rewrite flatten_cons, run_item_if. change (fex []) with true. cbv iota.
          destruct (fst st) as [|v s]; [right; reflexivity|].
          set (b2 := xorb (cast_to_bool v) neg). set (st2 := (s, snd st)).
          change (b2 :: true :: vf) with (b2 :: [] ++ (true :: vf)).
          rewrite (run_frame (psize body) body (le_n _) Hi b2 [] (true :: vf) st2)
            by (change (fex (true :: vf)) with (true && fex vf); now rewrite Ev).
          destruct (run (flatten body) [b2] st2) as [[V1 st3]| |] eqn:E1; cbn [frame sbind];
            [|right; reflexivity|left; reflexivity].
          apply (run_shape (psize body)) in E1; [| lia | exact Hi]. subst V1.
          cbn [app]. rewrite !run_endif.
          specialize (IHr true vf st3). rewrite Ev in IHr. exact IHr.
        * (* the whole conditional is skipped *)
          assert (Hb : oos_or (run (flatten body) (false :: h :: vf) st)
                         (SOk (toggle body false :: h :: vf, st))).
          { pose proof (IH body ltac:(lia) Hi false (h :: vf) st) as G.
            change (fex (h :: vf)) with (h && fex vf) in G. rewrite Ex in G. exact G. }
          destruct Hb as [Hb|Hb]; rewrite Hb; cbn [sbind]; [left; reflexivity|].
          rewrite run_endif.
          destruct h; cbn [andb] in Ex.
          -- rewrite Ex. specialize (IHr true vf st). rewrite Ex in IHr. exact IHr.
          -- cbn [select]. apply IHr.
  Qed.

  (* a program (no OP_ELSE at its top level) run from the empty condition stack ends there *)
  Lemma run_balanced q : wf_items q = true -> no_else q = true ->
    forall st V st', run (flatten q) [] st = SOk (V, st') -> V = [].
  Proof.
    induction q as [|i r IH]; intros Hw Hne st V st' E; [cbn in E; now inversion E|].
    cbn [wf_items forallb] in Hw. apply andb_true_iff in Hw as [Hi Hr]. fold (wf_items r) in Hr.
    cbn [no_else forallb] in Hne. apply andb_true_iff in Hne as [Hni Hnr]. fold (no_else r) in Hnr.
    rewrite flatten_cons in E.
    destruct i as [cm| |neg body]; [| discriminate |].
    - cbn [flat_item app] in E. rewrite run_plain in E by now apply plain_of_wf.
      change (fex []) with true in E. cbv iota in E.
      destruct (spec_cmd cm st) as [st1| |]; cbn [sbind] in E; try discriminate.
      exact (IH Hr Hnr _ _ _ E).
    - rewrite run_item_if in E. rewrite wf_item_if in Hi. change (fex []) with true in E. cbv iota in E.
      destruct (fst st) as [|v s]; [discriminate|].
      destruct (run (flatten body) [xorb (cast_to_bool v) neg] (s, snd st)) as [[V1 st1]| |] eqn:E1;
        cbn [sbind] in E; try discriminate.
      apply (run_shape (psize body)) in E1; [| lia | exact Hi]. subst V1.
      rewrite run_endif in E. exact (IH Hr Hnr _ _ _ E).
  Qed.

  (* the consensus loop resolves a conditional the way the library's splice does *)
  Lemma run_splice body R b st : wf_items body = true ->
    oos_or (run (flatten body ++ Op 104 :: R) [b] st) (run (flatten (select b body) ++ R) [] st).
  Proof.
    intros Hw. rewrite !run_app.
    pose proof (run_select (psize body) body (le_n _) Hw b [] st) as G.
    change (fex []) with true in G. cbv iota in G.
    destruct G as [G|G]; rewrite G; [left; reflexivity|].
    destruct (run (flatten (select b body)) [] st) as [[V st']| |] eqn:E; cbn [sbind];
      [|right; reflexivity|right; reflexivity].
    apply run_balanced in E; [| now apply wf_select | apply no_else_select]. subst V.
    rewrite run_endif. right. reflexivity.
  Qed.
End Whole.
