(* Proofs/PowP.v — compact bits, proof-of-work test, header chain linkage against the
   Bitcoin Core transcription in Spec/CorePow.v. *)
From V Require Import Base.Prelude Base.Ints Model.Helper Model.Block Model.Pow Spec.CorePow.

(* ------------------------------------------------------------------ *)
(* bit-level helpers *)

Lemma land_pow2 x k : 0 <= k -> Z.land x (2 ^ k) = if Z.testbit x k then 2 ^ k else 0.
Proof.
  intros Hk. apply Z.bits_inj'. intros i Hi. rewrite Z.land_spec, Z.pow2_bits_eqb by lia.
  destruct (Z.eqb_spec k i) as [->|NE].
  - destruct (Z.testbit x i) eqn:E; [now rewrite Z.pow2_bits_true by lia | now rewrite Z.bits_0].
  - rewrite andb_false_r. destruct (Z.testbit x k); [|now rewrite Z.bits_0].
    rewrite Z.pow2_bits_false by lia. reflexivity.
Qed.

Lemma testbit_div x k : 0 <= k -> Z.testbit x k = Z.odd (x / 2 ^ k).
Proof.
  intros Hk. rewrite <- Z.bit0_odd, <- Z.shiftr_div_pow2 by lia. rewrite Z.shiftr_spec by lia.
  rewrite Z.add_0_l. reflexivity.
Qed.

Lemma lor_disjoint a b k : 0 <= k -> 0 <= a < 2 ^ k -> 0 <= b -> Z.lor a (Z.shiftl b k) = a + b * 2 ^ k.
Proof.
  intros Hk Ha Hb. rewrite <- Z.shiftl_mul_pow2 by lia.
  assert (Z.land a (Z.shiftl b k) = 0) as HL.
  { apply Z.bits_inj'. intros i Hi. rewrite Z.land_spec, Z.bits_0.
    destruct (Z.ltb_spec i k) as [L|L].
    - rewrite (Z.shiftl_spec_low b k i L). apply andb_false_r.
    - destruct (Z.eqb_spec a 0) as [->|NZ]; [now rewrite Z.bits_0|].
      rewrite (Z.bits_above_log2 a i); [reflexivity | lia |].
      apply Z.log2_lt_pow2; [lia|]. apply Z.lt_le_trans with (m := 2 ^ k); [lia|].
      apply Z.pow_le_mono_r; lia. }
  rewrite <- Z.lxor_lor by exact HL. symmetry. apply Z.add_nocarry_lxor. exact HL.
Qed.

(* ------------------------------------------------------------------ *)
(* 4-byte bits *)

Definition bits4_ok (b0 b1 b2 e : Z) : Prop :=
  0 <= b0 < 256 /\ 0 <= b1 < 256 /\ 0 <= b2 < 256 /\ 0 <= e < 256.

Definition coef (b0 b1 b2 : Z) : Z := b0 + 256 * b1 + 65536 * b2.

Lemma from_le4 b0 b1 b2 e : from_le [b0; b1; b2; e] = coef b0 b1 b2 + 16777216 * e.
Proof. unfold coef. cbn [from_le]. lia. Qed.

Lemma bits_to_target_x4 b0 b1 b2 e :
  bits_to_target_x [b0; b1; b2; e] =
  let c := coef b0 b1 b2 in
  let target := if e <? 3 then Z.shiftr (Z.land c 8388607) (8 * (3 - e))
                else Z.land c 8388607 * 256 ^ (e - 3) in
  if negb (Z.land c 8388608 =? 0) && negb (target =? 0) then B2T_value_error
  else if 2 ^ 256 <=? target then B2T_value_error else B2T_ok target.
Proof.
  unfold bits_to_target_x. cbn [rev app]. unfold coef. cbn [from_le].
  replace (b0 + 256 * (b1 + 256 * (b2 + 256 * 0))) with (b0 + 256 * b1 + 65536 * b2) by lia. reflexivity.
Qed.

(* the domain on which helper.bits_to_target agrees with Core SetCompact: four bytes,
   exponent >= 3, sign bit clear, Core's overflow flag clear *)
Definition compact_guard (bits : bytes) : bool :=
  match bits with
  | [b0; b1; b2; e] =>
      bytes_okb bits && (3 <=? e) && (b2 <? 128) &&
      negb (snd (set_compact (from_le bits)))
  | _ => false
  end.

(* the simpler guard of the design: exponent 3..32 and no sign bit *)
Definition compact_guard32 (bits : bytes) : bool :=
  match bits with
  | [b0; b1; b2; e] => bytes_okb bits && (3 <=? e) && (e <=? 32) && (b2 <? 128)
  | _ => false
  end.

Lemma set_compact4 b0 b1 b2 e :
  bits4_ok b0 b1 b2 e -> b2 < 128 -> 3 <= e ->
  set_compact (from_le [b0; b1; b2; e]) =
  (u256 (coef b0 b1 b2 * 256 ^ (e - 3)), false,
   negb (coef b0 b1 b2 =? 0) &&
   ((34 <? e) || ((255 <? coef b0 b1 b2) && (33 <? e)) || ((65535 <? coef b0 b1 b2) && (32 <? e)))).
Proof.
  intros (H0 & H1 & H2 & He) Hs H3. rewrite from_le4. set (c := coef b0 b1 b2).
  assert (0 <= c < 8388608) as Hc by (unfold c, coef; lia).
  unfold set_compact.
  assert (Z.shiftr (c + 16777216 * e) 24 = e) as ->.
  { rewrite Z.shiftr_div_pow2 by lia. change (2 ^ 24) with 16777216.
    replace (c + 16777216 * e) with (c + e * 16777216) by lia.
    rewrite Z.div_add by lia. rewrite Z.div_small by lia. lia. }
  assert (Z.land (c + 16777216 * e) 8388607 = c) as ->.
  { change 8388607 with (Z.ones 23). rewrite Z.land_ones by lia. change (2 ^ 23) with 8388608.
    replace (c + 16777216 * e) with (c + (2 * e) * 8388608) by lia.
    rewrite Z.mod_add by lia. apply Z.mod_small. lia. }
  assert (Z.land (c + 16777216 * e) 8388608 = 0) as ->.
  { change 8388608 with (2 ^ 23). rewrite land_pow2 by lia. rewrite testbit_div by lia.
    change (2 ^ 23) with 8388608.
    replace (c + 16777216 * e) with (c + (2 * e) * 8388608) by lia.
    rewrite Z.div_add by lia. rewrite Z.div_small by lia. rewrite Z.add_0_l, Z.odd_mul. reflexivity. }
  change (0 =? 0) with true. cbn [negb]. rewrite andb_false_r.
  destruct (Z.leb_spec e 3) as [L|L].
  - assert (e = 3) as -> by lia. change (8 * (3 - 3)) with 0. rewrite Z.shiftr_0_r.
    change (3 - 3) with 0. rewrite Z.pow_0_r, Z.mul_1_r. unfold u256. rewrite Z.mod_small by lia.
    reflexivity.
  - rewrite Z.shiftl_mul_pow2 by lia.
    replace (2 ^ (8 * (e - 3))) with (256 ^ (e - 3)).
    2:{ change 256 with (2 ^ 8). rewrite <- Z.pow_mul_r by lia. reflexivity. }
    reflexivity.
Qed.

Lemma pow256_le a b : 0 <= a <= b -> 256 ^ a <= 256 ^ b.
Proof. intros H. apply Z.pow_le_mono_r; lia. Qed.

(* the three fields SetCompact reads from nCompact = c + 2^24 * e *)
Lemma compact_fields c e : 0 <= c < 16777216 -> 0 <= e ->
  Z.shiftr (c + 16777216 * e) 24 = e /\
  Z.land (c + 16777216 * e) 8388607 = Z.land c 8388607 /\
  Z.land (c + 16777216 * e) 8388608 = Z.land c 8388608.
Proof.
  intros Hc He. split; [|split].
  - rewrite Z.shiftr_div_pow2 by lia. change (2 ^ 24) with 16777216.
    replace (c + 16777216 * e) with (c + e * 16777216) by lia.
    rewrite Z.div_add by lia. rewrite Z.div_small by lia. lia.
  - change 8388607 with (Z.ones 23). rewrite !Z.land_ones by lia. change (2 ^ 23) with 8388608.
    replace (c + 16777216 * e) with (c + (2 * e) * 8388608) by lia.
    now rewrite Z.mod_add by lia.
  - change 8388608 with (2 ^ 23). rewrite !land_pow2 by lia. rewrite !testbit_div by lia.
    change (2 ^ 23) with 8388608.
    replace (c + 16777216 * e) with (c + (2 * e) * 8388608) by lia.
    rewrite Z.div_add by lia. rewrite Z.odd_add, Z.odd_mul. cbn [Z.odd andb]. now rewrite xorb_false_r.
Qed.

(* Core's overflow flag is exactly "the value does not fit in 256 bits" *)
Lemma ovf_iff w e : 0 <= w < 8388608 -> 3 < e ->
  negb (w =? 0) && ((34 <? e) || ((255 <? w) && (33 <? e)) || ((65535 <? w) && (32 <? e))) =
  (2 ^ 256 <=? w * 256 ^ (e - 3)).
Proof.
  intros Hw He.
  destruct (Z.eqb_spec w 0) as [->|NZ].
  { rewrite Z.mul_0_l. reflexivity. }
  cbn [negb andb].
  assert (0 < 256 ^ (e - 3)) as Hp by (apply Z.pow_pos_nonneg; lia).
  destruct (Z.le_gt_cases e 32) as [L32|L32].
  - destruct (Z.ltb_spec 34 e); [lia|]. destruct (Z.ltb_spec 33 e); [lia|]. destruct (Z.ltb_spec 32 e); [lia|].
    rewrite !andb_false_r. cbn [orb]. symmetry. apply Z.leb_gt.
    pose proof (pow256_le (e - 3) 29 ltac:(lia)) as P.
    apply Z.le_lt_trans with (m := 8388607 * 256 ^ 29); [nia | reflexivity].
  - destruct (Z.ltb_spec 32 e) as [_|]; [|lia]. rewrite andb_true_r.
    destruct (Z.le_gt_cases e 33) as [L33|L33].
    + assert (e = 33) as -> by lia. change (34 <? 33) with false. change (33 <? 33) with false.
      rewrite andb_false_r. cbn [orb]. change (256 ^ (33 - 3)) with (256 ^ 30).
      change (2 ^ 256) with (65536 * 256 ^ 30).
      destruct (Z.ltb_spec 65535 w); destruct (Z.leb_spec (65536 * 256 ^ 30) (w * 256 ^ 30)); try reflexivity; nia.
    + destruct (Z.ltb_spec 33 e) as [_|]; [|lia]. rewrite andb_true_r.
      destruct (Z.le_gt_cases e 34) as [L34|L34].
      * assert (e = 34) as -> by lia. change (34 <? 34) with false. cbn [orb].
        change (256 ^ (34 - 3)) with (256 ^ 31). change (2 ^ 256) with (256 * 256 ^ 31).
        destruct (Z.ltb_spec 255 w); destruct (Z.ltb_spec 65535 w);
          destruct (Z.leb_spec (256 * 256 ^ 31) (w * 256 ^ 31)); try reflexivity; nia.
      * destruct (Z.ltb_spec 34 e) as [_|]; [|lia]. cbn [orb]. symmetry. apply Z.leb_le.
        pose proof (pow256_le 32 (e - 3) ltac:(lia)) as P. change (2 ^ 256) with (256 ^ 32). nia.
Qed.

Lemma shiftr_le w k : 0 <= w -> 0 <= k -> 0 <= Z.shiftr w k <= w.
Proof.
  intros Hw Hk. rewrite Z.shiftr_div_pow2 by lia.
  assert (0 < 2 ^ k) as Hp by (apply Z.pow_pos_nonneg; lia).
  split; [apply Z.div_pos; lia|]. apply Z.div_le_upper_bound; [lia|]. nia.
Qed.

(* (6) bits_to_target IS Core's SetCompact on EVERY four-byte bits value: the same integer when
   Core flags neither negative nor overflow, ValueError when it flags either *)
Lemma bits_to_target_x_core4 b0 b1 b2 e :
  bits4_ok b0 b1 b2 e ->
  bits_to_target_x [b0; b1; b2; e] =
  let '(v, neg, ovf) := set_compact (from_le [b0; b1; b2; e]) in
  if neg || ovf then B2T_value_error else B2T_ok v.
Proof.
  intros Hok. rewrite bits_to_target_x4, from_le4. cbv zeta.
  set (c := coef b0 b1 b2).
  assert (0 <= c < 16777216) as Hc by (destruct Hok as (?&?&?&?); unfold c, coef; lia).
  assert (0 <= e < 256) as He by (destruct Hok as (?&?&?&?); assumption).
  unfold set_compact.
  destruct (compact_fields c e Hc ltac:(lia)) as [-> [-> ->]].
  set (w := Z.land c 8388607).
  assert (0 <= w < 8388608) as Hw.
  { unfold w. change 8388607 with (Z.ones 23). rewrite Z.land_ones by lia. apply Z.mod_pos_bound. reflexivity. }
  set (sg := negb (Z.land c 8388608 =? 0)).
  destruct (Z.leb_spec e 3) as [L|L].
  - (* nSize <= 3: the word is shifted down, nothing can overflow *)
    set (nw := Z.shiftr w (8 * (3 - e))).
    assert (0 <= nw <= w) as Hnw by (apply shiftr_le; lia).
    assert ((if e <? 3 then nw else w * 256 ^ (e - 3)) = nw) as ->.
    { destruct (Z.ltb_spec e 3) as [|G]; [reflexivity|]. assert (e = 3) as -> by lia.
      unfold nw. change (8 * (3 - 3)) with 0. rewrite Z.shiftr_0_r. change (3 - 3) with 0.
      rewrite Z.pow_0_r. lia. }
    destruct (Z.ltb_spec 34 e); [lia|]. destruct (Z.ltb_spec 33 e); [lia|]. destruct (Z.ltb_spec 32 e); [lia|].
    rewrite !andb_false_r. cbn [orb]. rewrite ?andb_false_r, ?orb_false_r.
    destruct (Z.leb_spec (2 ^ 256) nw) as [B|_].
    { exfalso. assert (nw < 2 ^ 256); [|lia]. apply Z.le_lt_trans with (m := 8388608); [lia | reflexivity]. }
    rewrite andb_comm. destruct (negb (nw =? 0) && sg); reflexivity.
  - (* nSize > 3: the word is shifted up *)
    destruct (Z.ltb_spec e 3) as [|_]; [lia|].
    rewrite Z.shiftl_mul_pow2 by lia.
    replace (2 ^ (8 * (e - 3))) with (256 ^ (e - 3)).
    2:{ change 256 with (2 ^ 8). rewrite <- Z.pow_mul_r by lia. reflexivity. }
    assert (0 < 256 ^ (e - 3)) as Hp by (apply Z.pow_pos_nonneg; lia).
    rewrite (ovf_iff w e Hw L).
    assert ((w * 256 ^ (e - 3) =? 0) = (w =? 0)) as ->.
    { destruct (Z.eqb_spec w 0) as [->|NZ]; [now rewrite Z.mul_0_l|]. apply Z.eqb_neq. nia. }
    rewrite (andb_comm sg).
    destruct (negb (w =? 0) && sg); [reflexivity|]. cbn [orb].
    destruct (Z.leb_spec (2 ^ 256) (w * 256 ^ (e - 3))) as [|B]; [reflexivity|].
    unfold u256. rewrite Z.mod_small by nia. reflexivity.
Qed.

Lemma bits4_of_bytes bits : bytes_ok bits -> length bits = 4%nat ->
  exists b0 b1 b2 e, bits = [b0; b1; b2; e] /\ bits4_ok b0 b1 b2 e.
Proof.
  intros Hok Hlen. destruct bits as [|b0 [|b1 [|b2 [|e [|? ?]]]]]; try discriminate.
  exists b0, b1, b2, e. split; [reflexivity|].
  unfold bytes_ok in Hok. inversion Hok as [|? ? A0 G1]; subst. inversion G1 as [|? ? A1 G2]; subst.
  inversion G2 as [|? ? A2 G3]; subst. inversion G3 as [|? ? A3 _]; subst.
  unfold byte_ok in *. repeat split; lia.
Qed.

Lemma bits_to_target_x_core bits : bytes_ok bits -> length bits = 4%nat ->
  bits_to_target_x bits =
  let '(v, neg, ovf) := set_compact (from_le bits) in
  if neg || ovf then B2T_value_error else B2T_ok v.
Proof.
  intros Hok Hlen. destruct (bits4_of_bytes bits Hok Hlen) as (b0 & b1 & b2 & e & -> & H4).
  now apply bits_to_target_x_core4.
Qed.

(* the same for the function callers see: the int, or an exception *)
Lemma bits_to_target_eq_core bits : bytes_ok bits -> length bits = 4%nat ->
  bits_to_target bits =
  let '(v, neg, ovf) := set_compact (from_le bits) in
  if neg || ovf then Err else Ok (PInt v).
Proof.
  intros Hok Hlen. unfold bits_to_target. rewrite (bits_to_target_x_core bits Hok Hlen).
  destruct (set_compact (from_le bits)) as [[v neg] ovf]. destruct (neg || ovf); reflexivity.
Qed.

Lemma set_compact_range n : 0 <= n ->
  let '(v, _, _) := set_compact n in 0 <= v < 2 ^ 256 \/ Z.shiftr n 24 <= 3.
Proof.
  intros Hn. unfold set_compact. destruct (Z.leb_spec (Z.shiftr n 24) 3); [right; lia|].
  left. unfold u256. apply Z.mod_pos_bound. reflexivity.
Qed.

(* on the guarded domain (kept from the time before the fix de6be4c) *)
Lemma bits_to_target_core bits :
  compact_guard bits = true ->
  exists v, bits_to_target bits = Ok (PInt v) /\ set_compact (from_le bits) = (v, false, false) /\
            0 <= v < 2 ^ 256.
Proof.
  unfold compact_guard. destruct bits as [|b0 [|b1 [|b2 [|e [|? ?]]]]]; try discriminate.
  intros G. apply andb_true_iff in G as [G Govf]. apply andb_true_iff in G as [G Gs].
  apply andb_true_iff in G as [Gok Ge]. apply Z.leb_le in Ge. apply Z.ltb_lt in Gs.
  apply bytes_okb_ok in Gok.
  destruct (bits4_of_bytes _ Gok eq_refl) as (? & ? & ? & ? & [= <- <- <- <-] & Hok).
  pose proof (set_compact4 b0 b1 b2 e Hok Gs Ge) as SC. rewrite SC in Govf. cbn [snd] in Govf.
  apply negb_true_iff in Govf.
  pose proof (bits_to_target_eq_core _ Gok eq_refl) as BT. rewrite SC, Govf in BT. cbn [orb] in BT.
  eexists. split; [exact BT|]. split; [rewrite SC, Govf; reflexivity|].
  unfold u256. apply Z.mod_pos_bound. reflexivity.
Qed.

Lemma compact_guard32_guard bits : compact_guard32 bits = true -> compact_guard bits = true.
Proof.
  unfold compact_guard32, compact_guard. destruct bits as [|b0 [|b1 [|b2 [|e [|? ?]]]]]; try discriminate.
  intros G. apply andb_true_iff in G as [G Gs]. apply andb_true_iff in G as [G Ge32].
  apply andb_true_iff in G as [Gok Ge].
  rewrite Gok, Ge, Gs. cbn [andb]. apply Z.leb_le in Ge, Ge32. apply Z.ltb_lt in Gs.
  pose proof Gok as Gok'. apply bytes_okb_ok in Gok'.
  assert (bits4_ok b0 b1 b2 e) as Hok.
  { unfold bytes_ok in Gok'. inversion Gok' as [|? ? A0 G1]; subst. inversion G1 as [|? ? A1 G2]; subst.
    inversion G2 as [|? ? A2 G3]; subst. inversion G3 as [|? ? A3 _]; subst.
    unfold byte_ok in *. repeat split; lia. }
  rewrite (set_compact4 b0 b1 b2 e Hok Gs Ge). cbn [snd].
  destruct (Z.ltb_spec 34 e); [lia|]. destruct (Z.ltb_spec 33 e); [lia|]. destruct (Z.ltb_spec 32 e); [lia|].
  rewrite !andb_false_r. reflexivity.
Qed.

(* ------------------------------------------------------------------ *)
(* proof-of-work test *)
Section PowSec.
Variable hash256 : bytes -> bytes.

Lemma bits_to_target_x_of bits v : bits_to_target bits = Ok (PInt v) -> bits_to_target_x bits = B2T_ok v.
Proof. unfold bits_to_target. destruct (bits_to_target_x bits); [intros [= <-]; reflexivity | discriminate | discriminate]. Qed.

(* check_pow is the consensus comparison hash <= target *)
Lemma check_pow_consensus_le h s v :
  serialize_header h = Ok s ->
  bits_to_target (h_bits h) = Ok (PInt v) ->
  check_pow hash256 h = Ok (negb (from_le (hash256 s) >? v)).
Proof.
  intros Hs Ht. unfold check_pow. rewrite Hs, (bits_to_target_x_of _ _ Ht). cbn [bind]. f_equal.
  destruct (Z.leb_spec (from_le (hash256 s)) v); destruct (Z.gtb_spec (from_le (hash256 s)) v);
    try reflexivity; lia.
Qed.

Lemma check_pow_consensus h s v :
  serialize_header h = Ok s ->
  bits_to_target (h_bits h) = Ok (PInt v) ->
  from_le (hash256 s) <> v ->
  check_pow hash256 h = Ok (negb (from_le (hash256 s) >? v)).
Proof. intros Hs Ht _. now apply check_pow_consensus_le. Qed.

(* a hash equal to the target is accepted (fd08533) *)
Lemma check_pow_accepts_equal h s v :
  serialize_header h = Ok s ->
  bits_to_target (h_bits h) = Ok (PInt v) ->
  from_le (hash256 s) = v ->
  check_pow hash256 h = Ok true.
Proof.
  intros Hs Ht E. rewrite (check_pow_consensus_le h s v Hs Ht), E.
  destruct (Z.gtb_spec v v); [lia | reflexivity].
Qed.

(* bits that Core's SetCompact flags negative or overflowing never satisfy proof of work:
   False, not an exception (de6be4c) *)
Lemma check_pow_flagged_bits h s :
  serialize_header h = Ok s ->
  bytes_ok (h_bits h) -> length (h_bits h) = 4%nat ->
  (let '(_, neg, ovf) := set_compact (from_le (h_bits h)) in neg || ovf = true) ->
  check_pow hash256 h = Ok false.
Proof.
  intros Hs Hok Hlen Hf. unfold check_pow. rewrite Hs, (bits_to_target_x_core _ Hok Hlen). cbn [bind].
  destruct (set_compact (from_le (h_bits h))) as [[v neg] ovf]. rewrite Hf. reflexivity.
Qed.

(* check_pow = CheckProofOfWork for every header with four-byte bits, except for Core's two
   extra range tests: the main-network powLimit (light-client scope) and "target = 0" (which
   differs only for a hash that is 0) *)
Lemma check_pow_core_full h s :
  serialize_header h = Ok s ->
  bytes_ok (h_bits h) -> length (h_bits h) = 4%nat ->
  fst (fst (set_compact (from_le (h_bits h)))) <= pow_limit ->
  from_le (hash256 s) <> 0 -> 0 <= from_le (hash256 s) ->
  check_pow hash256 h = Ok (check_proof_of_work (from_le (hash256 s)) (from_le (h_bits h))).
Proof.
  intros Hs Hok Hlen Hlim Hnz Hpos. unfold check_pow, check_proof_of_work.
  rewrite Hs, (bits_to_target_x_core _ Hok Hlen). cbn [bind].
  destruct (set_compact (from_le (h_bits h))) as [[v neg] ovf]. cbn [fst] in Hlim.
  destruct neg; [reflexivity|]. cbn [orb].
  destruct ovf; [now rewrite orb_true_r|]. cbn [orb]. rewrite orb_false_r.
  destruct (Z.gtb_spec v pow_limit) as [|_]; [lia|]. rewrite orb_false_r.
  destruct (Z.eqb_spec v 0) as [->|NZ].
  - f_equal. apply Z.leb_gt. lia.
  - f_equal. destruct (Z.leb_spec (from_le (hash256 s)) v); destruct (Z.gtb_spec (from_le (hash256 s)) v);
      try reflexivity; lia.
Qed.

(* full CheckProofOfWork (main-network powLimit) under its own range conditions *)
Lemma check_pow_core h s :
  serialize_header h = Ok s ->
  compact_guard (h_bits h) = true ->
  (forall v, set_compact (from_le (h_bits h)) = (v, false, false) ->
             v <> 0 /\ v <= pow_limit /\ from_le (hash256 s) <> v) ->
  check_pow hash256 h = Ok (check_proof_of_work (from_le (hash256 s)) (from_le (h_bits h))).
Proof.
  intros Hs G Hv. destruct (bits_to_target_core _ G) as [v [Ht [Hc Hr]]].
  destruct (Hv v Hc) as [Hnz [Hle Hne]].
  rewrite (check_pow_consensus h s v Hs Ht Hne). unfold check_proof_of_work. rewrite Hc.
  cbn [orb]. destruct (Z.eqb_spec v 0); [contradiction|]. cbn [orb].
  destruct (Z.gtb_spec v pow_limit); [lia|]. reflexivity.
Qed.
End PowSec.

(* the instance that used to be refuted (K-C17-pow-eq): hash = target is now accepted, as by
   CheckProofOfWork *)
Lemma check_pow_equal_instance :
  exists (hash256 : bytes -> bytes) (h : header) s v,
    (forall x, length (hash256 x) = 32%nat) /\
    serialize_header h = Ok s /\ compact_guard (h_bits h) = true /\
    bits_to_target (h_bits h) = Ok (PInt v) /\ from_le (hash256 s) = v /\
    check_pow hash256 h = Ok true /\
    check_proof_of_work (from_le (hash256 s)) (from_le (h_bits h)) = true.
Proof.
  set (v := 65535 * 256 ^ 26).
  set (h := {| h_version := 1; h_prev := repeatz 0 32; h_root := repeatz 0 32; h_time := 0;
               h_bits := [255; 255; 0; 29]; h_nonce := [0; 0; 0; 0] |}).
  assert (exists s, serialize_header h = Ok s) as [s Es] by (eexists; reflexivity).
  assert (from_le (to_le 32 v) = v) as E by (apply from_le_to_le; unfold pow256, v; cbn; lia).
  assert (bits_to_target (h_bits h) = Ok (PInt v)) as Et by reflexivity.
  exists (fun _ => to_le 32 v), h, s, v.
  split; [intros x; apply to_le_length|].
  split; [exact Es|]. split; [reflexivity|]. split; [exact Et|].
  split; [exact E|]. split.
  - exact (check_pow_accepts_equal (fun _ => to_le 32 v) h s v Es Et E).
  - rewrite E. reflexivity.
Qed.

(* ------------------------------------------------------------------ *)
(* header chain *)
Section Chain.
Variable hash256 : bytes -> bytes.
Hypothesis hash_nonempty : forall x, hash256 x <> [].

Fixpoint linked (prev_hash : bytes) (hs : list header) : Prop :=
  match hs with
  | [] => True
  | h :: r => h_prev h = prev_hash /\ exists hh, block_hash hash256 h = Ok hh /\ linked hh r
  end.

Lemma block_hash_nonempty h hh : block_hash hash256 h = Ok hh -> hh <> [].
Proof.
  unfold block_hash. destruct (serialize_header h) as [s|]; [|discriminate]. cbn [bind].
  intros [= <-] E. apply (hash_nonempty s). rewrite <- (rev_involutive (hash256 s)), E. reflexivity.
Qed.

Lemma headers_loop_linkage : forall hs lb,
  lb <> [] ->
  headers_valid_loop hash256 hs (Some lb) = Ok true ->
  Forall (fun h => check_pow hash256 h = Ok true) hs /\ linked lb hs.
Proof.
  induction hs as [|h r IH]; intros lb Hlb H; [split; [constructor | exact I]|].
  cbn [headers_valid_loop] in H.
  destruct (check_pow hash256 h) as [ok|] eqn:EP; [|discriminate]. cbn [bind] in H.
  destruct ok; cbn [negb] in H; [|discriminate].
  destruct lb as [|x lb']; [congruence|].
  destruct (beq (h_prev h) (x :: lb')) eqn:EB; cbn [negb] in H; [|discriminate].
  apply beq_eq in EB.
  destruct (block_hash hash256 h) as [hh|] eqn:EH; [|discriminate]. cbn [bind] in H.
  destruct (IH hh (block_hash_nonempty h hh EH) H) as [F L].
  split; [constructor; assumption|]. cbn [linked]. split; [exact EB|]. exists hh. split; [exact EH | exact L].
Qed.

Lemma headers_is_valid_linkage h0 r :
  headers_is_valid hash256 (h0 :: r) = Ok true ->
  Forall (fun h => check_pow hash256 h = Ok true) (h0 :: r) /\
  exists hh0, block_hash hash256 h0 = Ok hh0 /\ linked hh0 r.
Proof.
  unfold headers_is_valid. cbn [headers_valid_loop]. intros H.
  destruct (check_pow hash256 h0) as [ok|] eqn:EP; [|discriminate]. cbn [bind] in H.
  destruct ok; cbn [negb] in H; [|discriminate].
  destruct (block_hash hash256 h0) as [hh|] eqn:EH; [|discriminate]. cbn [bind] in H.
  destruct (headers_loop_linkage r hh (block_hash_nonempty h0 hh EH) H) as [F L].
  split; [constructor; assumption|]. exists hh. split; [reflexivity | exact L].
Qed.

(* conversely a linked chain of headers that pass PoW is accepted *)
Lemma headers_linked_valid : forall hs lb,
  Forall (fun h => check_pow hash256 h = Ok true) hs -> linked lb hs ->
  headers_valid_loop hash256 hs (Some lb) = Ok true.
Proof.
  induction hs as [|h r IH]; intros lb F L; [reflexivity|].
  inversion F as [|? ? Hp Fr]; subst. cbn [linked] in L. destruct L as [E [hh [EH L]]].
  cbn [headers_valid_loop]. rewrite Hp. cbn [bind negb].
  destruct lb as [|x lb'].
  - rewrite EH. cbn [bind negb]. apply IH; assumption.
  - rewrite E, beq_refl, EH. cbn [bind negb]. apply IH; assumption.
Qed.
End Chain.
