(* Proofs/PowP3.v — the inputs on which bits_to_target / target_to_bits used to diverge from
   Bitcoin Core (the former known finding K-C17-compact, repaired by de6be4c), now as instances
   of agreement.  (Before the repair this file proved that the guard `exponent >= 3, sign bit
   clear, no overflow` was exactly the agreement domain; agreement now holds for every
   four-byte bits value: PowP.bits_to_target_eq_core.) *)
From V Require Import Base.Prelude Base.Ints Model.Helper Model.Block Model.Pow Spec.CorePow
  Proofs.PowP Proofs.PowP2.

(* exponent < 3: an int (was a float), Core's value *)
Lemma compact_exponent_lt3_instance :
  bits_to_target [0; 1; 0; 2] = Ok (PInt 1) /\ set_compact (from_le [0; 1; 0; 2]) = (1, false, false) /\
  bits_to_target [255; 255; 127; 0] = Ok (PInt 0) /\ bits_to_target [0; 0; 1; 1] = Ok (PInt 1).
Proof. repeat split; reflexivity. Qed.

(* sign bit with a non-zero word: ValueError, Core flags negative; with a zero word: 0, no flag *)
Lemma compact_sign_bit_instance :
  bits_to_target [1; 0; 128; 4] = Err /\ set_compact (from_le [1; 0; 128; 4]) = (256, true, false) /\
  bits_to_target [0; 0; 128; 4] = Ok (PInt 0) /\ set_compact (from_le [0; 0; 128; 4]) = (0, false, false) /\
  bits_to_target [1; 0; 128; 0] = Ok (PInt 0) /\ set_compact (from_le [1; 0; 128; 0]) = (0, false, false).
Proof. repeat split; reflexivity. Qed.

(* overflowing exponent: ValueError, Core flags overflow; the largest exponents that fit *)
Lemma compact_overflow_instance :
  bits_to_target [0; 0; 1; 33] = Err /\ snd (set_compact (from_le [0; 0; 1; 33])) = true /\
  bits_to_target [255; 255; 0; 33] = Ok (PInt (65535 * 256 ^ 30)) /\
  bits_to_target [255; 0; 0; 34] = Ok (PInt (255 * 256 ^ 31)) /\
  bits_to_target [0; 0; 0; 255] = Ok (PInt 0).
Proof. repeat split; reflexivity. Qed.

(* small targets: four bytes, Core's GetCompact *)
Lemma target_to_bits_small_instance :
  target_to_bits 0 = Ok [0; 0; 0; 0] /\ get_compact 0 = 0 /\
  target_to_bits 1 = Ok [0; 0; 1; 1] /\ get_compact 1 = from_le [0; 0; 1; 1] /\
  target_to_bits 128 = Ok [0; 128; 0; 2] /\ get_compact 128 = from_le [0; 128; 0; 2] /\
  target_to_bits 4660 = Ok [0; 52; 18; 2] /\ get_compact 4660 = from_le [0; 52; 18; 2] /\
  target_to_bits 32767 = Ok [0; 255; 127; 2] /\ get_compact 32767 = from_le [0; 255; 127; 2].
Proof. repeat split; reflexivity. Qed.
