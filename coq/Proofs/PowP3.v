(* Proofs/PowP3.v — the compact guard is exact: outside it bits_to_target never agrees
   with an unflagged Core SetCompact. *)
From V Require Import Base.Prelude Base.Ints Model.Helper Model.Block Model.Pow Spec.CorePow
  Proofs.PowP.

Lemma set_compact4_sign b0 b1 b2 e :
  bits4_ok b0 b1 b2 e -> 128 <= b2 -> 3 <= e ->
  let c' := coef b0 b1 b2 - 8388608 in
  exists ovf, set_compact (from_le [b0; b1; b2; e]) =
              (u256 (c' * 256 ^ (e - 3)), negb (c' =? 0), ovf).
Proof.
  intros (H0 & H1 & H2 & He) Hs H3 c'. rewrite from_le4.
  assert (0 <= c' < 8388608) as Hc by (unfold c', coef; lia).
  replace (coef b0 b1 b2) with (c' + 8388608) by (unfold c'; lia).
  unfold set_compact.
  assert (Z.shiftr (c' + 8388608 + 16777216 * e) 24 = e) as ->.
  { rewrite Z.shiftr_div_pow2 by lia. change (2 ^ 24) with 16777216.
    replace (c' + 8388608 + 16777216 * e) with (c' + 8388608 + e * 16777216) by lia.
    rewrite Z.div_add by lia. rewrite Z.div_small by lia. lia. }
  assert (Z.land (c' + 8388608 + 16777216 * e) 8388607 = c') as ->.
  { change 8388607 with (Z.ones 23). rewrite Z.land_ones by lia. change (2 ^ 23) with 8388608.
    replace (c' + 8388608 + 16777216 * e) with (c' + (1 + 2 * e) * 8388608) by lia.
    rewrite Z.mod_add by lia. apply Z.mod_small. lia. }
  assert (Z.land (c' + 8388608 + 16777216 * e) 8388608 = 8388608) as ->.
  { change 8388608 with (2 ^ 23) at 2. rewrite land_pow2 by lia. rewrite testbit_div by lia.
    change (2 ^ 23) with 8388608.
    replace (c' + 8388608 + 16777216 * e) with (c' + (1 + 2 * e) * 8388608) by lia.
    rewrite Z.div_add by lia. rewrite Z.div_small by lia. rewrite Z.add_0_l.
    rewrite Z.odd_add, Z.odd_mul. reflexivity. }
  change (8388608 =? 0) with false. cbn [negb]. rewrite andb_true_r.
  destruct (Z.leb_spec e 3) as [L|L].
  - assert (e = 3) as -> by lia. change (8 * (3 - 3)) with 0. rewrite Z.shiftr_0_r.
    change (3 - 3) with 0. rewrite Z.pow_0_r, Z.mul_1_r. unfold u256. rewrite Z.mod_small by lia.
    eexists. reflexivity.
  - rewrite Z.shiftl_mul_pow2 by lia.
    replace (2 ^ (8 * (e - 3))) with (256 ^ (e - 3)).
    2:{ change 256 with (2 ^ 8). rewrite <- Z.pow_mul_r by lia. reflexivity. }
    eexists. reflexivity.
Qed.

(* for four-byte bits outside the guard there is no v with bits_to_target = v (an int) and
   SetCompact = v without negative / overflow flag *)
Lemma compact_guard_exact bits :
  bytes_ok bits -> length bits = 4%nat -> compact_guard bits = false ->
  forall v, ~ (bits_to_target bits = Ok (PInt v) /\ set_compact (from_le bits) = (v, false, false)).
Proof.
  intros Hok Hlen G v [HT HS].
  destruct bits as [|b0 [|b1 [|b2 [|e [|? ?]]]]]; try discriminate.
  assert (bits4_ok b0 b1 b2 e) as H4.
  { unfold bytes_ok in Hok. inversion Hok as [|? ? A0 G1]; subst. inversion G1 as [|? ? A1 G2]; subst.
    inversion G2 as [|? ? A2 G3]; subst. inversion G3 as [|? ? A3 _]; subst.
    unfold byte_ok in *. repeat split; lia. }
  unfold compact_guard in G. apply bytes_okb_ok in Hok. rewrite Hok in G. cbn [andb] in G.
  rewrite bits_to_target4 in HT.
  destruct (Z.leb_spec 3 e) as [He|He]; [|discriminate HT]. cbn [andb] in G.
  destruct (Z.ltb_spec b2 128) as [Hs|Hs]; cbn [andb] in G.
  - rewrite HS in G. discriminate G.
  - destruct (set_compact4_sign b0 b1 b2 e H4 Hs He) as [ovf SC]. cbv zeta in SC. rewrite SC in HS.
    injection HS as Hv Hneg _. apply negb_false_iff, Z.eqb_eq in Hneg.
    injection HT as HT. rewrite Hneg in Hv. rewrite Z.mul_0_l in Hv. unfold u256 in Hv.
    rewrite Z.mod_0_l in Hv by (intros E; discriminate E).
    assert (0 < 256 ^ (e - 3)) by (apply Z.pow_pos_nonneg; lia). nia.
Qed.
