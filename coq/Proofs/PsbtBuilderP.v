(* Proofs/PsbtBuilderP.v — C11: the fee cross-check of create_multisig_psbt (Model/PsbtBuilder.v) composed
   with describe_basic_multisig: the PSBT the builder returns has Tx.fee = the fee the caller stated,
   lists the caller's outputs, and every summary of it shows that fee. *)
From V Require Import Base.Prelude Base.Ints Model.Helper Model.Script Model.PsbtDescribe Model.PsbtBuilder
  Proofs.PsbtDescribeP Proofs.PsbtHonestP.

(* ---------------------------------------------------------------- dictionaries *)
Lemma dget_dset_same {V} (m : list (bytes * V)) k v : dget (dset m k v) k = Some v.
Proof.
  unfold dget. induction m as [|[k' v'] m IH]; cbn [dset find fst snd].
  - now rewrite beq_refl.
  - destruct (beq k' k) eqn:E; cbn [find fst snd]; rewrite E; [reflexivity|exact IH].
Qed.

Lemma dget_dset_other {V} (m : list (bytes * V)) k v k' : k <> k' -> dget (dset m k v) k' = dget m k'.
Proof.
  intros N. unfold dget. induction m as [|[k0 v0] m IH]; cbn [dset find fst snd].
  - destruct (beq k k') eqn:E; [apply beq_eq in E; contradiction|reflexivity].
  - destruct (beq k0 k) eqn:E; cbn [find fst snd].
    + apply beq_eq in E. subst k0. destruct (beq k k') eqn:E'; [apply beq_eq in E'; contradiction|reflexivity].
    + destruct (beq k0 k'); [reflexivity|exact IH].
Qed.

Lemma dget_dset_cases {V} (m : list (bytes * V)) k v k' x :
  dget (dset m k v) k' = Some x -> (k = k' /\ x = v) \/ (k <> k' /\ dget m k' = Some x).
Proof.
  intros H. destruct (beq k k') eqn:E.
  - apply beq_eq in E. subst k'. rewrite dget_dset_same in H. injection H as <-. now left.
  - apply beq_neq in E. rewrite dget_dset_other in H by assumption. now right.
Qed.

Lemma pair_inj {A B} (a c : A) (b d : B) : (a, b) = (c, d) -> a = c /\ b = d.
Proof. intros E. injection E as -> ->. auto. Qed.

Section BuilderP.
  Variable hash160 sha256 : bytes -> bytes.
  Variable xpub : Type.
  Variable derive : xpub -> list Z -> option bytes.
  Variable bderive : bytes -> bytes -> option (bytes * list Z).

  Notation build_in := (build_in hash160 bderive).
  Notation build_ins := (build_ins hash160 bderive).
  Notation build_out := (build_out hash160 bderive).
  Notation build_outs := (build_outs hash160 bderive).
  Notation create_psbt := (create_psbt hash160 sha256 xpub derive bderive).

  (* the amount of the output an input_dict points at *)
  Definition bin_amount (i : bin) : option Z :=
    match nthz (pt_outs (bi_prev i)) (bi_idx i) with Some u => Some (u_amount u) | None => None end.

  (* tx_lookup: every key is the hash of its transaction, which is one of the supplied ones *)
  Definition tx_inv (ins : list bin) (m : list (bytes * prevtx)) : Prop :=
    forall k pt, dget m k = Some pt -> k = pt_hash pt /\ exists i, In i ins /\ bi_prev i = pt.

  Lemma build_in_facts lk i lk' v :
    build_in lk i = Ok (lk', v) ->
    bin_amount i = Some v /\ bi_sats i = v /\ bi_hash i = pt_hash (bi_prev i) /\
    l_tx lk' = dset (l_tx lk) (pt_hash (bi_prev i)) (bi_prev i).
  Proof.
    unfold PsbtBuilder.build_in. intros H.
    bsplit H. bsplit H. destruct a as [nps pubs]. bsplit H.
    destruct (nthz (pt_outs (bi_prev i)) (bi_idx i)) as [u|] eqn:En; [|discriminate].
    apply Ok_inj in Hb0. subst a.
    bsplit H. bsplit H. bsplit H. bsplit H. bsplit H.
    apply Ok_inj, pair_inj in H. destruct H as [<- <-]. apply beq_eq in Hc. apply Z.eqb_eq in Hc0. unfold bin_amount. rewrite En.
    repeat split; assumption.
  Qed.

  Lemma build_ins_facts : forall ins lk lk' vals,
    build_ins lk ins = Ok (lk', vals) ->
    map bin_amount ins = map Some vals /\
    (forall all, tx_inv all (l_tx lk) -> incl ins all -> tx_inv all (l_tx lk')) /\
    (forall k, (exists pt, dget (l_tx lk) k = Some pt) -> exists pt, dget (l_tx lk') k = Some pt) /\
    (forall i, In i ins -> exists pt, dget (l_tx lk') (pt_hash (bi_prev i)) = Some pt).
  Proof.
    induction ins as [|i r IH]; intros lk lk' vals H.
    - cbn in H. apply Ok_inj, pair_inj in H. destruct H as [<- <-].
      split; [reflexivity|]. split; [intros all Hi _; exact Hi|]. split; [intros k Hk; exact Hk|]. intros i [].
    - cbn [PsbtBuilder.build_ins] in H. bsplit H. destruct a as [lk1 v]. bsplit H. destruct a as [lk2 vs].
      apply Ok_inj, pair_inj in H. destruct H as [<- <-].
      destruct (build_in_facts _ _ _ _ Hb) as (Ha & _ & _ & Hl).
      destruct (IH _ _ _ Hb0) as (Hm & Hinv & Hmono & Hkeys).
      split; [|split; [|split]].
      + cbn [map]. now rewrite Ha, Hm.
      + intros all Hi Hincl. apply Hinv; [|intros x Hx; apply Hincl; now right].
        intros k pt Hg. rewrite Hl in Hg. apply dget_dset_cases in Hg.
        destruct Hg as [[<- ->]|[_ Hg]]; [|now apply Hi].
        split; [reflexivity|]. exists i. split; [apply Hincl; now left|reflexivity].
      + intros k [pt Hg]. apply Hmono. rewrite Hl.
        destruct (beq (pt_hash (bi_prev i)) k) eqn:E.
        * apply beq_eq in E. subst k. eexists. apply dget_dset_same.
        * apply beq_neq in E. exists pt. now rewrite dget_dset_other.
      + intros j [<-|Hj]; [|now apply Hkeys].
        apply Hmono. rewrite Hl. eexists. apply dget_dset_same.
  Qed.

  Lemma build_out_tx lk o lk' : build_out lk o = Ok lk' -> l_tx lk' = l_tx lk.
  Proof.
    unfold PsbtBuilder.build_out. destruct (is_change_dict o); [|now intros [= <-]].
    intros H. bsplit H. destruct a as [nps pubs]. bsplit H. bsplit H. bsplit H.
    apply Ok_inj in H. now subst lk'.
  Qed.

  Lemma build_outs_tx : forall outs lk lk', build_outs lk outs = Ok lk' -> l_tx lk' = l_tx lk.
  Proof.
    induction outs as [|o r IH]; intros lk lk' H; [cbn in H; apply Ok_inj in H; now subst|].
    cbn [PsbtBuilder.build_outs] in H. bsplit H. rewrite (IH _ _ H). now apply (build_out_tx lk o).
  Qed.

  Lemma map_res_ok {A B} (f : A -> result B) : forall l l',
    map_res f l = Ok l' -> Forall2 (fun a b => f a = Ok b) l l'.
  Proof.
    induction l as [|a r IH]; intros l' H; cbn [map_res] in H.
    - apply Ok_inj in H. subst. constructor.
    - bsplit H. bsplit H. apply Ok_inj in H. subst l'. constructor; [assumption|now apply IH].
  Qed.

  (* what PSBTIn.update leaves in the input when the looked-up transaction is the supplied one *)
  Lemma update_in_value lk i pi :
    update_in lk i = Ok pi -> dget (l_tx lk) (pt_hash (bi_prev i)) = Some (bi_prev i) ->
    i_value pi = bin_amount i /\ i_txid pi = pt_hash (bi_prev i) /\ i_index pi = bi_idx i.
  Proof.
    unfold update_in, bin_amount. intros H Hg. rewrite Hg in H.
    destruct (nthz (pt_outs (bi_prev i)) (bi_idx i)) as [u|]; [|discriminate]. cbn [bind] in H.
    destruct (is_p2sh (u_spk u)); [|discriminate]. bsplit H.
    destruct (dget (l_redeem lk) a) as [rs|]; [|apply Ok_inj in H; subst pi; auto].
    destruct (is_p2wpkh rs || is_p2wsh rs); [discriminate|]. apply Ok_inj in H. subst pi. auto.
  Qed.

  Lemma update_out_amount lk o po : update_out lk o = Ok po -> o_amount po = bo_sats o /\ o_spk po = bo_spk o.
  Proof.
    unfold update_out. intros H.
    destruct (is_p2sh (bo_spk o)).
    { bsplit H. destruct (dget (l_redeem lk) a) as [rs|]; [|apply Ok_inj in H; subst po; auto].
      destruct (is_p2wpkh rs || is_p2wsh rs); [discriminate|]. apply Ok_inj in H. subst po. auto. }
    destruct (is_p2wpkh (bo_spk o)).
    { bsplit H. destruct (dget (l_pub lk) a); apply Ok_inj in H; subst po; auto. }
    destruct (is_p2wsh (bo_spk o)); [apply Ok_inj in H; subst po; auto|].
    destruct (is_p2pkh (bo_spk o)); [|apply Ok_inj in H; subst po; auto].
    bsplit H. destruct (dget (l_pub lk) a); apply Ok_inj in H; subst po; auto.
  Qed.

  Lemma update_ins_facts lk ins pins :
    Forall2 (fun a b => update_in lk a = Ok b) ins pins ->
    (forall i, In i ins -> dget (l_tx lk) (pt_hash (bi_prev i)) = Some (bi_prev i)) ->
    map i_value pins = map bin_amount ins /\
    map i_txid pins = map (fun i => pt_hash (bi_prev i)) ins /\
    map i_index pins = map bi_idx ins.
  Proof.
    induction 1 as [|i pi r r' Hu _ IH]; intros Hlook; [auto|].
    destruct (update_in_value _ _ _ Hu (Hlook i (or_introl eq_refl))) as (H1 & H2 & H3).
    destruct IH as (I1 & I2 & I3); [intros j Hj; apply Hlook; now right|].
    cbn [map]. rewrite H1, H2, H3, I1, I2, I3. auto.
  Qed.

  Lemma update_outs_facts lk outs pouts :
    Forall2 (fun a b => update_out lk a = Ok b) outs pouts ->
    map o_amount pouts = map bo_sats outs /\ map o_spk pouts = map bo_spk outs.
  Proof.
    induction 1 as [|o po r r' Hu _ IH]; [auto|].
    destruct (update_out_amount _ _ _ Hu) as [H1 H2]. destruct IH as [I1 I2].
    cbn [map]. rewrite H1, H2, I1, I2. auto.
  Qed.

  Lemma build_ins_sats : forall ins lk lk1 vals, build_ins lk ins = Ok (lk1, vals) -> map bi_sats ins = vals.
  Proof.
    induction ins as [|i r IH]; intros lk lk1 vals Hb.
    - cbn in Hb. apply Ok_inj, pair_inj in Hb. destruct Hb as [_ <-]. reflexivity.
    - cbn [PsbtBuilder.build_ins] in Hb. bsplit Hb. destruct a as [lka v]. bsplit Hb. destruct a as [lkb vs].
      apply Ok_inj, pair_inj in Hb. destruct Hb as [_ <-].
      destruct (build_in_facts _ _ _ _ Hb0) as (_ & Hs & _). cbn [map]. rewrite Hs. f_equal.
      exact (IH _ _ _ Hb1).
  Qed.

  (* no two supplied previous transactions share their hash without being the same transaction *)
  Definition no_hash_clash (ins : list bin) : Prop :=
    forall i j, In i ins -> In j ins -> pt_hash (bi_prev i) = pt_hash (bi_prev j) -> bi_prev i = bi_prev j.

  Theorem builder_fee_crosscheck recs ins outs fee p :
    no_hash_clash ins -> ins <> [] ->
    create_psbt recs ins outs fee = Ok p ->
    exists vals,
      map bin_amount ins = map Some vals /\ map bi_sats ins = vals /\
      fee = sumz vals - sumz (map bo_sats outs) /\
      tx_fee xpub p = Ok fee /\
      map o_amount (p_outs p) = map bo_sats outs /\ map o_spk (p_outs p) = map bo_spk outs /\
      map i_txid (p_ins p) = map (fun i => pt_hash (bi_prev i)) ins /\
      map i_index (p_ins p) = map bi_idx ins /\
      validate_psbt hash160 sha256 xpub derive p = Ok tt.
  Proof.
    intros Hclash Hne H. unfold PsbtBuilder.create_psbt in H.
    bsplit H. bsplit H. bsplit H. destruct a as [lk1 vals]. bsplit H. rename a into lk2.
    bsplit H. apply Z.eqb_eq in Hc1.
    destruct (build_ins_facts _ _ _ _ Hb) as (Hm & Hinv & _ & Hkeys).
    pose proof (build_outs_tx _ _ _ Hb0) as Htx.
    assert (Hnn : is_nil (l_tx lk2) && is_nil (l_pub lk2) = false).
    { destruct ins as [|i0 r]; [contradiction|]. destruct (Hkeys i0 (or_introl eq_refl)) as [pt Hg].
      rewrite Htx. destruct (l_tx lk1); [discriminate Hg|reflexivity]. }
    rewrite Hnn in H. bsplit H. rename a into pins. bsplit H. rename a into pouts.
    bsplit H. destruct a. apply Ok_inj in H. subst p. cbn [p_ins p_outs].
    apply map_res_ok in Hb1, Hb2.
    assert (Hlook : forall i, In i ins -> dget (l_tx lk2) (pt_hash (bi_prev i)) = Some (bi_prev i)).
    { intros i Hi. rewrite Htx. destruct (Hkeys i Hi) as [pt Hg]. rewrite Hg. f_equal.
      assert (Hi0 : tx_inv ins (l_tx lk0)) by (intros k q Hq; discriminate Hq).
      destruct (Hinv ins Hi0 (incl_refl _) _ _ Hg) as (Hk & j & Hj & <-).
      symmetry. now apply Hclash. }
    destruct (update_ins_facts _ _ _ Hb1 Hlook) as (Hv & Ht & Hx).
    destruct (update_outs_facts _ _ _ Hb2) as [Ho1 Ho2].
    pose proof (build_ins_sats _ _ _ _ Hb) as Hsats.
    exists vals. repeat split; try assumption.
    unfold tx_fee. cbn [p_ins p_outs].
    rewrite (input_values_complete pins vals) by (rewrite Hv; exact Hm). cbn [bind]. rewrite Ho1. now rewrite Hc1.
  Qed.

  (* composition with the summary: every summary of the PSBT the builder returned shows the stated fee,
     the stated outputs and the amounts of the referenced previous outputs *)
  Theorem builder_then_describe recs ins outs fee p hm0 s :
    no_hash_clash ins -> ins <> [] ->
    create_psbt recs ins outs fee = Ok p ->
    describe hash160 sha256 xpub derive hm0 p = Ok s ->
    s_fee s = fee /\
    s_total_in s = sumz (map bi_sats ins) /\
    s_total_out s = sumz (map bo_sats outs) /\
    map fst (s_outs s) = map bo_sats outs /\
    s_spend s + s_change s + fee = sumz (map bi_sats ins).
  Proof.
    intros Hclash Hne Hc Hd.
    destruct (builder_fee_crosscheck _ _ _ _ _ Hclash Hne Hc) as (vals & Hm & Hs & Hfee & Htf & Ho & _).
    destruct (describe_inv _ _ _ _ _ _ _ Hd) as
      (hm & vs & _ & Hvs & Hf & Hin & _ & Hout & Houts & _ & Hsp & Hch & _).
    unfold tx_fee in Htf. rewrite Hvs in Htf. cbn [bind] in Htf. apply Ok_inj in Htf.
    pose proof (filter_split_sum is_change (p_outs p)) as Hsplit.
    rewrite Hs. rewrite Ho in *.
    assert (Hvals : sumz vs = sumz vals) by lia.
    repeat split; try lia.
    rewrite Houts, map_map. cbn [fst]. exact Ho.
  Qed.
End BuilderP.
