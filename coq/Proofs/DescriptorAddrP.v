(* Proofs/DescriptorAddrP.v — get_address of P2WSHSortedMulti, on top of Proofs/DescriptorP.v:
   the exact bytes of the witness script, totality on valid wallets, independence of the
   supplied order stated about CONSTRUCTED descriptors, and what a coincidence of the receive
   and the change address would mean in terms of BIP32 child keys. *)
From Coq Require Import String Permutation Sorted.
From V Require Import Base.Prelude Base.Disp Generated.DescConsts Model.Descriptor
  Proofs.DescChecksumP Proofs.DescDetectP Proofs.DescriptorP.
Open Scope Z_scope.

Definition key33 (k : bytes) : Prop := length k = 33%nat.

Lemma ser_pushes ks : forall t, Forall key33 ks ->
  ser_cmds (map Push ks ++ t) = (b <- ser_cmds t ;; Ok (concat (map (cons 33) ks) ++ b)).
Proof.
  induction ks as [|k ks IH]; intros t F.
  - cbn [map app concat]. destruct (ser_cmds t); reflexivity.
  - inversion F as [|? ? Hk F']; subst. cbn [map app ser_cmds ser_cmd]. unfold zlen. rewrite Hk.
    change (Z.of_nat 33 <=? 75) with true. cbn [bind]. rewrite (IH t F').
    destruct (ser_cmds t) as [b|]; [|reflexivity]. cbn [bind concat map app].
    rewrite <- app_assoc. reflexivity.
Qed.

Lemma op_code_small n : 1 <= n <= 16 -> number_to_op_code n = Ok (n + 80).
Proof.
  intros H. unfold number_to_op_code.
  destruct (Z.ltb_spec n (-1)); [lia|]. destruct (Z.ltb_spec 16 n); [lia|]. cbn [orb].
  destruct (Z.eqb_spec n 0); [lia|]. reflexivity.
Qed.

Lemma ser_op o : 0 <= o <= 255 -> ser_cmd (Op o) = Ok [o].
Proof.
  intros H. cbn [ser_cmd]. destruct (Z.ltb_spec o 0); [lia|]. destruct (Z.ltb_spec 255 o); [lia|].
  reflexivity.
Qed.

Section AddrP.
Variable derive : list Z -> Z -> Z -> result bytes.
Variable sha256 : bytes -> bytes.
Variable p2wsh_address : bytes -> Z -> list Z.

Definition derives_all (recs : list keyrec) (chg : bool) (off : Z) (ks : list bytes) : Prop :=
  Forall2 (fun kr k => derive (kr_xpub kr) (account chg kr) off = Ok k) recs ks.

(* (5) the witness script, byte for byte: OP_m, for every child key (in lexicographic order when
   sort_keys) the byte 33 and the key, OP_n, OP_CHECKMULTISIG *)
Theorem witness_script_bytes d off chg srt ks :
  1 <= d_m d <= 16 -> 1 <= zlen (d_recs d) <= 16 -> 0 <= off ->
  derives_all (d_recs d) chg off ks -> Forall key33 ks ->
  witness_script derive d off chg srt =
    Ok ([d_m d + 80] ++
        concat (map (cons 33) (if srt then sort_by (fun k => k) ks else ks)) ++
        [zlen (d_recs d) + 80; 174]).
Proof.
  intros Hm Hn Ho HD HK. unfold witness_script.
  destruct (Z.ltb_spec off 0); [lia|].
  rewrite (proj2 (child_keys_spec derive (d_recs d) chg off ks) HD). cbn [bind].
  unfold multisig_cmds. rewrite (op_code_small _ Hm), (op_code_small _ Hn). cbn [bind].
  set (ks' := if srt then sort_by (fun k => k) ks else ks).
  assert (HK' : Forall key33 ks').
  { unfold ks'. destruct srt; [|exact HK].
    apply (Permutation_Forall (sort_perm (fun k => k) ks)). exact HK. }
  cbn [ser_cmds]. rewrite (ser_op (d_m d + 80)) by lia. cbn [bind].
  rewrite (ser_pushes ks' _ HK'). cbn [ser_cmds].
  rewrite (ser_op (zlen (d_recs d) + 80)) by lia. rewrite (ser_op 174) by lia. cbn [bind app].
  reflexivity.
Qed.

(* get_address succeeds on every valid wallet whose child keys exist *)
Theorem get_address_total d off chg srt ks :
  1 <= d_m d <= 16 -> 1 <= zlen (d_recs d) <= 16 -> 0 <= off ->
  derives_all (d_recs d) chg off ks -> Forall key33 ks ->
  exists ws, witness_script derive d off chg srt = Ok ws /\
    get_address derive sha256 p2wsh_address d off chg srt = Ok (p2wsh_address (sha256 ws) (d_net d)).
Proof.
  intros Hm Hn Ho HD HK. eexists. split; [apply (witness_script_bytes d off chg srt ks); assumption|].
  unfold get_address. rewrite (witness_script_bytes d off chg srt ks) by assumption. reflexivity.
Qed.

(* the unsorted variant (sort_keys=False): same shape, keys in record order *)
Theorem witness_script_shape_unsorted d off chg ws :
  witness_script derive d off chg false = Ok ws ->
  exists ks om on,
    derives_all (d_recs d) chg off ks /\
    number_to_op_code (d_m d) = Ok om /\ number_to_op_code (zlen (d_recs d)) = Ok on /\
    0 <= off /\ ser_cmds (Op om :: map Push ks ++ [Op on; Op 174]) = Ok ws.
Proof.
  unfold witness_script. destruct (Z.ltb_spec off 0) as [O|O]; [discriminate|].
  destruct (child_keys derive (d_recs d) chg off) as [ks|] eqn:E; [|discriminate]. cbn [bind].
  unfold multisig_cmds.
  destruct (number_to_op_code (d_m d)) as [om|]; [|discriminate]. cbn [bind].
  destruct (number_to_op_code (zlen (d_recs d))) as [on|]; [|discriminate]. cbn [bind].
  intros H. exists ks, om, on. apply child_keys_spec in E. repeat split; auto.
Qed.

Lemma forall2_in_r {A B} (R : A -> B -> Prop) l l' b :
  Forall2 R l l' -> In b l' -> exists a, In a l /\ R a b.
Proof.
  induction 1 as [|x y l l' Hxy _ IH]; intros I; [contradiction|].
  destruct I as [<-|I]; [exists x; split; [now left|exact Hxy]|].
  destruct (IH I) as [a [Ia Ra]]. exists a. split; [now right|exact Ra].
Qed.

(* (5) receive = change at one offset: a SHA-256 collision (exhibited), or one cosigner's child
   key at (account_index, offset) IS some cosigner's child key at (account_index + 1, offset) —
   a coincidence of two different BIP32 children *)
Theorem branches_coincide_keys d off a :
  (forall h h' n, p2wsh_address h n = p2wsh_address h' n -> h = h') ->
  (forall x acc i k, derive x acc i = Ok k -> length k = 33%nat) ->
  d_recs d <> [] ->
  get_address derive sha256 p2wsh_address d off false true = Ok a ->
  get_address derive sha256 p2wsh_address d off true true = Ok a ->
  (exists s s', s <> s' /\ sha256 s = sha256 s') \/
  (exists kr1 kr2 k, In kr1 (d_recs d) /\ In kr2 (d_recs d) /\
     derive (kr_xpub kr1) (kr_idx kr1) off = Ok k /\
     derive (kr_xpub kr2) (kr_idx kr2 + 1) off = Ok k).
Proof.
  intros HA HL NE G1 G2.
  destruct (branches_distinct derive sha256 p2wsh_address d off a HA HL G1 G2) as [C|[kr [kc [E1 [E2 ES]]]]];
    [now left|right].
  apply child_keys_spec in E1. apply child_keys_spec in E2.
  destruct (d_recs d) as [|r0 rs] eqn:ER; [congruence|].
  inversion E1 as [|? k0 ? kr' H0 _]; subst.
  assert (P : Permutation (k0 :: kr') kc).
  { rewrite (sort_perm (fun k => k) (k0 :: kr')), ES. symmetry. apply sort_perm. }
  assert (I : In k0 kc) by (apply (Permutation_in _ P); now left).
  destruct (forall2_in_r _ _ _ _ E2 I) as [r2 [I2 H2]].
  exists r0, r2, k0. split; [now left|]. split; [exact I2|]. split; [exact H0|exact H2].
Qed.
End AddrP.

(* (4) at the level of CONSTRUCTED descriptors: two descriptors built from the same key records
   supplied in different orders (sorted or not, with or without checksum) give the same witness
   script and address at every (offset, branch) — no side condition *)
Section CtorAddr.
Variable path_ok : list Z -> bool.
Variable hdparse : list Z -> result (list Z * Z).
Variable derive : list Z -> Z -> Z -> result bytes.
Variable sha256 : bytes -> bytes.
Variable p2wsh_address : bytes -> Z -> list Z.

Lemma rec_ok_net n n' kr : rec_ok path_ok hdparse n kr -> rec_ok path_ok hdparse n' kr -> n = n'.
Proof. intros [r H] [r' H']. rewrite H in H'. apply Ok_inj in H'. now injection H'. Qed.

Theorem constructed_address_order_independent m recs recs' cs cs' srt srt' d d' off chg :
  Permutation recs recs' ->
  construct path_ok hdparse m recs cs srt = Ok d ->
  construct path_ok hdparse m recs' cs' srt' = Ok d' ->
  witness_script derive d off chg true = witness_script derive d' off chg true /\
  get_address derive sha256 p2wsh_address d off chg true =
  get_address derive sha256 p2wsh_address d' off chg true.
Proof.
  intros HP H H'.
  destruct (construct_ok _ _ _ _ _ _ _ H) as [_ [NE [n [HF [R [M [N _]]]]]]].
  destruct (construct_ok _ _ _ _ _ _ _ H') as [_ [_ [n' [HF' [R' [M' [N' _]]]]]]].
  apply address_order_independent.
  - rewrite R, R'.
    assert (PM : Permutation (map (normed path_ok hdparse) recs) (map (normed path_ok hdparse) recs'))
      by now apply Permutation_map.
    destruct srt, srt'.
    + rewrite <- (sort_perm kr_xpub _), <- (sort_perm kr_xpub _). exact PM.
    + rewrite <- (sort_perm kr_xpub _). exact PM.
    + rewrite <- (sort_perm kr_xpub _). exact PM.
    + exact PM.
  - congruence.
  - rewrite N, N'. destruct recs as [|r0 rs]; [congruence|].
    inversion HF as [|? ? H0 _]; subst. rewrite Forall_forall in HF'.
    apply (rec_ok_net _ _ r0 H0). apply HF'. apply (Permutation_in _ HP). now left.
Qed.
End CtorAddr.
