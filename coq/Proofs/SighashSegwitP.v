(* Proofs/SighashSegwitP.v — C05: Tx.sig_hash_bip143 builds the BIP143 preimage. *)
From V Require Import Base.Prelude Base.Ints Model.Helper Model.Script Model.Tx Model.Sighash
  Model.SighashAbs Spec.TxData Proofs.HelperP Proofs.SighashP.
From V Require Spec.Legacy Spec.Bip143.

Section S.
Variable hash256 : bytes -> bytes.

Lemma hash_prevouts_run t ct m :
  abs_list abs_in (t_ins t) = Ok (ct_vin ct) ->
  exists m', hash_prevouts hash256 t m =
    Ok (m', hash256 (flat_map (fun i => ser_outpoint (ci_prevout i)) (ct_vin ct))).
Proof.
  intros H. unfold hash_prevouts. rewrite (prevouts_seqs_abs _ _ H). cbn. eauto.
Qed.

Lemma hash_sequence_run t ct m :
  abs_list abs_in (t_ins t) = Ok (ct_vin ct) ->
  exists m', hash_sequence hash256 t m =
    Ok (m', hash256 (flat_map (fun i => le32 (ci_sequence i)) (ct_vin ct))).
Proof.
  intros H. unfold hash_sequence, hash_prevouts. rewrite (prevouts_seqs_abs _ _ H). cbn. eauto.
Qed.

Lemma hash_outputs_run t ct m :
  abs_list abs_out (t_outs t) = Ok (ct_vout ct) ->
  exists m', hash_outputs hash256 t m = Ok (m', hash256 (flat_map ser_txout (ct_vout ct))).
Proof.
  intros H. unfold hash_outputs. rewrite (ser_outs_abs _ _ H). cbn. eauto.
Qed.

Lemma zero32_eq : zero32 = zero_hash. Proof. reflexivity. Qed.

Ltac fin Ev El :=
  unfold rsnd, opt_res, ser_outpoint; cbn [bind ci_prevout ci_sequence op_hash op_n];
  rewrite ?zero32_eq, ?Ev, ?El, <- ?app_assoc; reflexivity.

(* C05 (BIP143): the preimage for a given script code; the memo [m] is arbitrary *)
Lemma bip143_eq_spec_any t ct sp idx redeem wscript s code cb ht m :
  in_u32 ht = true -> abs_tx t = Ok ct ->
  nth_error sp idx = Some s -> in_u64 (sp_value s) = true ->
  bip143_script_code redeem wscript (Some (sp_script s)) = Ok code -> abs_script code = Ok cb ->
  rsnd (bip143_preimage hash256 t sp idx redeem wscript ht m) =
  opt_res (Bip143.preimage hash256 cb (sp_value s) ct idx ht).
Proof.
  intros Hht Ht Hs Hval Hcode Hcb.
  apply abs_tx_inv in Ht as [Hv [Hlt [Hni [Hno [Hin [Hout [Ev El]]]]]]].
  unfold bip143_preimage, Bip143.preimage.
  destruct (nth_error (t_ins t) idx) as [ti|] eqn:Eti.
  2:{ rewrite (abs_list_nth_none _ _ _ _ Hin Eti). reflexivity. }
  destruct (abs_list_nth _ _ _ _ _ Hin Eti) as [ci [Eci Hci]]. rewrite Eci.
  apply abs_in_inv in Hci as [Hpi [Hsq [ss [Hss ->]]]].
  rewrite (le32_ok _ Hv). cbn [bind].
  unfold Bip143.hash_prevouts, Bip143.hash_sequence, Bip143.hash_outputs.
  change (Bip143.is_anyonecanpay ht) with (ht_acp ht).
  change (Bip143.is_single ht) with (Legacy.hash_single ht).
  change (Bip143.is_none ht) with (Legacy.hash_none ht).
  rewrite (base5_none_or_single ht), (base5_single ht).
  rewrite Hs. cbn [option_map]. rewrite Hcode. cbn [bind].
  rewrite (abs_script_ser _ _ Hcb), (le64_ok _ Hval), (le32_ok _ Hpi), (le32_ok _ Hsq),
    (le32_ok _ Hlt), (le32_ok _ Hht).
  (* hashPrevouts *)
  destruct (ht_acp ht) eqn:Eacp; cbn [negb andb bind].
  - (* ANYONECANPAY: both zero *)
    destruct (Legacy.hash_none ht) eqn:En; destruct (Legacy.hash_single ht) eqn:Es;
      cbn [negb andb orb bind].
    + now rewrite (std_none_single_excl _ En) in Es.
    + fin Ev El.
    + destruct (idx <? length (t_outs t))%nat eqn:Elt.
      * apply Nat.ltb_lt in Elt.
        destruct (nth_error (t_outs t) idx) as [o|] eqn:Eo;
          [|apply nth_error_None in Eo; lia].
        destruct (abs_list_nth _ _ _ _ _ Hout Eo) as [co [Eco Hco]]. rewrite Eco.
        rewrite (abs_out_ser _ _ Hco). fin Ev El.
      * apply Nat.ltb_ge in Elt.
        assert (Eo : nth_error (t_outs t) idx = None) by now apply nth_error_None.
        rewrite (abs_list_nth_none _ _ _ _ Hout Eo). fin Ev El.
    + destruct (hash_outputs_run t ct m Hout) as [m' Hm]. rewrite Hm. fin Ev El.
  - destruct (hash_prevouts_run t ct m Hin) as [m1 Hm1]. rewrite Hm1. cbn [bind].
    destruct (Legacy.hash_none ht) eqn:En; destruct (Legacy.hash_single ht) eqn:Es;
      cbn [negb andb orb bind].
    + now rewrite (std_none_single_excl _ En) in Es.
    + fin Ev El.
    + destruct (idx <? length (t_outs t))%nat eqn:Elt.
      * apply Nat.ltb_lt in Elt.
        destruct (nth_error (t_outs t) idx) as [o|] eqn:Eo;
          [|apply nth_error_None in Eo; lia].
        destruct (abs_list_nth _ _ _ _ _ Hout Eo) as [co [Eco Hco]]. rewrite Eco.
        rewrite (abs_out_ser _ _ Hco). fin Ev El.
      * apply Nat.ltb_ge in Elt.
        assert (Eo : nth_error (t_outs t) idx = None) by now apply nth_error_None.
        rewrite (abs_list_nth_none _ _ _ _ Hout Eo). fin Ev El.
    + destruct (hash_sequence_run t ct m1 Hin) as [m2 Hm2]. rewrite Hm2. cbn [bind].
      destruct (hash_outputs_run t ct m2 Hout) as [m3 Hm3]. rewrite Hm3. fin Ev El.
Qed.

Lemma bip143_eq_spec t ct sp idx redeem wscript s code cb ht m :
  standard_hash_type ht = true -> abs_tx t = Ok ct ->
  nth_error sp idx = Some s -> in_u64 (sp_value s) = true ->
  bip143_script_code redeem wscript (Some (sp_script s)) = Ok code -> abs_script code = Ok cb ->
  rsnd (bip143_preimage hash256 t sp idx redeem wscript ht m) =
  opt_res (Bip143.preimage hash256 cb (sp_value s) ct idx ht).
Proof. intros Hht. exact (bip143_eq_spec_any t ct sp idx redeem wscript s code cb ht m (std_u32 _ Hht)). Qed.

End S.
