(* Proofs/HdTextP.v — C08, canonical path text (Model/HdText.v) against the path readers of
   Model/Hd.v:
   * [py_int_dec]: int(str(n)) = n below CPython's 4300-digit limit;
   * [path_text_priv] / [path_text_pub]: the text "m/<i>/<j>'/..." of an index list, in each of
     the spellings m|M and '|h|H, is read back by HDPrivateKey.traverse as exactly that list, and
     by HDPublicKey.traverse iff no index is hardened;
   * [path_text_norm], [path_text_valid], [path_text_tidy]: what is_valid_bip32_path and the
     forgiving normalisation make of it (valid iff at most 255 components);
   * [path_text_combine]: combine_bip32_paths of two such texts is the text of the concatenation;
   * [secure_secret_path_ok], [get_private_key_path_reads]. *)
From V Require Import Base.Prelude Base.Ints Model.Hd Model.HdText Proofs.HdP Proofs.HdPathP.

Definition digitP (c : Z) : Prop := 48 <= c <= 57.

Lemma digit_is c : digitP c -> is_digit c = true.
Proof. unfold digitP, is_digit. intros H. zb. Qed.

(* ---------------------------------------------------------------- str(n) *)
Lemma dec_digits_S f n acc :
  dec_digits (S f) n acc =
  if n <? 10 then (48 + n) :: acc else dec_digits f (n / 10) ((48 + n mod 10) :: acc).
Proof. reflexivity. Qed.

Lemma dec_digits_acc f : forall n acc p,
  0 <= n < 2 ^ Z.of_nat (S f) -> dig_acc 0 p (dec_digits (S f) n acc) = dig_acc n true acc.
Proof.
  induction f as [|f IH]; intros n acc p Hn.
  - change (2 ^ Z.of_nat 1) with 2 in Hn. cbn [dec_digits].
    destruct (Z.ltb_spec n 10); [|lia]. cbn [dig_acc]. rewrite digit_is by (unfold digitP; lia).
    f_equal. lia.
  - rewrite dec_digits_S. destruct (Z.ltb_spec n 10) as [L|L].
    + cbn [dig_acc]. rewrite digit_is by (unfold digitP; lia). f_equal. lia.
    + rewrite Nat2Z.inj_succ, Z.pow_succ_r in Hn by lia.
      assert (H10 : 0 <= n / 10 < 2 ^ Z.of_nat (S f)).
      { split; [apply Z.div_pos; lia|]. apply Z.div_lt_upper_bound; lia. }
      rewrite (IH (n / 10) ((48 + n mod 10) :: acc) p H10).
      pose proof (Z.mod_pos_bound n 10 ltac:(lia)) as Hm.
      cbn [dig_acc]. rewrite digit_is by (unfold digitP; lia).
      f_equal. pose proof (Z.div_mod n 10 ltac:(lia)). lia.
Qed.

Lemma dec_digits_Forall f : forall n acc,
  0 <= n -> Forall digitP acc -> Forall digitP (dec_digits f n acc).
Proof.
  induction f as [|f IH]; intros n acc Hn Ha; cbn [dec_digits]; [exact Ha|].
  destruct (Z.ltb_spec n 10).
  - constructor; [unfold digitP; lia | exact Ha].
  - apply IH; [apply Z.div_pos; lia|]. constructor; [|exact Ha].
    pose proof (Z.mod_pos_bound n 10 ltac:(lia)). unfold digitP. lia.
Qed.

Lemma dec_digits_len f : forall n acc,
  (length acc <= length (dec_digits f n acc) <= f + length acc)%nat.
Proof.
  induction f as [|f IH]; intros n acc; cbn [dec_digits]; [lia|].
  destruct (n <? 10); cbn [length]; [lia|].
  specialize (IH (n / 10) ((48 + n mod 10) :: acc)). cbn [length] in IH. lia.
Qed.

Lemma dec_digits_nonnil f n : dec_digits (S f) n [] <> [].
Proof.
  cbn [dec_digits]. destruct (n <? 10); [discriminate|].
  intros E. pose proof (dec_digits_len f (n / 10) [48 + n mod 10]) as H. rewrite E in H. cbn in H. lia.
Qed.

Lemma dec_fuel_ok n : 0 <= n -> n < 2 ^ Z.of_nat (dec_fuel n).
Proof.
  intros Hn. unfold dec_fuel. rewrite Nat2Z.inj_succ, Z2Nat.id by apply Z.log2_nonneg.
  destruct (Z.eq_dec n 0) as [->|N0]; [reflexivity|].
  apply (Z.log2_spec n). lia.
Qed.

Lemma dec_nonneg n : 0 <= n -> dec n = dec_digits (dec_fuel n) n [].
Proof. intros H. unfold dec. destruct (Z.ltb_spec n 0); [lia | reflexivity]. Qed.

Lemma dec_digitP n : 0 <= n -> Forall digitP (dec n).
Proof. intros H. rewrite dec_nonneg by exact H. apply dec_digits_Forall; [exact H | constructor]. Qed.

Lemma dec_nonnil n : dec n <> [].
Proof.
  unfold dec. destruct (n <? 0); [discriminate|]. unfold dec_fuel. apply dec_digits_nonnil.
Qed.

Lemma dec_fuel_bound n : 0 <= n < 2 ^ 4300 -> (dec_fuel n <= 4300)%nat.
Proof.
  intros [H0 H]. unfold dec_fuel. destruct (Z.eq_dec n 0) as [->|N0]; [cbn; lia|].
  assert (Z.log2 n < 4300) by (apply Z.log2_lt_pow2; lia).
  pose proof (Z.log2_nonneg n). lia.
Qed.

Lemma filter_digits s : Forall digitP s -> filter is_digit s = s.
Proof.
  induction 1 as [|c s Hc _ IH]; [reflexivity|]. cbn [filter]. now rewrite (digit_is c Hc), IH.
Qed.

Lemma dig_lim_dec_digits n :
  0 <= n < 2 ^ 4300 -> dig_lim (dec_digits (dec_fuel n) n []) = Ok n.
Proof.
  intros Hn. unfold dig_lim.
  rewrite filter_digits by (apply dec_digits_Forall; [lia | constructor]).
  pose proof (proj2 (dec_digits_len (dec_fuel n) n [])) as L. cbn [length] in L.
  pose proof (dec_fuel_bound n Hn) as B.
  unfold max_str_digits, zlen.
  destruct (Z.ltb_spec 4300 (Z.of_nat (length (dec_digits (dec_fuel n) n [])))); [lia|].
  unfold dec_fuel. rewrite dec_digits_acc; [reflexivity|].
  split; [lia|]. apply (dec_fuel_ok n). lia.
Qed.

Lemma lstrip_int_hd c s : is_ws_int c = false -> lstrip_int (c :: s) = c :: s.
Proof. intros H. cbn [lstrip_int]. now rewrite H. Qed.

Lemma lstrip_int_noop s : Forall (fun c => is_ws_int c = false) s -> lstrip_int s = s.
Proof. destruct 1 as [|c s Hc _]; [reflexivity | now apply lstrip_int_hd]. Qed.

Lemma strip_int_noop s : Forall (fun c => is_ws_int c = false) s -> strip_int s = s.
Proof.
  intros H. unfold strip_int. rewrite (lstrip_int_noop s H).
  rewrite (lstrip_int_noop (rev s)) by (apply Forall_rev; exact H). apply rev_involutive.
Qed.

Lemma digit_not_ws_int c : digitP c -> is_ws_int c = false.
Proof. unfold digitP, is_ws_int. intros H. zb. Qed.

(* int(str(n)) == n; the bound is CPython's limit of 4300 digits (2^4300 has 1295 digits) *)
Theorem py_int_dec n : - 2 ^ 4300 < n < 2 ^ 4300 -> py_int (dec n) = Ok n.
Proof.
  intros Hn. unfold dec. destruct (Z.ltb_spec n 0) as [Neg|Pos].
  - set (ds := dec_digits (dec_fuel (- n)) (- n) []).
    assert (F : Forall digitP ds) by (apply dec_digits_Forall; [lia | constructor]).
    unfold py_int. rewrite strip_int_noop.
    2:{ constructor; [reflexivity|]. eapply Forall_impl; [|exact F]. apply digit_not_ws_int. }
    change (45 =? 43) with false. change (45 =? 45) with true. cbv iota.
    unfold ds. rewrite dig_lim_dec_digits by lia. cbn [bind]. f_equal. lia.
  - set (ds := dec_digits (dec_fuel n) n []).
    assert (F : Forall digitP ds) by (apply dec_digits_Forall; [lia | constructor]).
    assert (NE : ds <> []) by apply dec_digits_nonnil.
    unfold py_int. rewrite strip_int_noop by (eapply Forall_impl; [|exact F]; apply digit_not_ws_int).
    pose proof (dig_lim_dec_digits n ltac:(lia)) as HL. fold ds in HL.
    destruct ds as [|c r]; [congruence|]. inversion F as [|? ? Hc _]; subst.
    unfold digitP in Hc.
    destruct (Z.eqb_spec c 43); [lia|]. destruct (Z.eqb_spec c 45); [lia|]. exact HL.
Qed.

(* ---------------------------------------------------------------- join / split *)
Lemma join_cons2 sep (a b : list Z) r : join sep (a :: b :: r) = a ++ sep :: join sep (b :: r).
Proof. reflexivity. Qed.

Lemma split_on_nosep sep a : Forall (fun x => x <> sep) a -> split_on sep a = [a].
Proof.
  induction 1 as [|x a Hx _ IH]; [reflexivity|]. cbn [split_on].
  apply Z.eqb_neq in Hx. now rewrite Hx, IH.
Qed.

Lemma split_join sep cs :
  cs <> [] -> Forall (Forall (fun x => x <> sep)) cs -> split_on sep (join sep cs) = cs.
Proof.
  induction cs as [|a cs IH]; intros NE HF; [congruence|].
  inversion HF as [|? ? Ha Hcs]; subst. destruct cs as [|b r].
  - cbn [join]. now apply split_on_nosep.
  - rewrite join_cons2, split_on_app, (split_on_nosep sep a Ha), IH by (auto; discriminate). reflexivity.
Qed.

Lemma map_join (f : Z -> Z) sep cs : map f (join sep cs) = join (f sep) (map (map f) cs).
Proof.
  induction cs as [|a cs IH]; [reflexivity|]. destruct cs as [|b r]; [reflexivity|].
  rewrite join_cons2. cbn [map]. rewrite join_cons2, map_app. cbn [map].
  cbn [map] in IH. now rewrite IH.
Qed.

Lemma Forall_join (Q : Z -> Prop) sep cs : Q sep -> Forall (Forall Q) cs -> Forall Q (join sep cs).
Proof.
  intros Qs. induction cs as [|a cs IH]; intros HF; [constructor|].
  inversion HF as [|? ? Ha Hcs]; subst. destruct cs as [|b r]; [exact Ha|].
  rewrite join_cons2. apply Forall_app. split; [exact Ha|]. constructor; [exact Qs | now apply IH].
Qed.

Lemma join_app2 sep (a b : list (list Z)) :
  a <> [] -> b <> [] -> join sep (a ++ b) = join sep a ++ sep :: join sep b.
Proof.
  intros Na Nb. induction a as [|x a IH]; [congruence|]. destruct a as [|y a'].
  - cbn [app]. destruct b as [|z b']; [congruence|]. reflexivity.
  - change ((x :: y :: a') ++ b) with (x :: y :: (a' ++ b)). rewrite !join_cons2.
    change (y :: a' ++ b) with ((y :: a') ++ b). rewrite IH by discriminate.
    now rewrite <- app_assoc.
Qed.

(* ---------------------------------------------------------------- one component *)
Definition markP (c : Z) : Prop := c = 39 \/ c = 104 \/ c = 72.
Definition idx_ok (i : Z) : Prop := 0 <= i < 4294967296.

Lemma ends_with_last c s x : ends_with_c c (s ++ [x]) = (x =? c).
Proof. unfold ends_with_c. rewrite rev_app_distr. reflexivity. Qed.

Lemma ends_with_digits c s : Forall digitP s -> ~ digitP c -> ends_with_c c s = false.
Proof.
  intros F N. unfold ends_with_c. apply Forall_rev in F. destruct (rev s) as [|x r]; [reflexivity|].
  inversion F as [|? ? Hx _]; subst. apply Z.eqb_neq. intros ->. contradiction.
Qed.

Lemma map_id_on (f : Z -> Z) (Q : Z -> Prop) s :
  (forall x, Q x -> f x = x) -> Forall Q s -> map f s = s.
Proof. intros Hf. induction 1 as [|x s Hx _ IH]; [reflexivity|]. cbn [map]. now rewrite Hf, IH. Qed.

(* a character map that fixes the digits acts on a component through its mark only *)
Lemma map_comp_text (f : Z -> Z) mark i :
  (forall x, digitP x -> f x = x) -> 0 <= i -> map f (comp_text mark i) = comp_text (f mark) i.
Proof.
  intros Hf Hi. unfold comp_text, hardened. destruct (Z.leb_spec 2147483648 i).
  - rewrite map_app. cbn [map]. rewrite (map_id_on f digitP) by (auto; apply dec_digitP; lia). reflexivity.
  - apply (map_id_on f digitP); [exact Hf | apply dec_digitP; lia].
Qed.

Lemma comp_index_priv_text i : idx_ok i -> comp_index_priv (comp_text 39 i) = Ok i.
Proof.
  unfold idx_ok. intros Hi. unfold comp_text, comp_index_priv, hardened.
  destruct (Z.leb_spec 2147483648 i).
  - rewrite ends_with_last. change (39 =? 39) with true. cbv iota.
    rewrite removelast_last, py_int_dec by lia. cbn [bind]. f_equal. lia.
  - rewrite ends_with_digits by (try apply dec_digitP; unfold digitP; lia).
    apply py_int_dec. lia.
Qed.

Lemma comp_index_pub_text i :
  idx_ok i -> comp_index_pub (comp_text 39 i) = if i <? 2147483648 then Ok i else Err.
Proof.
  unfold idx_ok. intros Hi. unfold comp_text, comp_index_pub, hardened.
  destruct (Z.leb_spec 2147483648 i); destruct (Z.ltb_spec i 2147483648); try lia.
  - rewrite ends_with_last. reflexivity.
  - rewrite ends_with_digits by (try apply dec_digitP; unfold digitP; lia).
    apply py_int_dec. lia.
Qed.

Lemma valid_sub_text i : idx_ok i -> valid_sub (comp_text 104 i) = true.
Proof.
  unfold idx_ok. intros Hi. unfold comp_text, valid_sub, hardened.
  destruct (Z.leb_spec 2147483648 i).
  - rewrite ends_with_last. change (104 =? 104) with true. cbv iota.
    rewrite removelast_last, py_int_dec by lia. zb.
  - rewrite ends_with_digits by (try apply dec_digitP; unfold digitP; lia).
    rewrite py_int_dec by lia. zb.
Qed.

(* characters of a path text *)
Definition pchar (c : Z) : Prop :=
  digitP c \/ c = 47 \/ c = 109 \/ c = 77 \/ c = 39 \/ c = 104 \/ c = 72.

Lemma comp_text_pchar mark i : markP mark -> 0 <= i -> Forall pchar (comp_text mark i).
Proof.
  intros Hm Hi. unfold comp_text, hardened. destruct (Z.leb_spec 2147483648 i).
  - apply Forall_app. split.
    + eapply Forall_impl; [|apply dec_digitP; lia]. intros c Hc. left. exact Hc.
    + constructor; [|constructor]. unfold pchar, markP in *. lia.
  - eapply Forall_impl; [|apply dec_digitP; lia]. intros c Hc. left. exact Hc.
Qed.

Lemma comp_text_nosep mark i : markP mark -> 0 <= i -> Forall (fun x => x <> 47) (comp_text mark i).
Proof.
  intros Hm Hi. unfold markP in Hm. unfold comp_text, hardened. destruct (Z.leb_spec 2147483648 i).
  - apply Forall_app. split.
    + eapply Forall_impl; [|apply dec_digitP; lia]. unfold digitP. intros; lia.
    + constructor; [lia | constructor].
  - eapply Forall_impl; [|apply dec_digitP; lia]. unfold digitP. intros; lia.
Qed.

Lemma comp_text_nonnil mark i : comp_text mark i <> [].
Proof.
  unfold comp_text. destruct (hardened <=? i); [|apply dec_nonnil].
  intros E. apply app_eq_nil in E as [_ E]. discriminate.
Qed.

(* ---------------------------------------------------------------- whole paths *)
Definition mP (m : Z) : Prop := m = 109 \/ m = 77.

Lemma comps_nosep mark l :
  markP mark -> Forall idx_ok l -> Forall (Forall (fun x => x <> 47)) (map (comp_text mark) l).
Proof.
  intros Hm HF. apply Forall_forall. intros c Hc. apply in_map_iff in Hc as (i & <- & Hi).
  rewrite Forall_forall in HF. apply comp_text_nosep; [exact Hm | apply (HF i Hi)].
Qed.

Lemma map_path_text (f : Z -> Z) m mark l :
  (forall x, digitP x -> f x = x) -> f 47 = 47 -> Forall idx_ok l ->
  map f (path_text m mark l) = path_text (f m) (f mark) l.
Proof.
  intros Hd H47 HF. unfold path_text. rewrite map_join, H47. cbn [map]. f_equal. f_equal.
  rewrite map_map. apply map_ext_in. intros i Hi. rewrite Forall_forall in HF.
  apply map_comp_text; [exact Hd | apply (HF i Hi)].
Qed.

Lemma tr_digit x : digitP x -> tr x = x.
Proof. unfold digitP, tr, lower_c. intros H. zb. Qed.

Lemma norm_trav_text m mark l :
  mP m -> markP mark -> Forall idx_ok l -> norm_trav (path_text m mark l) = path_text 109 39 l.
Proof.
  intros Hm Hk HF. rewrite norm_trav_map, (map_path_text tr) by (auto using tr_digit).
  destruct Hm as [-> | ->]; destruct Hk as [-> | [-> | ->]]; reflexivity.
Qed.

Lemma path_text_unfold m mark l :
  path_text m mark l = match l with [] => [m] | _ => m :: 47 :: join 47 (map (comp_text mark) l) end.
Proof. unfold path_text. destruct l; reflexivity. Qed.

Lemma path_text_cons m mark i l :
  path_text m mark (i :: l) = m :: 47 :: join 47 (map (comp_text mark) (i :: l)).
Proof. reflexivity. Qed.

Lemma path_components_text m mark l :
  mP m -> markP mark -> Forall idx_ok l ->
  path_components (path_text m mark l) = Ok (map (comp_text 39) l).
Proof.
  intros Hm Hk HF. unfold path_components. rewrite (norm_trav_text m mark l Hm Hk HF).
  assert (S : starts_with [109] (path_text 109 39 l) = true)
    by (rewrite path_text_unfold; destruct l; reflexivity).
  rewrite S. unfold path_text. rewrite split_join; [reflexivity | discriminate |].
  constructor; [repeat constructor; discriminate|].
  apply comps_nosep; [left; reflexivity | exact HF].
Qed.

Lemma mapM_text_priv l : Forall idx_ok l -> mapM comp_index_priv (map (comp_text 39) l) = Ok l.
Proof.
  induction 1 as [|i l Hi _ IH]; [reflexivity|]. cbn [map mapM].
  rewrite (comp_index_priv_text i Hi), IH. reflexivity.
Qed.

(* HDPrivateKey.traverse reads the canonical text of an index list, in every spelling, as
   exactly that list *)
Theorem path_text_priv m mark l :
  mP m -> markP mark -> Forall idx_ok l -> path_indexes_priv (path_text m mark l) = Ok l.
Proof.
  intros Hm Hk HF. unfold path_indexes_priv. rewrite (path_components_text m mark l Hm Hk HF).
  cbn [bind]. now apply mapM_text_priv.
Qed.

Lemma mapM_text_pub l :
  Forall idx_ok l ->
  mapM comp_index_pub (map (comp_text 39) l) =
  if forallb (fun i => i <? 2147483648) l then Ok l else Err.
Proof.
  induction 1 as [|i l Hi _ IH]; [reflexivity|]. cbn [map mapM forallb].
  rewrite (comp_index_pub_text i Hi). destruct (i <? 2147483648); cbn [bind andb]; [|reflexivity].
  rewrite IH. destruct (forallb _ l); reflexivity.
Qed.

(* HDPublicKey.traverse reads it as that list iff no index is hardened, and refuses otherwise *)
Theorem path_text_pub m mark l :
  mP m -> markP mark -> Forall idx_ok l ->
  path_indexes_pub (path_text m mark l) =
  if forallb (fun i => i <? 2147483648) l then Ok l else Err.
Proof.
  intros Hm Hk HF. unfold path_indexes_pub. rewrite (path_components_text m mark l Hm Hk HF).
  cbn [bind]. now apply mapM_text_pub.
Qed.

(* ---------------------------------------------------------------- is_valid / norm_valid *)
Lemma lstrip_noop s : Forall (fun c => is_ws c = false) s -> lstrip s = s.
Proof. destruct 1 as [|c s Hc _]; [reflexivity|]. cbn [lstrip]. now rewrite Hc. Qed.

Lemma strip_noop s : Forall (fun c => is_ws c = false) s -> strip s = s.
Proof.
  intros H. unfold strip. rewrite (lstrip_noop s H).
  rewrite (lstrip_noop (rev s)) by (apply Forall_rev; exact H). apply rev_involutive.
Qed.

Lemma pchar_not_ws c : pchar c -> is_ws c = false.
Proof. unfold pchar, digitP, is_ws. intros H. zb. Qed.

Lemma path_text_pchar m mark l :
  mP m -> markP mark -> Forall idx_ok l -> Forall pchar (path_text m mark l).
Proof.
  intros Hm Hk HF. unfold path_text. apply Forall_join; [unfold pchar; lia|].
  constructor; [constructor; [unfold pchar, mP in *; lia | constructor]|].
  apply Forall_forall. intros c Hc. apply in_map_iff in Hc as (i & <- & Hi).
  rewrite Forall_forall in HF. apply comp_text_pchar; [exact Hk | apply (HF i Hi)].
Qed.

(* no "//" *)
Fixpoint nodd (s : list Z) : bool :=
  match s with
  | a :: t => match t with b :: _ => negb ((a =? 47) && (b =? 47)) && nodd t | [] => true end
  | [] => true
  end.

Lemma repl_dslash_nodd s : nodd s = true -> repl_dslash s = s.
Proof.
  induction s as [|a t IH]; [reflexivity|]. destruct t as [|b r]; [reflexivity|].
  change (nodd (a :: b :: r)) with (negb ((a =? 47) && (b =? 47)) && nodd (b :: r)).
  change (repl_dslash (a :: b :: r))
    with (if (a =? 47) && (b =? 47) then 47 :: repl_dslash r else a :: repl_dslash (b :: r)).
  intros H. apply andb_true_iff in H as [H1 H2]. apply negb_true_iff in H1. rewrite H1.
  now rewrite (IH H2).
Qed.

Definition hd_ok (t : list Z) : Prop := match t with [] => True | y :: _ => y <> 47 end.

Lemma nodd_app_nosep c t : Forall (fun x => x <> 47) c -> nodd t = true -> nodd (c ++ t) = true.
Proof.
  induction 1 as [|x c Hx _ IH]; intros Ht; [exact Ht|]. cbn [app].
  specialize (IH Ht). destruct (c ++ t) as [|y r] eqn:E; [reflexivity|].
  change (nodd (x :: y :: r)) with (negb ((x =? 47) && (y =? 47)) && nodd (y :: r)).
  apply Z.eqb_neq in Hx. rewrite Hx, IH. reflexivity.
Qed.

Lemma nodd_sep t : hd_ok t -> nodd t = true -> nodd (47 :: t) = true.
Proof.
  destruct t as [|y r]; [reflexivity|]. cbn [hd_ok]. intros Hy Ht.
  change (nodd (47 :: y :: r)) with (negb ((47 =? 47) && (y =? 47)) && nodd (y :: r)).
  apply Z.eqb_neq in Hy. rewrite Hy, Ht. reflexivity.
Qed.

Lemma nodd_join cs :
  Forall (fun c => c <> [] /\ Forall (fun x => x <> 47) c) cs ->
  nodd (join 47 cs) = true /\ hd_ok (join 47 cs).
Proof.
  induction 1 as [|a cs [Na Ha] _ [IH1 IH2]]; [split; [reflexivity | exact I]|].
  destruct cs as [|b r].
  - cbn [join]. split; [rewrite <- (app_nil_r a); now apply nodd_app_nosep|].
    destruct a as [|x a']; [congruence|]. inversion Ha; subst. assumption.
  - rewrite join_cons2. split.
    + apply nodd_app_nosep; [exact Ha|]. now apply nodd_sep.
    + destruct a as [|x a']; [congruence|]. inversion Ha; subst. assumption.
Qed.

Lemma path_text_nodd m mark l :
  mP m -> markP mark -> Forall idx_ok l -> nodd (path_text m mark l) = true.
Proof.
  intros Hm Hk HF. unfold path_text. apply nodd_join. constructor.
  - split; [discriminate|]. constructor; [unfold mP in Hm; lia | constructor].
  - apply Forall_forall. intros c Hc. apply in_map_iff in Hc as (i & <- & Hi).
    rewrite Forall_forall in HF. split; [apply comp_text_nonnil|].
    apply comp_text_nosep; [exact Hk | apply (HF i Hi)].
Qed.

Lemma lower_digit x : digitP x -> lower_c x = x.
Proof. unfold digitP, lower_c. intros H. zb. Qed.

(* the forgiving normalisation of is_valid_bip32_path / combine_bip32_paths / ltrim_path turns
   every spelling into the lower-case h spelling *)
Theorem path_text_norm m mark l :
  mP m -> markP mark -> Forall idx_ok l -> norm_valid (path_text m mark l) = path_text 109 104 l.
Proof.
  intros Hm Hk HF. unfold norm_valid, lower.
  rewrite (map_path_text lower_c) by (auto using lower_digit).
  assert (Hm' : mP (lower_c m)) by (destruct Hm as [-> | ->]; left; reflexivity).
  assert (Hk' : markP (lower_c mark)).
  { destruct Hk as [-> | [-> | ->]]; unfold markP; cbn; lia. }
  rewrite strip_noop.
  2:{ eapply Forall_impl; [|apply (path_text_pchar _ _ l Hm' Hk' HF)]. apply pchar_not_ws. }
  unfold repl_c.
  rewrite (map_path_text (fun c => if c =? 39 then 104 else c)); [| |reflexivity|exact HF].
  2:{ intros x Hx. unfold digitP in Hx. zb. }
  assert (E1 : (if lower_c m =? 39 then 104 else lower_c m) = 109)
    by (destruct Hm as [-> | ->]; reflexivity).
  assert (E2 : (if lower_c mark =? 39 then 104 else lower_c mark) = 104)
    by (destruct Hk as [-> | [-> | ->]]; reflexivity).
  rewrite E1, E2. apply repl_dslash_nodd.
  apply path_text_nodd; [left; reflexivity | right; left; reflexivity | exact HF].
Qed.

Theorem path_text_tidy m mark l :
  mP m -> markP mark -> Forall idx_ok l -> tidy (path_text m mark l) = true.
Proof.
  intros Hm Hk HF. unfold tidy. rewrite (path_text_norm m mark l Hm Hk HF).
  unfold lower. rewrite (map_path_text lower_c) by (auto using lower_digit).
  unfold repl_c.
  rewrite (map_path_text (fun c => if c =? 39 then 104 else c)); [| |reflexivity|exact HF].
  2:{ intros x Hx. unfold digitP in Hx. zb. }
  assert (E1 : (if lower_c m =? 39 then 104 else lower_c m) = 109)
    by (destruct Hm as [-> | ->]; reflexivity).
  assert (E2 : (if lower_c mark =? 39 then 104 else lower_c mark) = 104)
    by (destruct Hk as [-> | [-> | ->]]; reflexivity).
  rewrite E1, E2. apply beq_refl.
Qed.

Lemma forallb_valid_sub l : Forall idx_ok l -> forallb valid_sub (map (comp_text 104) l) = true.
Proof.
  induction 1 as [|i l Hi _ IH]; [reflexivity|]. cbn [map forallb].
  now rewrite (valid_sub_text i Hi), IH.
Qed.

(* is_valid_bip32_path accepts it iff there are at most 255 components *)
Theorem path_text_valid m mark l :
  mP m -> markP mark -> Forall idx_ok l ->
  is_valid_path (path_text m mark l) = negb (256 <=? zlen l).
Proof.
  intros Hm Hk HF. unfold is_valid_path. rewrite (path_text_norm m mark l Hm Hk HF).
  rewrite path_text_unfold. destruct l as [|i l'] eqn:El; [reflexivity|]. rewrite <- El in *.
  change (beq (109 :: 47 :: join 47 (map (comp_text 104) l)) [109]) with false.
  change (starts_with [109; 47] (109 :: 47 :: join 47 (map (comp_text 104) l))) with true.
  cbv iota. cbn [negb skipn].
  rewrite split_join.
  - unfold zlen. rewrite map_length. destruct (256 <=? Z.of_nat (length l)); [reflexivity|].
    cbn [negb]. now apply forallb_valid_sub.
  - rewrite El. discriminate.
  - apply comps_nosep; [right; left; reflexivity | exact HF].
Qed.

(* combine_bip32_paths of two canonical texts (any spellings) is the h-spelling of the
   concatenated index list.  Note that the result is NOT re-validated by the code: it may have
   up to 510 components. *)
Theorem path_text_combine m1 k1 a m2 k2 b :
  mP m1 -> markP k1 -> mP m2 -> markP k2 -> Forall idx_ok a -> Forall idx_ok b ->
  zlen a <= 255 -> zlen b <= 255 ->
  combine_paths (path_text m1 k1 a) (path_text m2 k2 b) = Ok (path_text 109 104 (a ++ b)).
Proof.
  intros Hm1 Hk1 Hm2 Hk2 Fa Fb La Lb. unfold combine_paths.
  rewrite !path_text_valid, !path_text_norm by assumption.
  destruct (Z.leb_spec 256 (zlen a)); [lia|]. destruct (Z.leb_spec 256 (zlen b)); [lia|].
  cbn [negb]. destruct a as [|i a']; [reflexivity|]. destruct b as [|j b'].
  - rewrite app_nil_r. rewrite (path_text_cons 109 104 i a').
    change (beq (109 :: 47 :: join 47 (map (comp_text 104) (i :: a'))) [109]) with false.
    reflexivity.
  - rewrite (path_text_cons 109 104 i a'), (path_text_cons 109 104 j b').
    change (beq (109 :: 47 :: join 47 (map (comp_text 104) (i :: a'))) [109]) with false.
    change (beq (109 :: 47 :: join 47 (map (comp_text 104) (j :: b'))) [109]) with false.
    cbv iota. cbn [skipn]. f_equal.
    change ((i :: a') ++ j :: b') with (i :: (a' ++ j :: b')). rewrite path_text_cons.
    change (i :: (a' ++ j :: b')) with ((i :: a') ++ j :: b').
    rewrite map_app, join_app2 by (cbn [map]; discriminate). reflexivity.
Qed.

(* blind_xpub's depth check counts the "/" of the starting path: one per index *)
Lemma count_c_app c a b : count_c c (a ++ b) = count_c c a + count_c c b.
Proof. induction a as [|x a IH]; cbn [app count_c]; [reflexivity | rewrite IH; lia]. Qed.

Lemma count_c_nosep c a : Forall (fun x => x <> c) a -> count_c c a = 0.
Proof.
  induction 1 as [|x a Hx _ IH]; [reflexivity|]. cbn [count_c]. apply Z.eqb_neq in Hx. now rewrite Hx, IH.
Qed.

Lemma count_c_join c cs :
  cs <> [] -> Forall (Forall (fun x => x <> c)) cs -> count_c c (join c cs) = zlen cs - 1.
Proof.
  induction cs as [|a cs IH]; intros NE HF; [congruence|].
  inversion HF as [|? ? Ha Hcs]; subst. destruct cs as [|b r].
  - cbn [join]. rewrite (count_c_nosep c a Ha). reflexivity.
  - rewrite join_cons2, count_c_app. cbn [count_c]. rewrite Z.eqb_refl, (count_c_nosep c a Ha).
    rewrite IH by (auto; discriminate). unfold zlen. cbn [length]. lia.
Qed.

Theorem path_text_count m mark l :
  mP m -> markP mark -> Forall idx_ok l -> count_c 47 (path_text m mark l) = zlen l.
Proof.
  intros Hm Hk HF. unfold path_text. rewrite count_c_join.
  - unfold zlen. cbn [length]. rewrite map_length. lia.
  - discriminate.
  - constructor; [constructor; [unfold mP in Hm; lia | constructor]|]. now apply comps_nosep.
Qed.

(* ---------------------------------------------------------------- traverse on canonical text *)
Section Trav.
Variable C : Pecc.curve.
Variable hmac512 : bytes -> bytes -> bytes.
Variable hash160 : bytes -> bytes.

(* deriving along a path text = deriving its components one by one, in every spelling *)
Theorem traverse_priv_text k m mark l :
  mP m -> markP mark -> Forall idx_ok l ->
  traverse_priv C hmac512 hash160 k (path_text m mark l) = derive_priv C hmac512 hash160 k l.
Proof.
  intros Hm Hk HF. rewrite traverse_priv_eq, (path_text_priv m mark l Hm Hk HF). reflexivity.
Qed.

Lemma derive_pub_hardened_err k l :
  forallb (fun i => i <? 2147483648) l = false -> derive_pub C hmac512 hash160 k l = Err.
Proof.
  intros H. apply derive_pub_refuses_hardened.
  apply Exists_exists.
  assert (E : exists i, In i l /\ (i <? 2147483648) = false).
  { induction l as [|i l IH]; [discriminate|]. cbn [forallb] in H.
    destruct (i <? 2147483648) eqn:Ei.
    - destruct (IH H) as (j & Hj & Hj'). exists j. split; [right; exact Hj | exact Hj'].
    - exists i. split; [left; reflexivity | exact Ei]. }
  destruct E as (i & Hi & Hlt). exists i. split; [exact Hi|]. left. apply Z.ltb_ge in Hlt. exact Hlt.
Qed.

Theorem traverse_pub_text k m mark l :
  mP m -> markP mark -> Forall idx_ok l ->
  traverse_pub C hmac512 hash160 k (path_text m mark l) = derive_pub C hmac512 hash160 k l.
Proof.
  intros Hm Hk HF. rewrite traverse_pub_eq, (path_text_pub m mark l Hm Hk HF).
  destruct (forallb (fun i => i <? 2147483648) l) eqn:E; [reflexivity|].
  cbn [bind]. symmetry. now apply derive_pub_hardened_err.
Qed.
End Trav.

(* ---------------------------------------------------------------- secure_secret_path *)
Lemma comp_text_unhardened mark i : i < 2147483648 -> comp_text mark i = dec i.
Proof. intros H. unfold comp_text, hardened. destruct (Z.leb_spec 2147483648 i); [lia | reflexivity]. Qed.

(* what secure_secret_path returns, whatever randbelow(2**31 - 1) drew: a valid BIP32 path of
   [depth] unhardened steps that the PUBLIC traverse reads back as the draws — so it can be
   handed to blind_xpub *)
Theorem secure_secret_path_ok depth draws p :
  Forall (fun r => 0 <= r < 2147483647) draws ->
  secure_secret_path_of depth draws = Ok p ->
  p = path_text 109 39 draws /\ zlen draws = depth /\ 1 <= depth < 32 /\
  is_valid_path p = true /\ tidy p = true /\
  path_indexes_pub p = Ok draws /\ path_indexes_priv p = Ok draws.
Proof.
  intros HF. unfold secure_secret_path_of.
  destruct (Z.leb_spec 32 depth); [discriminate|]. destruct (Z.ltb_spec depth 1); [discriminate|].
  destruct (Z.eqb_spec (zlen draws) depth) as [E|]; [|discriminate]. cbn [negb]. intros Hp.
  assert (Epp : p = join 47 ([109] :: map dec draws)) by congruence. clear Hp. subst p.
  assert (HF' : Forall idx_ok draws).
  { eapply Forall_impl; [|exact HF]. unfold idx_ok. intros; lia. }
  assert (Ep : join 47 ([109] :: map dec draws) = path_text 109 39 draws).
  { unfold path_text. f_equal. f_equal. apply map_ext_in. intros i Hi.
    rewrite Forall_forall in HF. specialize (HF i Hi). symmetry. apply comp_text_unhardened. lia. }
  rewrite Ep. assert (M : mP 109) by (left; reflexivity). assert (K : markP 39) by (left; reflexivity).
  repeat split; try lia.
  - rewrite path_text_valid by assumption. destruct (Z.leb_spec 256 (zlen draws)); [lia | reflexivity].
  - now apply path_text_tidy.
  - rewrite path_text_pub by assumption.
    assert (A : forallb (fun i => i <? 2147483648) draws = true).
    { apply forallb_forall. intros i Hi. rewrite Forall_forall in HF. specialize (HF i Hi).
      apply Z.ltb_lt. lia. }
    now rewrite A.
  - now apply path_text_priv.
Qed.

Lemma secure_secret_path_total depth draws :
  1 <= depth < 32 -> zlen draws = depth ->
  secure_secret_path_of depth draws = Ok (join 47 ([109] :: map dec draws)).
Proof.
  intros Hd E. unfold secure_secret_path_of.
  destruct (Z.leb_spec 32 depth); [lia|]. destruct (Z.ltb_spec depth 1); [lia|].
  rewrite E, Z.eqb_refl. reflexivity.
Qed.

(* ---------------------------------------------------------------- get_private_key *)
(* HDPrivateKey.get_private_key("<P>'", account, is_external, address) walks
   m / P' / coin' / account' / chain / address for purpose number P, account and address in
   [0, 2^31) *)
Theorem get_private_key_path_reads P net account ext addr :
  0 <= P < 2147483648 -> 0 <= account < 2147483648 -> 0 <= addr < 2147483648 ->
  get_private_key_path (dec P ++ [39]) net account ext addr =
  path_text 109 39 [P + hardened; (if net =? 0 then 0 else 1) + hardened; account + hardened;
                    (if ext then 0 else 1); addr].
Proof.
  intros HP Ha Hd. unfold get_private_key_path, path_text. cbn [map].
  rewrite !join_cons2. cbn [join].
  assert (H1 : forall v, 0 <= v < 2147483648 -> comp_text 39 (v + hardened) = dec v ++ [39]).
  { intros v Hv. unfold comp_text, hardened. destruct (Z.leb_spec 2147483648 (v + 2147483648)); [|lia].
    f_equal. f_equal. lia. }
  rewrite (H1 P HP), (H1 account Ha), (comp_text_unhardened 39 addr) by lia.
  destruct (net =? 0); destruct ext; cbv iota.
  all: first [rewrite (H1 0) by lia | rewrite (H1 1) by lia].
  all: first [rewrite (comp_text_unhardened 39 0) by lia | rewrite (comp_text_unhardened 39 1) by lia].
  all: change (dec 0) with [48]; change (dec 1) with [49].
  all: repeat (rewrite <- app_assoc; cbn [app]); reflexivity.
Qed.

(* ---------------------------------------------------------------- CPython's 4300-digit limit *)
Lemma ws_int_not_digit c : is_ws_int c = true -> is_digit c = false.
Proof. unfold is_ws_int, is_digit. zb. Qed.

Lemma filter_digit_lstrip s : filter is_digit (lstrip_int s) = filter is_digit s.
Proof.
  induction s as [|c r IH]; [reflexivity|]. cbn [lstrip_int]. destruct (is_ws_int c) eqn:E; [|reflexivity].
  cbn [filter]. now rewrite (ws_int_not_digit c E).
Qed.

Lemma filter_rev' {A} (f : A -> bool) l : filter f (rev l) = rev (filter f l).
Proof.
  induction l as [|x l IH]; [reflexivity|]. cbn [rev filter]. rewrite filter_app, IH. cbn [filter].
  destruct (f x); cbn [rev]; [reflexivity | now rewrite app_nil_r].
Qed.

Lemma filter_digit_strip s : filter is_digit (strip_int s) = filter is_digit s.
Proof.
  unfold strip_int. rewrite filter_rev', filter_digit_lstrip, filter_rev', rev_involutive.
  apply filter_digit_lstrip.
Qed.

(* int() of a text with more than 4300 digit characters raises, whatever else it contains *)
Theorem py_int_digit_limit s : max_str_digits < zlen (filter is_digit s) -> py_int s = Err.
Proof.
  intros H. unfold py_int. pose proof (filter_digit_strip s) as F.
  destruct (strip_int s) as [|c r]; [reflexivity|].
  assert (L : forall t, filter is_digit t = filter is_digit s -> dig_lim t = Err).
  { intros t Et. unfold dig_lim. rewrite Et. destruct (Z.ltb_spec max_str_digits (zlen (filter is_digit s))); [reflexivity | lia]. }
  destruct (Z.eqb_spec c 43) as [->|N43]; [apply L; exact F|].
  destruct (Z.eqb_spec c 45) as [->|N45]; [rewrite (L r F); reflexivity|].
  apply L. exact F.
Qed.

Lemma filter_digit_removelast c s :
  is_digit c = false -> ends_with_c c s = true -> filter is_digit (removelast s) = filter is_digit s.
Proof.
  intros Hc He. unfold ends_with_c in He.
  destruct (rev s) as [|x r] eqn:E; [discriminate|]. apply Z.eqb_eq in He. subst x.
  assert (Es : s = rev r ++ [c]) by (rewrite <- (rev_involutive s), E; reflexivity).
  rewrite Es, removelast_last, filter_app. cbn [filter]. rewrite Hc. now rewrite app_nil_r.
Qed.

(* hence such a component is refused by is_valid_bip32_path and by both traverse methods, with
   or without a hardening mark *)
Theorem component_digit_limit c :
  max_str_digits < zlen (filter is_digit c) ->
  valid_sub c = false /\ comp_index_priv c = Err /\ comp_index_pub c = Err.
Proof.
  intros H. split; [|split].
  - unfold valid_sub. destruct (ends_with_c 104 c) eqn:E.
    + rewrite py_int_digit_limit; [reflexivity|]. now rewrite (filter_digit_removelast 104 c eq_refl E).
    + now rewrite py_int_digit_limit.
  - unfold comp_index_priv. destruct (ends_with_c 39 c) eqn:E.
    + rewrite py_int_digit_limit; [reflexivity|]. now rewrite (filter_digit_removelast 39 c eq_refl E).
    + now apply py_int_digit_limit.
  - unfold comp_index_pub. destruct (ends_with_c 39 c); [reflexivity | now apply py_int_digit_limit].
Qed.
