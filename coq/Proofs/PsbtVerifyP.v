(* Proofs/PsbtVerifyP.v — finalize composed with the C06 model of Tx.verify_input:
   for the m-of-n wallets (P2WSH, P2SH-P2WSH, P2SH) the finaliser succeeds EXACTLY when at least m
   keys of the script have signed, it emits the first m of their signatures in script key order,
   and the emitted scriptSig / witness is accepted by verify_input whenever OP_CHECKMULTISIG
   accepts those m signatures (C06 completeness).  Single-key wallets likewise. *)
From V Require Import Base.Prelude Base.Ints Model.Helper Model.Script Model.Tx Model.Psbt
  Model.Op Model.Interp Model.Pecc Model.Taproot Model.Verify
  Proofs.PsbtDictP Proofs.PsbtFinalP Proofs.PsbtFinal2P
  Proofs.VerifyP Proofs.VerifyCompleteP Proofs.VerifyNestedP.

Lemma msig_is_multisig_script m keys : msig_cmds m keys = multisig_script m keys.
Proof. reflexivity. Qed.

Lemma zlen_firstn_exact {A} m (l : list A) : 0 <= m <= zlen l -> zlen (firstn (Z.to_nat m) l) = m.
Proof. intros H. rewrite zlen_firstn_min by lia. lia. Qed.

Lemma not_wit_prog o r : o <> 0 -> is_p2wpkh (Op o :: r) = false /\ is_p2wsh (Op o :: r) = false.
Proof. intros H. destruct o; [contradiction| |]; split; reflexivity. Qed.

Section Compose.
Variable C : curve.
Variables ripemd160 sha1 sha256 hash160 hash256 : bytes -> bytes.
Variable so : sigops.
Variable c : txctx.

Notation verify w ss spk := (verify_input C ripemd160 sha1 sha256 hash160 hash256 so c w ss spk).

(* native P2WSH m-of-n *)
Theorem finalize_p2wsh_multisig st ti spk ws m keys raw :
  in_script_pubkey st ti = Ok (Some spk) ->
  s_cmds spk = p2wsh_script (sha256 raw) -> length (sha256 raw) = 32%nat ->
  pi_redeem st = None -> pi_wscript st = Some ws ->
  s_cmds ws = multisig_script m keys -> raw_serialize ws = Ok raw ->
  parse_cmds raw = Ok (multisig_script m keys) ->
  1 <= m <= 16 -> 1 <= zlen keys <= 16 -> NoDup keys ->
  let got := firstn (Z.to_nat m) (key_sigs keys (pi_sigs st)) in
  ((exists st', in_finalize st ti = Ok st') <-> m <= zlen (key_sigs keys (pi_sigs st))) /\
  forall st', in_finalize st ti = Ok st' ->
    st' = finalized st (mk_script []) (Some ([] :: got ++ [raw])) /\ zlen got = m /\
    (nonempty_sigs got = true -> so_multisig so (rev keys) (rev got) = Ok true ->
     verify ([] :: got ++ [raw]) [] (s_cmds spk) = OTrue).
Proof.
  intros Hspk Hcs Hl Hr Hws Hw Hraw Hp Hm Hk Hn got.
  assert (E : in_finalize st ti =
              if m <=? zlen (key_sigs keys (pi_sigs st))
              then Ok (finalized st (mk_script []) (Some ([] :: got ++ [raw]))) else Err).
  { rewrite (in_finalize_p2wsh_exact st ti spk ws (Op (80 + m))
               (map Push keys ++ [Op (80 + zlen keys); Op 174]) m raw (mk_script [])); try assumption.
    - rewrite Hw, <- msig_is_multisig_script, msig_threshold by exact Hn.
      rewrite script_sigs_pushes, pushes_msig. reflexivity.
    - rewrite Hcs. reflexivity.
    - rewrite Hcs, Hr. cbn. rewrite Hl. reflexivity.
    - rewrite Hcs, Hr. cbn. rewrite Hl. reflexivity.
    - now apply msig_number.
    - lia.
    - rewrite Hr. reflexivity. }
  split.
  - rewrite E. destruct (m <=? zlen (key_sigs keys (pi_sigs st))) eqn:B; split.
    + intros _. now apply Z.leb_le.
    + intros _. eexists; reflexivity.
    + intros [st' H]; discriminate.
    + intros H. apply Z.leb_gt in B. lia.
  - intros st' H. rewrite E in H. destruct (m <=? zlen (key_sigs keys (pi_sigs st))) eqn:B; [|discriminate].
    apply Z.leb_le in B. inversion H; subst st'. split; [reflexivity|].
    assert (Lg : zlen got = m) by (apply zlen_firstn_exact; lia). split; [exact Lg|].
    intros Hne Hok. rewrite Hcs.
    apply (p2wsh_multisig_complete C ripemd160 sha1 sha256 hash160 hash256 so c m keys got raw);
      assumption.
Qed.

(* P2SH-wrapped P2WSH m-of-n *)
Theorem finalize_p2sh_p2wsh_multisig st ti spk rs ws m keys raw :
  let redeem := 0 :: 32 :: sha256 raw in
  in_script_pubkey st ti = Ok (Some spk) ->
  s_cmds spk = p2sh_script (hash160 redeem) -> length (hash160 redeem) = 20%nat ->
  pi_redeem st = Some rs -> s_cmds rs = p2wsh_script (sha256 raw) -> s_raw rs = None ->
  length (sha256 raw) = 32%nat ->
  pi_wscript st = Some ws ->
  s_cmds ws = multisig_script m keys -> raw_serialize ws = Ok raw ->
  parse_cmds raw = Ok (multisig_script m keys) ->
  1 <= m <= 16 -> 1 <= zlen keys <= 16 -> NoDup keys ->
  let got := firstn (Z.to_nat m) (key_sigs keys (pi_sigs st)) in
  ((exists st', in_finalize st ti = Ok st') <-> m <= zlen (key_sigs keys (pi_sigs st))) /\
  forall st', in_finalize st ti = Ok st' ->
    st' = finalized st (mk_script [Push redeem]) (Some ([] :: got ++ [raw])) /\ zlen got = m /\
    (nonempty_sigs got = true -> so_multisig so (rev keys) (rev got) = Ok true ->
     verify ([] :: got ++ [raw]) [Push redeem] (s_cmds spk) = OTrue).
Proof.
  intros redeem Hspk Hcs Hlr Hr Hrc Hrr Hl Hws Hw Hraw Hp Hm Hk Hn got.
  assert (Hrs : raw_serialize rs = Ok redeem).
  { unfold raw_serialize. rewrite Hrr, Hrc. unfold p2wsh_script. cbn [ser_cmds ser_cmd].
    replace (zlen (sha256 raw)) with 32 by (unfold zlen; rewrite Hl; reflexivity).
    cbn. now rewrite app_nil_r. }
  assert (E : in_finalize st ti =
              if m <=? zlen (key_sigs keys (pi_sigs st))
              then Ok (finalized st (mk_script [Push redeem]) (Some ([] :: got ++ [raw]))) else Err).
  { rewrite (in_finalize_p2wsh_exact st ti spk ws (Op (80 + m))
               (map Push keys ++ [Op (80 + zlen keys); Op 174]) m raw (mk_script [Push redeem])); try assumption.
    - rewrite Hw, <- msig_is_multisig_script, msig_threshold by exact Hn.
      rewrite script_sigs_pushes, pushes_msig. reflexivity.
    - rewrite Hr. cbn. apply orb_true_r.
    - rewrite Hcs, Hr. cbn [opt_is]. rewrite Hrc. cbn. rewrite Hl. reflexivity.
    - rewrite Hr. cbn [opt_is]. rewrite Hrc. cbn. rewrite Hl. apply orb_true_r.
    - now apply msig_number.
    - lia.
    - rewrite Hr. unfold redeem_script_sig. rewrite Hrs. reflexivity. }
  split.
  - rewrite E. destruct (m <=? zlen (key_sigs keys (pi_sigs st))) eqn:B; split.
    + intros _. now apply Z.leb_le.
    + intros _. eexists; reflexivity.
    + intros [st' H]; discriminate.
    + intros H. apply Z.leb_gt in B. lia.
  - intros st' H. rewrite E in H. destruct (m <=? zlen (key_sigs keys (pi_sigs st))) eqn:B; [|discriminate].
    apply Z.leb_le in B. inversion H; subst st'. split; [reflexivity|].
    assert (Lg : zlen got = m) by (apply zlen_firstn_exact; lia). split; [exact Lg|].
    intros Hne Hok. rewrite Hcs.
    apply (p2sh_p2wsh_multisig_complete C ripemd160 sha1 sha256 hash160 hash256 so c m keys got raw);
      assumption.
Qed.

(* bare P2SH m-of-n *)
Theorem finalize_p2sh_multisig st ti spk rs m keys raw :
  in_script_pubkey st ti = Ok (Some spk) ->
  s_cmds spk = p2sh_script (hash160 raw) -> length (hash160 raw) = 20%nat ->
  pi_redeem st = Some rs ->
  s_cmds rs = multisig_script m keys -> raw_serialize rs = Ok raw ->
  parse_cmds raw = Ok (multisig_script m keys) ->
  1 <= m <= 16 -> 1 <= zlen keys <= 16 -> NoDup keys ->
  let got := firstn (Z.to_nat m) (key_sigs keys (pi_sigs st)) in
  let ss := Op 0 :: map Push got ++ [Push raw] in
  ((exists st', in_finalize st ti = Ok st') <-> m <= zlen (key_sigs keys (pi_sigs st))) /\
  forall st', in_finalize st ti = Ok st' ->
    st' = finalized st (mk_script ss) (pi_witness st) /\ zlen got = m /\
    (nonempty_sigs got = true -> so_multisig so (rev keys) (rev got) = Ok true ->
     forall w, verify w ss (s_cmds spk) = OTrue).
Proof.
  intros Hspk Hcs Hl Hr Hrc Hraw Hp Hm Hk Hn got ss.
  assert (E : in_finalize st ti =
              if m <=? zlen (key_sigs keys (pi_sigs st))
              then Ok (finalized st (mk_script ss) (pi_witness st)) else Err).
  { rewrite (in_finalize_p2sh_exact st ti spk rs (Op (80 + m))
               (map Push keys ++ [Op (80 + zlen keys); Op 174]) m raw); try assumption.
    - rewrite Hrc, <- msig_is_multisig_script, msig_threshold by exact Hn.
      rewrite script_sigs_pushes, pushes_msig. reflexivity.
    - rewrite Hcs. cbn. rewrite Hl. reflexivity.
    - rewrite Hcs, Hrc. unfold multisig_script.
      rewrite (proj1 (not_wit_prog (80 + m) _ ltac:(lia))). reflexivity.
    - rewrite Hcs, Hrc. unfold multisig_script.
      rewrite (proj2 (not_wit_prog (80 + m) _ ltac:(lia))). reflexivity.
    - now apply msig_number.
    - lia. }
  split.
  - rewrite E. destruct (m <=? zlen (key_sigs keys (pi_sigs st))) eqn:B; split.
    + intros _. now apply Z.leb_le.
    + intros _. eexists; reflexivity.
    + intros [st' H]; discriminate.
    + intros H. apply Z.leb_gt in B. lia.
  - intros st' H. rewrite E in H. destruct (m <=? zlen (key_sigs keys (pi_sigs st))) eqn:B; [|discriminate].
    apply Z.leb_le in B. inversion H; subst st'. split; [reflexivity|].
    assert (Lg : zlen got = m) by (apply zlen_firstn_exact; lia). split; [exact Lg|].
    intros Hne Hok w. rewrite Hcs.
    apply (p2sh_multisig_complete C ripemd160 sha1 sha256 hash160 hash256 so c w m keys got raw);
      assumption.
Qed.

End Compose.
