(* Proofs/ConformP.v — single-op-code conformance of the library model (Model/Op.v, dispatched the
   way Script.evaluate does, Model/Interp.v exec_op) with the consensus step of Spec/Consensus.v,
   for every stack and alt stack of any depth. *)
From V Require Import Base.Prelude Base.Ints Model.Script Model.Op Model.Interp Spec.Consensus
  Proofs.OpP.

(* ------------------------------------------------------------------ bridges *)

Lemma cast_decode v : bytes_ok v -> cast_to_bool v = negb (decode_num v =? 0).
Proof.
  intros B. pose proof (decode_zero_iff v B) as H.
  destruct (cast_to_bool v); destruct (decode_num v =? 0) eqn:E; cbn; try reflexivity.
  - apply Z.eqb_eq in E. apply H in E. discriminate.
  - assert (decode_num v = 0) by now apply H. lia.
Qed.

Lemma enc_bool_of_bool b : enc_bool b = of_bool b.
Proof. destruct b; reflexivity. Qed.

Lemma decode_enc_bool b : (decode_num (enc_bool b) =? 0) = negb b.
Proof. destruct b; reflexivity. Qed.

Lemma decode_enc_b2z b : (decode_num (encode_num (b2z b)) =? 0) = negb b.
Proof. destruct b; reflexivity. Qed.

Lemma cast_enc_bnum b : cast_to_bool (encode_num (bnum b)) = b.
Proof. destruct b; reflexivity. Qed.

Lemma beq_sym a b : beq a b = beq b a.
Proof.
  destruct (beq a b) eqn:E.
  - apply beq_eq in E. subst. symmetry. apply beq_refl.
  - symmetry. apply beq_neq. apply beq_neq in E. congruence.
Qed.

Lemma scriptnum_some m v n : bytes_ok v -> scriptnum m v = Some n -> n = decode_num v.
Proof.
  unfold scriptnum. intros B. destruct (m <? length v)%nat; [discriminate|].
  intros [= <-]. now apply sn_value_decode.
Qed.

Lemma nth_error_nth {A} (l : list A) k d : (k < length l)%nat -> nth_error l k = Some (nth k l d).
Proof.
  revert k; induction l as [|x l IH]; intros k H; [cbn in H; lia|].
  destruct k; [reflexivity|]. cbn in *. apply IH. lia.
Qed.

Lemma remove_nth_firstn_skipn {A} (l : list A) k : remove_nth k l = firstn k l ++ skipn (S k) l.
Proof.
  revert k; induction l as [|x l IH]; intros k; [destruct k; reflexivity|].
  destruct k; [reflexivity|]. cbn [remove_nth firstn skipn app]. f_equal. apply IH.
Qed.

(* ------------------------------------------------------------------ the statement *)

(* model result vs. consensus result: nothing is claimed where the spec is out of scope *)
Definition agree (m : result (stack * stack)) (s : sres cstate) : Prop :=
  match s with
  | SOOS => True
  | SFail => m = Err
  | SOk st => m = Ok st
  end.

Definition to_ctx (c : txctx) : ctx :=
  {| c_locktime := t_locktime c; c_sequence := t_sequence c; c_version := t_version c |}.

Section Conf.
  Variables ripemd160 sha1 sha256 : bytes -> bytes.

  (* OP_CODE_FUNCTIONS with hash160 = ripemd160 . sha256 and hash256 = sha256 . sha256
     (buidl/helper.py) *)
  Definition lib_table : Z -> option opfn :=
    op_code_functions ripemd160 sha1 sha256 (fun x => ripemd160 (sha256 x))
      (fun x => sha256 (sha256 x)) no_sigops.

  (* one integer command executed the way Script.evaluate does it *)
  Definition lib_step (c : txctx) (o : Z) (s a : stack) : result (stack * stack) :=
    match Interp.exec_op lib_table c o [] s a with
    | Ok (_, s', a') => Ok (s', a')
    | Err => Err
    end.

  Definition spec_step (c : txctx) (o : Z) (s a : stack) : sres cstate :=
    Consensus.exec_op ripemd160 sha1 sha256 (to_ctx c) o (s, a).

  (* the op codes both sides implement as plain (non-conditional) steps, without OP_2ROT (113)
     and the two time-lock op codes (177, 178), which have their own theorems *)
  Definition plain_ops : list Z :=
    [0; 79; 81; 82; 83; 84; 85; 86; 87; 88; 89; 90; 91; 92; 93; 94; 95; 96; 97;
     105; 106; 107; 108; 109; 110; 111; 112; 114; 115; 116; 117; 118; 119; 120; 121; 122; 123; 124; 125;
     130; 135; 136; 139; 140; 143; 144; 145; 146; 147; 148;
     154; 155; 156; 157; 158; 159; 160; 161; 162; 163; 164; 165; 166; 167; 168; 169; 170;
     176; 179; 180; 181; 182; 183; 184; 185].

  Lemma ok_head (x y : bytes) (r a : stack) : x = y -> @Ok (stack * stack) (x :: r, a) = Ok (y :: r, a).
  Proof. now intros ->. Qed.

  Ltac lit :=
    cbn [Z.eqb Z.leb Z.ltb Z.compare Pos.eqb Pos.compare Pos.compare_cont andb orb negb Z.sub Z.add
         Z.opp Z.pos_sub Pos.succ Pos.add Pos.pred_double Z.double Z.succ_double Z.pred_double
         Pos.sub Pos.sub_mask Pos.double_mask Pos.succ_double_mask Pos.double_pred_mask Pos.pred_N].

  Ltac open_step :=
    unfold lib_step, spec_step, Interp.exec_op, lib_table, op_code_functions, common_functions,
      Consensus.exec_op; lit.

  Ltac zb :=
    repeat match goal with
           | |- context [?a <? ?b] => destruct (a <? b) eqn:?
           | |- context [?a <=? ?b] => destruct (a <=? b) eqn:?
           | |- context [?a >? ?b] => destruct (a >? b) eqn:?
           | |- context [?a >=? ?b] => destruct (a >=? b) eqn:?
           | |- context [?a =? ?b] => destruct (a =? b) eqn:?
           | |- context [beq ?a ?b] => destruct (beq a b) eqn:?
           end; cbn [negb andb orb b2z bnum]; try reflexivity; try lia;
    try match goal with
        | H1 : beq ?a ?b = true, H2 : beq ?b ?a = false |- _ => rewrite beq_sym in H2; congruence
        end.

  Ltac unf :=
    unfold op_push_num, op_nop, op_verify, op_return, op_toaltstack, op_fromaltstack, op_2drop, op_2dup,
      op_3dup, op_2over, op_2swap, op_ifdup, op_depth, op_drop, op_dup, op_nip, op_over, op_rot, op_swap,
      op_tuck, op_size, op_equal, op_equalverify, op_1add, op_1sub, op_negate, op_abs, op_not, op_0notequal,
      op_add, op_sub, op_booland, op_boolor, op_numequal, op_numequalverify, op_numnotequal, op_lessthan,
      op_greaterthan, op_lessthanorequal, op_greaterthanorequal, op_min, op_max, op_within, op_hash,
      un_op, bin_op, un_num, bin_num, then_verify, verify, hash_op, op_equal, op_numequal, bin_op,
      op_verify, bind, agree.

  (* rewrite the spec's number functions into the model's *)
  Ltac nums :=
    repeat match goal with
           | |- context [scriptnum ?m ?v] =>
               let E := fresh "E" in let n := fresh "n" in
               destruct (scriptnum m v) as [n|] eqn:E;
               [apply scriptnum_some in E; [subst n | assumption] | ]
           end;
    rewrite ?sn_serialize_encode.

  Ltac casts :=
    repeat match goal with
           | B : bytes_ok ?v |- context [cast_to_bool ?v] => rewrite (cast_decode v B)
           end.

  Ltac finish :=
    cbn [fst snd]; unf; cbn [fst snd]; nums; cbn [fst snd]; rewrite ?cast_enc_bnum, ?decode_enc_b2z;
    casts; rewrite ?decode_enc_bool, ?enc_bool_of_bool;
    try exact I; try reflexivity;
    try (apply ok_head; f_equal; zb; fail);
    try (zb; fail).

  Ltac pops n s Hs :=
    lazymatch n with
    | O => finish
    | S ?k =>
        let x := fresh "x" in let B := fresh "B" in let t := fresh "t" in let Ht := fresh "Ht" in
        destruct s as [|x t];
        [finish | apply Forall_cons_iff in Hs; destruct Hs as [B Ht]; pops k t Ht]
    end.

  Ltac solve_plain s a Hs := open_step; try (destruct a; finish; fail); pops 4%nat s Hs.

  Lemma plain_conformance_nopick c o s a :
    In o plain_ops -> o <> 121 -> o <> 122 ->
    Forall bytes_ok s -> Forall bytes_ok a -> agree (lib_step c o s a) (spec_step c o s a).
  Proof.
    intros Hin N1 N2 Hs Ha. unfold plain_ops in Hin. cbn [In] in Hin.
    repeat (destruct Hin as [<-|Hin]; [first [congruence | solve_plain s a Hs] |]).
    contradiction.
  Qed.

  (* OP_PICK / OP_ROLL *)
  Lemma pick_roll_conformance c o s a :
    o = 121 \/ o = 122 ->
    Forall bytes_ok s -> Forall bytes_ok a -> agree (lib_step c o s a) (spec_step c o s a).
  Proof.
    intros Ho Hs Ha.
    assert (E : spec_step c o s a =
      match s with
      | vn :: ((_ :: _) as r) =>
          match scriptnum 4 vn with
          | None => SOOS
          | Some n =>
              if (n <? 0) || (n >=? zlen r) then SFail
              else let k := Z.to_nat n in
                   if o =? 122 then SOk (nth k r [] :: firstn k r ++ skipn (S k) r, a)
                   else SOk (nth k r [] :: r, a)
          end
      | _ => SFail
      end) by (destruct Ho as [-> | ->]; reflexivity).
    rewrite E. clear E.
    assert (L : lib_step c o s a =
      match (if o =? 122 then op_roll s else op_pick s) with Ok s' => Ok (s', a) | Err => Err end).
    { destruct Ho as [-> | ->]; unfold lib_step, Interp.exec_op, lib_table, op_code_functions,
        common_functions; lit; unfold bind; [destruct (op_pick s) | destruct (op_roll s)]; reflexivity. }
    rewrite L. clear L.
    destruct s as [|vn r].
    { destruct Ho as [-> | ->]; reflexivity. }
    apply Forall_cons_iff in Hs as [Bn Hs].
    destruct r as [|y r'].
    { (* a single element: consensus fails on the size test, the library after popping the index *)
      cbn [agree]. unfold op_roll, op_pick.
      assert (F : ((decode_num vn <? 0) || (@zlen bytes [] <? decode_num vn + 1)) = true).
      { unfold zlen. cbn [length Z.of_nat]. destruct (decode_num vn <? 0) eqn:E1; cbn; lia. }
      rewrite F. destruct (o =? 122); reflexivity. }
    set (r := y :: r') in *.
    destruct (scriptnum 4 vn) as [n|] eqn:En; [|exact I].
    apply scriptnum_some in En; [|exact Bn]. subst n.
    set (n := decode_num vn).
    unfold op_roll, op_pick. fold n.
    replace ((n <? 0) || (zlen r <? n + 1)) with ((n <? 0) || (n >=? zlen r))
      by (destruct (n <? 0); cbn; [reflexivity|]; destruct (n >=? zlen r) eqn:E1;
          destruct (zlen r <? n + 1) eqn:E2; lia).
    destruct ((n <? 0) || (n >=? zlen r)) eqn:G.
    { cbn [agree]. destruct (o =? 122); reflexivity. }
    apply orb_false_iff in G as [G1 G2].
    assert (Hk : (Z.to_nat n < length r)%nat) by (unfold zlen in G2; lia).
    cbv zeta. rewrite (nth_error_nth r (Z.to_nat n) [] Hk).
    destruct (o =? 122) eqn:Eo; cbn [agree]; [|reflexivity].
    destruct (n =? 0) eqn:E0.
    - assert (n = 0) as -> by lia. reflexivity.
    - rewrite remove_nth_firstn_skipn. reflexivity.
  Qed.

  (* every op code other than OP_2ROT and the time locks: where the spec has an opinion, the
     library step is that opinion *)
  Theorem opcode_conformance c o s a :
    o <> 113 -> o <> 177 -> o <> 178 ->
    Forall bytes_ok s -> Forall bytes_ok a -> agree (lib_step c o s a) (spec_step c o s a).
  Proof.
    intros N1 N2 N3 Hs Ha.
    destruct (Z.eq_dec o 121) as [->|M1]; [apply pick_roll_conformance; auto|].
    destruct (Z.eq_dec o 122) as [->|M2]; [apply pick_roll_conformance; auto|].
    destruct (existsb (Z.eqb o) plain_ops) eqn:Ex.
    - apply existsb_exists in Ex as (k & Hk & Ek). apply Z.eqb_eq in Ek. subst k.
      now apply plain_conformance_nopick.
    - (* not a plain op code: the spec is out of scope *)
      assert (S : spec_step c o s a = SOOS); [|rewrite S; exact I].
      unfold plain_ops in Ex. cbn [existsb] in Ex.
      repeat (apply orb_false_iff in Ex as [?E Ex]).
      unfold spec_step, Consensus.exec_op.
      repeat match goal with
             | H : (o =? ?k) = false |- _ => apply Z.eqb_neq in H
             end.
      repeat match goal with
             | |- context [if ?b then _ else _] =>
                 let E := fresh "E" in destruct b eqn:E; [exfalso; lia|]
             end.
      reflexivity.
  Qed.

  (* ---------------------------------------------------------------- OP_2ROT is refuted *)
  Lemma op_2rot_differs c :
    let s := [[6]; [5]; [4]; [3]; [2]; [1]] in
    lib_step c 113 s [] = Ok ([[2]; [1]; [6]; [5]; [4]; [3]; [2]; [1]], []) /\
    spec_step c 113 s [] = SOk ([[2]; [1]; [6]; [5]; [4]; [3]], []).
  Proof. split; reflexivity. Qed.
End Conf.

(* ------------------------------------------------------------------ time locks *)

Lemma land_pow2 x k : 0 <= k -> Z.land x (2 ^ k) = if Z.testbit x k then 2 ^ k else 0.
Proof.
  intros Hk. apply Z.bits_inj'. intros i Hi.
  rewrite Z.land_spec, Z.pow2_bits_eqb by lia.
  destruct (Z.eqb_spec k i) as [->|Hne].
  - destruct (Z.testbit x i) eqn:E; cbn.
    + now rewrite Z.pow2_bits_true.
    + now rewrite Z.bits_0.
  - rewrite andb_false_r. destruct (Z.testbit x k).
    + rewrite Z.pow2_bits_false; [reflexivity | lia].
    + now rewrite Z.bits_0.
Qed.

Lemma mask_split x :
  Z.land x (Z.lor 4194304 65535) = Z.land x 4194304 + Z.land x 65535 /\
  (Z.land x 4194304 = 0 \/ Z.land x 4194304 = 4194304) /\ 0 <= Z.land x 65535 < 65536.
Proof.
  assert (HT : Z.land x 4194304 = 0 \/ Z.land x 4194304 = 4194304).
  { change 4194304 with (2 ^ 22). rewrite land_pow2 by lia. destruct (Z.testbit x 22); auto. }
  assert (HM : 0 <= Z.land x 65535 < 65536).
  { change 65535 with (Z.ones 16). rewrite Z.land_ones by lia. apply Z.mod_pos_bound. lia. }
  split; [|split; assumption].
  rewrite Z.land_lor_distr_r.
  assert (D : Z.land (Z.land x 4194304) (Z.land x 65535) = 0).
  { destruct HT as [-> | ->]; [apply Z.land_0_l|].
    rewrite (Z.land_comm x 65535), Z.land_assoc.
    change (Z.land 4194304 65535) with 0. apply Z.land_0_l. }
  rewrite <- Z.lxor_lor by exact D. symmetry. now apply Z.add_nocarry_lxor.
Qed.

Section Locks.
  Variables ripemd160 sha1 sha256 : bytes -> bytes.

  Ltac lit :=
    cbn [Z.eqb Z.leb Z.ltb Z.compare Pos.eqb Pos.compare Pos.compare_cont andb orb negb].
  Ltac zb :=
    repeat match goal with
           | |- context [?a <? ?b] => destruct (a <? b) eqn:?
           | |- context [?a <=? ?b] => destruct (a <=? b) eqn:?
           | |- context [?a >? ?b] => destruct (a >? b) eqn:?
           | |- context [?a >=? ?b] => destruct (a >=? b) eqn:?
           | |- context [?a =? ?b] => destruct (a =? b) eqn:?
           end; cbn [negb andb orb]; try reflexivity; try lia.

  Lemma scriptnum_cases k e : bytes_ok e ->
    scriptnum k e = if (k <? length e)%nat then None else Some (decode_num e).
  Proof.
    intros B. unfold scriptnum. destruct (k <? length e)%nat; [reflexivity|].
    now rewrite sn_value_decode.
  Qed.

  Theorem cltv_conformance c s a :
    Forall bytes_ok s ->
    agree (lib_step ripemd160 sha1 sha256 c 177 s a) (spec_step ripemd160 sha1 sha256 c 177 s a).
  Proof.
    intros Hs.
    unfold lib_step, spec_step, Interp.exec_op, lib_table, op_code_functions, common_functions,
      Consensus.exec_op; lit.
    unfold op_checklocktimeverify, bind.
    destruct s as [|e r].
    { cbn [agree]. destruct (t_sequence c =? MAX_SEQUENCE); reflexivity. }
    apply Forall_cons_iff in Hs as [B _].
    rewrite (scriptnum_cases 5 e B).
    destruct (5 <? length e)%nat.
    { cbn [agree]. destruct (t_sequence c =? MAX_SEQUENCE); reflexivity. }
    set (n := decode_num e).
    unfold check_locktime, lt_comparable, to_ctx, MAX_SEQUENCE, MAX_LOCKTIME, BLOCK_LIMIT,
      LOCKTIME_THRESHOLD, SEQUENCE_FINAL, operand_max. cbn [c_locktime c_sequence c_version].
    destruct (t_sequence c =? 4294967295) eqn:E1;
      destruct (n <? 0) eqn:E2; cbn [agree]; try reflexivity;
      destruct (n >? 4294967295) eqn:E3; cbn [agree]; try exact I; zb.
  Qed.

  Theorem csv_conformance c s a :
    Forall bytes_ok s ->
    agree (lib_step ripemd160 sha1 sha256 c 178 s a) (spec_step ripemd160 sha1 sha256 c 178 s a).
  Proof.
    intros Hs.
    unfold lib_step, spec_step, Interp.exec_op, lib_table, op_code_functions, common_functions,
      Consensus.exec_op; lit.
    unfold op_checksequenceverify, bind.
    destruct s as [|e r]; [reflexivity|].
    apply Forall_cons_iff in Hs as [B _].
    rewrite (scriptnum_cases 5 e B).
    destruct (5 <? length e)%nat; [reflexivity|].
    set (n := decode_num e).
    unfold check_sequence, sq_comparable, sq_relative_block, sq_relative_time, sq_relative, to_ctx,
      MAX_SEQUENCE, SEQ_DISABLE, SEQ_TIME, SEQ_MASK, SEQUENCE_LOCKTIME_DISABLE_FLAG,
      SEQUENCE_LOCKTIME_TYPE_FLAG, SEQUENCE_LOCKTIME_MASK, operand_max.
    cbn [c_locktime c_sequence c_version].
    set (q := t_sequence c).
    destruct (mask_split q) as (Sq & Tq & Mq). destruct (mask_split n) as (Sn & Tn & Mn).
    rewrite Sq, Sn.
    destruct (n <? 0) eqn:E2; cbn [agree]; [reflexivity|].
    destruct (n >? 4294967295) eqn:E3; cbn [agree]; [exact I|].
    destruct (Z.land n 2147483648 =? 0) eqn:E4; cbn [negb agree]; [|reflexivity].
    destruct (Z.land q 2147483648 =? 0) eqn:E5; cbn [negb andb];
      [| destruct (t_version c <? 2); reflexivity].
    destruct (t_version c <? 2) eqn:E6; [reflexivity|].
    destruct Tq as [Tq|Tq]; destruct Tn as [Tn|Tn]; rewrite Tq, Tn; lit; zb.
  Qed.

  (* outside the property's operand range: CSV masks the operand, the library raises *)
  Lemma csv_large_operand_differs :
    let c := {| t_locktime := 0; t_sequence := 10; t_version := 2 |} in
    let s := [[5; 0; 0; 0; 1]] in                       (* 2^32 + 5 *)
    lib_step ripemd160 sha1 sha256 c 178 s [] = Err /\
    check_sequence (to_ctx c) (decode_num [5; 0; 0; 0; 1]) = true.
  Proof. split; reflexivity. Qed.
End Locks.

Lemma locks_in_scope (ripemd160 sha1 sha256 : bytes -> bytes) c e s a o :
  o = 177 \/ o = 178 -> bytes_ok e -> -1 <= decode_num e <= 4294967295 ->
  spec_step ripemd160 sha1 sha256 c o (e :: s) a <> SOOS.
Proof.
  intros Ho B R. unfold spec_step, Consensus.exec_op.
  destruct Ho as [-> | ->];
    cbn [Z.eqb Z.leb Z.ltb Z.compare Pos.eqb Pos.compare Pos.compare_cont andb orb negb];
    unfold scriptnum; destruct (5 <? length e)%nat; try discriminate;
    rewrite (sn_value_decode e B); unfold operand_max;
    destruct (decode_num e <? 0) eqn:E1; try discriminate;
    destruct (decode_num e >? 4294967295) eqn:E2; try lia.
  - destruct (check_locktime (to_ctx c) (decode_num e)); discriminate.
  - destruct (negb (Z.land (decode_num e) SEQUENCE_LOCKTIME_DISABLE_FLAG =? 0)); [discriminate|].
    destruct (check_sequence (to_ctx c) (decode_num e)); discriminate.
Qed.
