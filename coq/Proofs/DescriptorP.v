(* Proofs/DescriptorP.v — structure of P2WSHSortedMulti (Model/Descriptor.v):
   sorting, independence of the order of the supplied key records, text round trip at the
   level of the fields the regular expressions cut out, shape of the witness script,
   receive/change branches. *)
From Coq Require Import String Permutation Sorted.
From V Require Import Base.Prelude Base.Disp Generated.DescConsts Model.Descriptor
  Proofs.DescChecksumP Proofs.DescDetectP.
Open Scope Z_scope.

Lemma app_eq_len {A} (a : list A) : forall a' b b',
  length a = length a' -> a ++ b = a' ++ b' -> a = a' /\ b = b'.
Proof.
  induction a as [|x a IH]; intros [|x' a'] b b' HL H; try discriminate; [auto|].
  cbn [app] in H. injection H as -> H. cbn [length] in HL.
  destruct (IH a' b b' ltac:(congruence) H) as [-> ->]. auto.
Qed.

(* ------------------------------------------------------------------ lexicographic order *)

Lemma lex_leb_refl a : lex_leb a a = true.
Proof. induction a as [|x a IH]; cbn; [reflexivity|]. now rewrite Z.ltb_irrefl. Qed.

Lemma lex_leb_total a : forall b, lex_leb a b = true \/ lex_leb b a = true.
Proof.
  induction a as [|x a IH]; intros [|y b]; cbn; auto.
  destruct (Z.ltb_spec x y), (Z.ltb_spec y x); auto; try lia.
Qed.

Lemma lex_leb_antisym a : forall b, lex_leb a b = true -> lex_leb b a = true -> a = b.
Proof.
  induction a as [|x a IH]; intros [|y b]; cbn; try discriminate; auto.
  destruct (Z.ltb_spec x y), (Z.ltb_spec y x); try discriminate; try lia.
  intros H1 H2. assert (x = y) by lia. subst. f_equal. now apply IH.
Qed.

Lemma lex_leb_trans a : forall b c, lex_leb a b = true -> lex_leb b c = true -> lex_leb a c = true.
Proof.
  induction a as [|x a IH]; intros [|y b] [|z c]; cbn; try discriminate; auto.
  destruct (Z.ltb_spec x y), (Z.ltb_spec y x), (Z.ltb_spec y z), (Z.ltb_spec z y),
    (Z.ltb_spec x z), (Z.ltb_spec z x); try discriminate; try lia; auto.
  apply IH.
Qed.

(* ------------------------------------------------------------------ sort_by *)

Section SortP.
Context {A : Type}.
Variable key : A -> list Z.
Definition kle (a b : A) : Prop := lex_leb (key a) (key b) = true.
Definition sorted_by (l : list A) : Prop := StronglySorted kle l.

Lemma insert_perm x l : Permutation (x :: l) (insert_by key x l).
Proof.
  induction l as [|y l IH]; cbn [insert_by]; [reflexivity|].
  destruct (lex_leb (key x) (key y)); [reflexivity|].
  rewrite perm_swap. now apply perm_skip.
Qed.

Lemma sort_perm l : Permutation l (sort_by key l).
Proof.
  induction l as [|x l IH]; cbn [sort_by]; [reflexivity|].
  rewrite <- insert_perm. now apply perm_skip.
Qed.

Lemma insert_sorted x l : sorted_by l -> sorted_by (insert_by key x l).
Proof.
  unfold sorted_by. induction l as [|y l IH]; intros HS; cbn [insert_by].
  - constructor; constructor.
  - inversion HS as [|? ? HS' HF]; subst.
    destruct (lex_leb (key x) (key y)) eqn:E.
    + constructor; [exact HS|]. constructor; [exact E|].
      rewrite Forall_forall in *. intros z Hz. unfold kle in *.
      apply (lex_leb_trans _ (key y)); [exact E|apply HF; exact Hz].
    + constructor; [apply IH; exact HS'|].
      assert (Eyx : kle y x).
      { unfold kle. destruct (lex_leb_total (key x) (key y)); congruence. }
      rewrite Forall_forall in *. intros z Hz.
      apply (Permutation_in _ (Permutation_sym (insert_perm x l))) in Hz.
      destruct Hz as [<-|Hz]; [exact Eyx|apply HF; exact Hz].
Qed.

Lemma sort_sorted l : sorted_by (sort_by key l).
Proof.
  induction l as [|x l IH]; cbn [sort_by]; [constructor|]. now apply insert_sorted.
Qed.

(* two sorted lists with the same elements are equal when elements with equal keys are equal *)
Lemma sorted_perm_unique l : forall l',
  sorted_by l -> sorted_by l' -> Permutation l l' ->
  (forall a b, In a l -> In b l -> key a = key b -> a = b) -> l = l'.
Proof.
  unfold sorted_by. induction l as [|a l IH]; intros l' HS HS' HP HK.
  - apply Permutation_nil in HP. now subst.
  - destruct l' as [|a' l']; [apply Permutation_sym, Permutation_nil in HP; discriminate|].
    inversion HS as [|? ? HS1 HF]; subst. inversion HS' as [|? ? HS1' HF']; subst.
    rewrite Forall_forall in HF, HF'.
    assert (Ia' : In a' (a :: l)) by (apply (Permutation_in _ (Permutation_sym HP)); now left).
    assert (Ia : In a (a' :: l')) by (apply (Permutation_in _ HP); now left).
    assert (L1 : kle a a').
    { destruct Ia' as [<-|I]; [apply lex_leb_refl|now apply HF]. }
    assert (L2 : kle a' a).
    { destruct Ia as [<-|I]; [apply lex_leb_refl|now apply HF']. }
    assert (E : a = a').
    { apply HK; [now left|exact Ia'|]. now apply lex_leb_antisym. }
    subst a'. f_equal. apply IH; auto.
    + now apply Permutation_cons_inv in HP.
    + intros x y Hx Hy. apply HK; now right.
Qed.

Lemma sort_by_perm_eq l l' :
  Permutation l l' ->
  (forall a b, In a l -> In b l -> key a = key b -> a = b) ->
  sort_by key l = sort_by key l'.
Proof.
  intros HP HK. apply sorted_perm_unique; try apply sort_sorted.
  - rewrite <- (sort_perm l), <- (sort_perm l'). exact HP.
  - intros a b Ha Hb. apply HK; apply (Permutation_in _ (Permutation_sym (sort_perm l))); assumption.
Qed.

Lemma sort_by_length l : length (sort_by key l) = length l.
Proof. symmetry. apply Permutation_length, sort_perm. Qed.

Lemma sort_by_sorted_id l : sorted_by l -> sort_by key l = l.
Proof.
  unfold sorted_by. induction l as [|a l IH]; intros HS; [reflexivity|].
  inversion HS as [|? ? HS1 HF]; subst. cbn [sort_by]. rewrite IH by exact HS1.
  destruct l as [|b l]; [reflexivity|]. cbn [insert_by].
  inversion HF as [|? ? Hab _]; subst. unfold kle in Hab. now rewrite Hab.
Qed.
End SortP.

(* the child keys: no uniqueness hypothesis is needed, the key is the element itself *)
Lemma sort_keys_perm_eq (l l' : list (list Z)) :
  Permutation l l' -> sort_by (fun k => k) l = sort_by (fun k => k) l'.
Proof. intros HP. apply sort_by_perm_eq; [exact HP|]. intros a b _ _ E. exact E. Qed.

(* ------------------------------------------------------------------ the constructor *)

Section DescP.
Variable path_ok : list Z -> bool.
Variable hdparse : list Z -> result (list Z * Z).
Variable child_ok : list Z -> Z -> bool.

(* the record the loop saves: fingerprint in lower case, path "m" + path.strip()[1:], the
   re-encoded xpub *)
Definition mk_norm (kr : keyrec) (xp : list Z) : keyrec :=
  {| kr_xfp := lower (kr_xfp kr); kr_path := 109 :: tl (strip (kr_path kr)); kr_xpub := xp;
     kr_idx := kr_idx kr |}.

(* what the validation loop does with one record *)
Definition norm1 (kr : keyrec) : result (keyrec * Z) :=
  if negb (path_ok (kr_path kr)) then Err else
  if negb (xfp_ok (kr_xfp kr)) then Err else
  if negb (idx_ok (kr_idx kr)) then Err else
  '(xp, n) <- hdparse (kr_xpub kr) ;;
  Ok (mk_norm kr xp, n).

Definition normed (kr : keyrec) : keyrec :=
  match norm1 kr with Ok (r, _) => r | Err => kr end.

Definition rec_ok (n : Z) (kr : keyrec) : Prop := exists r, norm1 kr = Ok (r, n).

Lemma check_recs_some n l :
  (Forall (rec_ok n) l -> check_recs path_ok hdparse (Some n) l = Ok (map normed l, Some n)) /\
  (forall rs nf, check_recs path_ok hdparse (Some n) l = Ok (rs, nf) ->
     Forall (rec_ok n) l /\ rs = map normed l /\ nf = Some n).
Proof.
  induction l as [|kr l [IH1 IH2]]; cbn [check_recs map].
  - split; [reflexivity|]. intros rs nf H. apply Ok_inj in H. injection H as <- <-. auto.
  - split.
    + intros HF. inversion HF as [|? ? [r Hr] HF']; subst. specialize (IH1 HF').
      unfold normed. unfold norm1 in *.
      destruct (negb (path_ok (kr_path kr))); [discriminate|].
      destruct (negb (xfp_ok (kr_xfp kr))); [discriminate|].
      destruct (negb (idx_ok (kr_idx kr))); [discriminate|].
      destruct (hdparse (kr_xpub kr)) as [[xp n']|]; [|discriminate]. cbn [bind] in *.
      apply Ok_inj in Hr. injection Hr as E1 E2. subst n'. rewrite Z.eqb_refl. cbn [negb].
      rewrite IH1. reflexivity.
    + intros rs nf H.
      destruct (negb (path_ok (kr_path kr))) eqn:E1; [discriminate|].
      destruct (negb (xfp_ok (kr_xfp kr))) eqn:E2; [discriminate|].
      destruct (negb (idx_ok (kr_idx kr))) eqn:E4; [discriminate|].
      destruct (hdparse (kr_xpub kr)) as [[xp n']|] eqn:E3; [|discriminate]. cbn [bind] in *.
      destruct (Z.eqb_spec n n') as [EQ|N]; [|discriminate]. subst n'. cbn [negb] in H.
      destruct (check_recs path_ok hdparse (Some n) l) as [[rs' nf']|] eqn:E; [|discriminate].
      cbn [bind] in H. apply Ok_inj in H. injection H as <- <-.
      destruct (IH2 rs' nf' eq_refl) as [F [-> ->]].
      assert (N1 : norm1 kr = Ok (mk_norm kr xp, n)).
      { unfold norm1. rewrite E1, E2, E4, E3. reflexivity. }
      assert (NK : normed kr = mk_norm kr xp) by (unfold normed; rewrite N1; reflexivity).
      split; [constructor; [eexists; exact N1|exact F]|]. rewrite NK. auto.
Qed.

Lemma check_recs_none l rs nf :
  l <> [] ->
  (check_recs path_ok hdparse None l = Ok (rs, nf) <->
   exists n, Forall (rec_ok n) l /\ rs = map normed l /\ nf = Some n).
Proof.
  destruct l as [|kr l]; [congruence|]. intros _. cbn [check_recs]. split.
  - intros H.
    destruct (negb (path_ok (kr_path kr))) eqn:E1; [discriminate|].
    destruct (negb (xfp_ok (kr_xfp kr))) eqn:E2; [discriminate|].
    destruct (negb (idx_ok (kr_idx kr))) eqn:E4; [discriminate|].
    destruct (hdparse (kr_xpub kr)) as [[xp n]|] eqn:E3; [|discriminate]. cbn [bind negb] in *.
    destruct (check_recs path_ok hdparse (Some n) l) as [[rs' nf']|] eqn:E; [|discriminate].
    cbn [bind] in H. apply Ok_inj in H. injection H as <- <-.
    destruct (proj2 (check_recs_some n l) rs' nf' E) as [F [-> ->]].
    assert (N1 : norm1 kr = Ok (mk_norm kr xp, n)).
    { unfold norm1. rewrite E1, E2, E4, E3. reflexivity. }
    assert (NK : normed kr = mk_norm kr xp) by (unfold normed; rewrite N1; reflexivity).
    exists n. split; [constructor; [eexists; exact N1|exact F]|]. cbn [map]. rewrite NK. auto.
  - intros [n [HF [-> ->]]]. inversion HF as [|? ? [r Hr] HF']; subst.
    cbn [map]. unfold normed at 1. unfold norm1 in *.
    destruct (negb (path_ok (kr_path kr))); [discriminate|].
    destruct (negb (xfp_ok (kr_xfp kr))); [discriminate|].
    destruct (negb (idx_ok (kr_idx kr))); [discriminate|].
    destruct (hdparse (kr_xpub kr)) as [[xp n']|]; [|discriminate]. cbn [bind negb] in *.
    apply Ok_inj in Hr. injection Hr as E1 E2. subst n'.
    rewrite (proj1 (check_recs_some n l) HF'). reflexivity.
Qed.

(* (4) the descriptor does not depend on the order in which the key records are supplied,
   provided records with the same (re-encoded) xpub are the same record *)
Theorem construct_order_independent m recs recs' cs :
  Permutation recs recs' ->
  (forall a b, In a recs -> In b recs -> kr_xpub (normed a) = kr_xpub (normed b) -> normed a = normed b) ->
  construct path_ok hdparse m recs cs true = construct path_ok hdparse m recs' cs true.
Proof.
  intros HP HK. unfold construct. destruct (m <? 1); [reflexivity|].
  destruct recs as [|r0 recs0].
  { apply Permutation_nil in HP. now subst. }
  destruct recs' as [|r0' recs0'].
  { apply Permutation_sym, Permutation_nil in HP. discriminate. }
  set (l := r0 :: recs0) in *. set (l' := r0' :: recs0') in *.
  assert (NE : l <> []) by discriminate. assert (NE' : l' <> []) by discriminate.
  assert (LL : zlen l = zlen l') by (unfold zlen; now rewrite (Permutation_length HP)).
  rewrite <- LL. destruct (m >? zlen l); [reflexivity|].
  destruct (check_recs path_ok hdparse None l) as [[rs nf]|] eqn:E.
  - apply (check_recs_none l rs nf NE) in E. destruct E as [n [HF [-> ->]]].
    assert (E' : check_recs path_ok hdparse None l' = Ok (map normed l', Some n)).
    { apply (check_recs_none l' _ _ NE'). exists n. split; [|auto].
      apply (Permutation_Forall HP). exact HF. }
    rewrite E'. cbn [bind].
    assert (S : sort_by kr_xpub (map normed l) = sort_by kr_xpub (map normed l')).
    { apply sort_by_perm_eq; [now apply Permutation_map|].
      intros a b Ha Hb. apply in_map_iff in Ha as [a0 [<- Ha]]. apply in_map_iff in Hb as [b0 [<- Hb]].
      now apply HK. }
    rewrite S. reflexivity.
  - destruct (check_recs path_ok hdparse None l') as [[rs' nf']|] eqn:E'; [|reflexivity].
    apply (check_recs_none l' rs' nf' NE') in E'. destruct E' as [n [HF [-> ->]]].
    assert (X : check_recs path_ok hdparse None l = Ok (map normed l, Some n)).
    { apply (check_recs_none l _ _ NE). exists n. split; [|auto].
      apply (Permutation_Forall (Permutation_sym HP)). exact HF. }
    congruence.
Qed.

(* what a successful construction looks like *)
Lemma construct_ok m recs cs srt d :
  construct path_ok hdparse m recs cs srt = Ok d ->
  1 <= m /\ recs <> [] /\
  exists n, Forall (rec_ok n) recs /\
    d_recs d = (if srt then sort_by kr_xpub (map normed recs) else map normed recs) /\
    d_m d = m /\ d_net d = n /\ d_text d = render_text m (d_recs d) /\
    desc_checksum (d_text d) = Ok (d_checksum d) /\ (cs = [] \/ cs = d_checksum d) /\
    m <= zlen recs.
Proof.
  unfold construct. destruct (Z.ltb_spec m 1) as [M0|M0]; [discriminate|].
  destruct recs as [|r0 recs0]; [discriminate|]. set (l := r0 :: recs0) in *.
  assert (NE : l <> []) by discriminate.
  destruct (Z.gtb_spec m (zlen l)) as [MN|MN]; [discriminate|].
  destruct (check_recs path_ok hdparse None l) as [[rs nf]|] eqn:E; [|discriminate].
  apply (check_recs_none l rs nf NE) in E. destruct E as [n [HF [-> ->]]]. cbn [bind].
  set (rs := if srt then sort_by kr_xpub (map normed l) else map normed l).
  destruct (desc_checksum (render_text m rs)) as [c|] eqn:EC; [|discriminate]. cbn [bind].
  intros H. split; [lia|]. split; [exact NE|]. exists n. split; [exact HF|].
  destruct cs as [|c0 cs0].
  - apply Ok_inj in H. subst d. cbn. repeat split; auto.
  - destruct (beq c (c0 :: cs0)) eqn:EB; [|discriminate]. apply beq_eq in EB.
    apply Ok_inj in H. subst d. cbn. repeat split; auto.
Qed.

(* the constructor rejects a checksum that differs from the computed one *)
Theorem construct_rejects_wrong_checksum m recs srt d cs :
  construct path_ok hdparse m recs [] srt = Ok d ->
  cs <> [] -> cs <> d_checksum d ->
  construct path_ok hdparse m recs cs srt = Err.
Proof.
  intros H Hne Hcs.
  destruct (construct path_ok hdparse m recs cs srt) as [d'|] eqn:E; [|reflexivity]. exfalso.
  destruct (construct_ok _ _ _ _ _ H) as [_ [_ [n [_ [R [M [_ [T [C _]]]]]]]]].
  destruct (construct_ok _ _ _ _ _ E) as [_ [_ [n' [_ [R' [M' [_ [T' [C' [[X|X] _]]]]]]]]]]; [contradiction|].
  apply Hcs. rewrite X.
  assert (TT : d_text d' = d_text d) by (rewrite T, T', R, R'; reflexivity).
  rewrite TT in C'. congruence.
Qed.

(* ------------------------------------------------------------------ (3) round trip over the regex fields *)

Definition lower_xfp (kr : keyrec) : Prop := xfp_re_ok (kr_xfp kr) = true.
Definition path_m (kr : keyrec) : Prop := exists t, kr_path kr = 109 :: t.

Lemma xfp_re_ok_xfp_ok s : xfp_re_ok s = true -> xfp_ok s = true.
Proof.
  unfold xfp_re_ok, xfp_ok. intros H. apply andb_true_iff in H as [H1 H2]. rewrite H1. cbn [andb].
  apply orb_true_iff. left. rewrite forallb_forall in *. intros c Hc. unfold hex_any_char.
  now rewrite (H2 c Hc).
Qed.

(* ---- str.strip ---- *)
Lemma lstrip_split l : exists w, l = w ++ lstrip l.
Proof.
  induction l as [|c l [w IH]]; [now exists []|]. cbn [lstrip].
  destruct (is_ws c); [exists (c :: w); cbn [app]; now rewrite <- IH|now exists []].
Qed.

Lemma lstrip_hd l : lstrip l = [] \/ is_ws (hd 0 (lstrip l)) = false.
Proof.
  induction l as [|c l IH]; [now left|]. cbn [lstrip]. destruct (is_ws c) eqn:E; [exact IH|now right].
Qed.

Lemma lstrip_nows c s : is_ws c = false -> lstrip (c :: s) = c :: s.
Proof. intros H. cbn [lstrip]. now rewrite H. Qed.

Lemma rev_nil_inv {A} (l : list A) : rev l = [] -> l = [].
Proof. intros H. apply (f_equal (@length A)) in H. rewrite rev_length in H. now destruct l. Qed.

Lemma strip_fix s : s <> [] ->
  is_ws (hd 0 s) = false -> is_ws (hd 0 (rev s)) = false -> strip s = s.
Proof.
  intros NE H1 H2. unfold strip. destruct s as [|c s]; [congruence|].
  cbn [hd] in H1. rewrite (lstrip_nows c s H1).
  destruct (rev (c :: s)) as [|e t] eqn:E; [now apply rev_nil_inv in E|].
  cbn [hd] in H2. rewrite (lstrip_nows e t H2), <- E. apply rev_involutive.
Qed.

Lemma hd_app_ne (a b : list Z) : a <> [] -> hd 0 (a ++ b) = hd 0 a.
Proof. destruct a; [congruence|reflexivity]. Qed.

Lemma strip_ends p :
  strip p = [] \/ (is_ws (hd 0 (strip p)) = false /\ is_ws (hd 0 (rev (strip p))) = false).
Proof.
  unfold strip. set (a := lstrip p). set (b := lstrip (rev a)).
  destruct b as [|e t] eqn:EB; [now left|]. right. rewrite rev_involutive.
  split.
  - destruct (lstrip_split (rev a)) as [w Hw]. fold b in Hw. rewrite EB in Hw.
    apply (f_equal (@rev Z)) in Hw. rewrite rev_involutive, rev_app_distr in Hw.
    assert (NE : rev (e :: t) <> []) by (intros X; now apply rev_nil_inv in X).
    destruct (lstrip_hd p) as [X|X]; fold a in X.
    + rewrite X in Hw. symmetry in Hw. apply app_eq_nil in Hw as [Hw _]. contradiction.
    + rewrite Hw, (hd_app_ne _ _ NE) in X. exact X.
  - destruct (lstrip_hd (rev a)) as [X|X]; fold b in X; rewrite EB in X; [discriminate|exact X].
Qed.

(* "m" + path.strip()[1:] is a fixed point of the same rewriting *)
Lemma norm_path_fix p : strip (109 :: tl (strip p)) = 109 :: tl (strip p).
Proof.
  destruct (strip_ends p) as [E|[_ H2]]; [rewrite E; reflexivity|].
  destruct (strip p) as [|c t]; [reflexivity|]. cbn [tl].
  destruct t as [|c2 t]; [reflexivity|].
  apply strip_fix; [discriminate|reflexivity|].
  cbn [rev] in *. set (r := rev t ++ [c2]) in *.
  assert (NE : r <> []) by (unfold r; intros X; apply app_eq_nil in X as [_ X]; discriminate).
  rewrite (hd_app_ne r [c] NE) in H2. now rewrite (hd_app_ne r [109] NE).
Qed.

(* ---- str.lower ---- *)
Lemma lower_c_idem c : lower_c (lower_c c) = lower_c c.
Proof.
  unfold lower_c. destruct (Z.leb_spec 65 c), (Z.leb_spec c 90); cbn [andb];
    repeat match goal with |- context [Z.leb ?a ?b] => destruct (Z.leb_spec a b) end;
    cbn [andb]; try reflexivity; lia.
Qed.

Lemma lower_idem s : lower (lower s) = lower s.
Proof. unfold lower. rewrite map_map. apply map_ext. apply lower_c_idem. Qed.

Lemma hex_lower_of_any c : hex_any_char c = true -> hex_lower_char (lower_c c) = true.
Proof.
  unfold hex_any_char, hex_lower_char, lower_c. intros H.
  destruct (Z.leb_spec 48 c), (Z.leb_spec c 57), (Z.leb_spec 97 c), (Z.leb_spec c 102),
    (Z.leb_spec 65 c), (Z.leb_spec c 70), (Z.leb_spec c 90); cbn in H; try discriminate;
    cbn [andb];
    repeat match goal with |- context [Z.leb ?a ?b] => destruct (Z.leb_spec a b) end;
    cbn; try reflexivity; lia.
Qed.

(* a valid fingerprint without a line feed is, in lower case, what the key-record regex reads *)
Lemma xfp_lower s : xfp_ok s = true -> ~ In 10 (lower s) -> xfp_re_ok (lower s) = true.
Proof.
  unfold xfp_ok, xfp_re_ok. intros H NL. apply andb_true_iff in H as [H1 H2].
  unfold lower at 1. rewrite map_length, H1. cbn [andb].
  apply orb_true_iff in H2 as [H2|H2].
  - apply forallb_forall. intros c Hc. apply in_map_iff in Hc as [c0 [<- Hc]].
    rewrite forallb_forall in H2. apply hex_lower_of_any, H2, Hc.
  - exfalso. apply NL. destruct (rev s) as [|e r] eqn:E; [discriminate|].
    destruct (Z.eqb_spec e 10) as [->|N].
    + assert (I : In 10 s) by (apply in_rev; rewrite E; now left).
      change 10 with (lower_c 10). now apply in_map.
    + destruct e as [|q|q]; try discriminate.
      do 4 (destruct q as [q|q|]; try discriminate). congruence.
Qed.

(* ---- the characters of a text whose checksum could be computed ---- *)
Lemma checksum_ok_chars t cs c : desc_checksum t = Ok cs -> In c t -> in_core_charset c = true.
Proof.
  intros H I. destruct (desc_checksum_eq_core_full t) as [E _]. rewrite H in E.
  destruct (forallb in_core_charset t) eqn:F; [|discriminate].
  rewrite forallb_forall in F. now apply F.
Qed.

Lemma in_render_rec_xfp kr c : In c (kr_xfp kr) -> In c (render_rec kr).
Proof. intros H. unfold render_rec. apply in_or_app. right. apply in_or_app. now left. Qed.

Lemma in_render_text m recs kr c : In kr recs -> In c (render_rec kr) -> In c (render_text m recs).
Proof.
  intros Hk Hc. unfold render_text. apply in_or_app. right. apply in_or_app. right.
  apply in_or_app. left. apply in_concat. exists (render_rec kr). split; [now apply in_map|exact Hc].
Qed.

(* hypotheses about the HD layer under which the text round trip holds:
   re-encoding is idempotent (the xpub printed in the descriptor parses to itself and to the
   same network); the path check is stable under the constructor's rewriting of the path
   (is_valid_bip32_path lower-cases and strips before it looks at the text). *)
Definition hd_idempotent : Prop :=
  forall x xp n, hdparse x = Ok (xp, n) -> hdparse xp = Ok (xp, n).
Definition path_norm_ok : Prop :=
  forall p, path_ok p = true -> path_ok (109 :: tl (strip p)) = true.

(* every saved record of a constructed descriptor *)
Lemma constructed_recs m recs cs srt d :
  construct path_ok hdparse m recs cs srt = Ok d ->
  forall kr, In kr (d_recs d) ->
    exists kr0 xp, In kr0 recs /\ kr = mk_norm kr0 xp /\
      path_ok (kr_path kr0) = true /\ xfp_ok (kr_xfp kr0) = true /\ idx_ok (kr_idx kr0) = true /\
      hdparse (kr_xpub kr0) = Ok (xp, d_net d) /\ xfp_re_ok (kr_xfp kr) = true.
Proof.
  intros H kr Hk.
  destruct (construct_ok _ _ _ _ _ H) as [M1 [NE [n [HF [R [M [N [T [C _]]]]]]]]].
  assert (Hk0 : In kr (map normed recs)).
  { rewrite R in Hk. destruct srt; [|exact Hk].
    exact (Permutation_in _ (Permutation_sym (sort_perm kr_xpub (map normed recs))) Hk). }
  apply in_map_iff in Hk0 as [kr0 [E I0]]. rewrite Forall_forall in HF.
  destruct (HF kr0 I0) as [r Hr]. unfold normed in E. rewrite Hr in E. subst r.
  unfold norm1 in Hr.
  destruct (path_ok (kr_path kr0)) eqn:E1; [|discriminate]. cbn [negb] in Hr.
  destruct (xfp_ok (kr_xfp kr0)) eqn:E2; [|discriminate]. cbn [negb] in Hr.
  destruct (idx_ok (kr_idx kr0)) eqn:E4; [|discriminate]. cbn [negb] in Hr.
  destruct (hdparse (kr_xpub kr0)) as [[xp n']|] eqn:E3; [|discriminate]. cbn [bind] in Hr.
  apply Ok_inj in Hr. injection Hr as Hr1 Hr2. subst n'.
  exists kr0, xp. rewrite N. repeat split; auto.
  rewrite <- Hr1. cbn [mk_norm kr_xfp]. apply xfp_lower; [exact E2|].
  intros I10. assert (X : in_core_charset 10 = true).
  { apply (checksum_ok_chars (d_text d) (d_checksum d) 10 C). rewrite T.
    apply (in_render_text _ _ kr 10 Hk). apply in_render_rec_xfp. rewrite <- Hr1. exact I10. }
  vm_compute in X. discriminate.
Qed.

Lemma construct_recs_length m recs cs srt d :
  construct path_ok hdparse m recs cs srt = Ok d -> zlen (d_recs d) = zlen recs.
Proof.
  intros H. destruct (construct_ok _ _ _ _ _ H) as [_ [_ [n [_ [R _]]]]].
  unfold zlen. rewrite R. destruct srt; [rewrite sort_by_length|]; now rewrite map_length.
Qed.

(* whatever the constructor accepts, the fields of its text are read back to the same
   descriptor (m, records, text, checksum, network), with and without the checksum; no
   condition on the spelling of the supplied records is left *)
Theorem descriptor_text_roundtrip m recs cs srt d :
  hd_idempotent -> path_norm_ok ->
  construct path_ok hdparse m recs cs srt = Ok d ->
  Forall (fun kr => child_ok (kr_xpub kr) (kr_idx kr) = true) (d_recs d) ->
  parse_struct path_ok hdparse child_ok (d_m d) (fields_of d) (d_checksum d) = Ok d /\
  parse_struct path_ok hdparse child_ok (d_m d) (fields_of d) [] = Ok d.
Proof.
  intros HI HPN H HC.
  destruct (construct_ok _ _ _ _ _ H) as [M1 [NE [n [HF [R [M [N [T [C [_ MN]]]]]]]]]].
  pose proof (constructed_recs _ _ _ _ _ H) as RD.
  assert (FACT : forall kr, In kr (d_recs d) ->
            xfp_re_ok (kr_xfp kr) = true /\ kr_path kr = 109 :: tl (kr_path kr) /\
            path_ok (kr_path kr) = true /\ hdparse (kr_xpub kr) = Ok (kr_xpub kr, n) /\
            idx_ok (kr_idx kr) = true /\ strip (kr_path kr) = kr_path kr /\
            lower (kr_xfp kr) = kr_xfp kr).
  { intros kr Hk. destruct (RD kr Hk) as [kr0 [xp [I0 [-> [P0 [X0 [J0 [H0 XR]]]]]]]].
    cbn [mk_norm kr_xfp kr_path kr_xpub kr_idx tl] in *. rewrite N in H0.
    split; [exact XR|]. split; [reflexivity|]. split; [now apply HPN|].
    split; [exact (HI _ _ _ H0)|]. split; [exact J0|].
    split; [apply norm_path_fix|apply lower_idem]. }
  (* parse_recs gives the records back *)
  assert (PR : parse_recs path_ok hdparse child_ok (fields_of d) = Ok (d_recs d)).
  { unfold fields_of. rewrite Forall_forall in HC.
    assert (G : forall l, (forall kr, In kr l -> In kr (d_recs d)) ->
              parse_recs path_ok hdparse child_ok
                (map (fun kr => {| kr_xfp := kr_xfp kr; kr_path := tl (kr_path kr);
                                   kr_xpub := kr_xpub kr; kr_idx := kr_idx kr |}) l) = Ok l).
    { induction l as [|kr l IH]; intros Hl; [reflexivity|]. cbn [map parse_recs].
      destruct (FACT kr (Hl kr (or_introl eq_refl))) as [F1 [F2 [F3 [F4 _]]]].
      unfold parse_rec. cbn [kr_xfp kr_path kr_xpub kr_idx]. rewrite F1. cbn [negb].
      rewrite <- F2, F3. cbn [negb]. rewrite F4. cbn [bind].
      rewrite (HC kr (Hl kr (or_introl eq_refl))). cbn [negb bind].
      rewrite IH by (intros k Hk; apply Hl; now right). cbn [bind].
      destruct kr; reflexivity. }
    apply G. auto. }
  (* and the constructor (no sorting this time) accepts them *)
  pose proof (construct_recs_length _ _ _ _ _ H) as LEN.
  assert (NORM : forall kr, In kr (d_recs d) -> norm1 kr = Ok (kr, n)).
  { intros kr Hk. destruct (FACT kr Hk) as [F1 [F2 [F3 [F4 [F5 [F6 F7]]]]]].
    unfold norm1, mk_norm. rewrite F3, (xfp_re_ok_xfp_ok _ F1), F5, F4. cbn [negb bind].
    rewrite F6, F7, <- F2. destruct kr; reflexivity. }
  assert (ID : map normed (d_recs d) = d_recs d).
  { rewrite <- (map_id (d_recs d)) at 2. apply map_ext_in. intros kr Hk.
    unfold normed. now rewrite (NORM kr Hk). }
  assert (NE2 : d_recs d <> []).
  { intros E0. apply NE. assert (L0 : zlen recs = 0) by (rewrite <- LEN, E0; reflexivity).
    unfold zlen in L0. destruct recs; [reflexivity|cbn in L0; lia]. }
  assert (CK : check_recs path_ok hdparse None (d_recs d) = Ok (d_recs d, Some n)).
  { apply (check_recs_none _ _ _ NE2). exists n. split; [|rewrite ID; auto].
    apply Forall_forall. intros kr Hk. exists kr. exact (NORM kr Hk). }
  assert (GO : forall cs', cs' = [] \/ cs' = d_checksum d ->
           parse_struct path_ok hdparse child_ok (d_m d) (fields_of d) cs' = Ok d).
  { intros cs' Hcs. unfold parse_struct. rewrite PR. cbn [bind]. rewrite LEN, M.
    destruct (Z.gtb_spec m (zlen recs)); [lia|]. unfold construct.
    destruct (Z.ltb_spec m 1); [lia|].
    destruct (d_recs d) as [|k0 ks] eqn:ED; [congruence|].
    rewrite <- ED in *. rewrite LEN. destruct (Z.gtb_spec m (zlen recs)); [lia|].
    rewrite CK. cbn [bind]. rewrite <- T, C. cbn [bind].
    destruct Hcs as [->| ->].
    - destruct d; cbn in *. subst. reflexivity.
    - destruct (d_checksum d) eqn:EC.
      + destruct d; cbn in *. subst. reflexivity.
      + rewrite <- EC, beq_refl. destruct d; cbn in *. subst. reflexivity. }
  split; apply GO; auto.
Qed.

(* a substituted checksum is rejected by parse (string inequality) *)
Theorem parse_rejects_wrong_checksum m fields d cs :
  parse_struct path_ok hdparse child_ok m fields [] = Ok d ->
  cs <> [] -> cs <> d_checksum d ->
  parse_struct path_ok hdparse child_ok m fields cs = Err.
Proof.
  unfold parse_struct. destruct (parse_recs path_ok hdparse child_ok fields) as [recs|]; [|reflexivity].
  cbn [bind]. destruct (m >? zlen recs); [reflexivity|]. apply construct_rejects_wrong_checksum.
Qed.

(* ------------------------------------------------------------------ get_address *)
Variable derive : list Z -> Z -> Z -> result bytes.
Variable sha256 : bytes -> bytes.
Variable p2wsh_address : bytes -> Z -> list Z.

Definition account (is_change : bool) (kr : keyrec) : Z :=
  if is_change then kr_idx kr + 1 else kr_idx kr.

(* one derived key per record, in record order: receive uses (account_index, offset),
   change uses (account_index + 1, offset) *)
Lemma child_keys_spec recs chg off ks :
  child_keys derive recs chg off = Ok ks <->
  Forall2 (fun kr k => derive (kr_xpub kr) (account chg kr) off = Ok k) recs ks.
Proof.
  revert ks; induction recs as [|kr recs IH]; intros ks; cbn [child_keys].
  - split; [intros H; apply Ok_inj in H; subst; constructor|intros H; inversion H; reflexivity].
  - fold (account chg kr). split.
    + destruct (derive (kr_xpub kr) (account chg kr) off) as [k|] eqn:E; [|discriminate]. cbn [bind].
      destruct (child_keys derive recs chg off) as [ks'|]; [|discriminate]. cbn [bind].
      intros H. apply Ok_inj in H. subst ks. constructor; [exact E|]. now apply IH.
    + intros H. inversion H as [|? k ? ks' Hk Hr]; subst. rewrite Hk. cbn [bind].
      rewrite (proj2 (IH ks') Hr). reflexivity.
Qed.

Lemma child_keys_perm recs recs' chg off ks :
  Permutation recs recs' -> child_keys derive recs chg off = Ok ks ->
  exists ks', child_keys derive recs' chg off = Ok ks' /\ Permutation ks ks'.
Proof.
  intros HP. revert ks. induction HP as [|x l l' HP IH|x y l|l l' l'' HP1 IH1 HP2 IH2]; intros ks H.
  - exists ks. split; [exact H|reflexivity].
  - cbn [child_keys] in *. destruct (derive (kr_xpub x) _ off) as [k|]; [|discriminate]. cbn [bind] in *.
    destruct (child_keys derive l chg off) as [ks0|] eqn:E; [|discriminate]. cbn [bind] in H.
    apply Ok_inj in H. subst ks. destruct (IH ks0 eq_refl) as [ks' [E' P']]. rewrite E'. cbn [bind].
    exists (k :: ks'). split; [reflexivity|now apply perm_skip].
  - cbn [child_keys] in *.
    destruct (derive (kr_xpub y) _ off) as [ky|]; [|discriminate]. cbn [bind] in *.
    destruct (derive (kr_xpub x) _ off) as [kx|]; [|discriminate]. cbn [bind] in *.
    destruct (child_keys derive l chg off) as [ks0|]; [|discriminate]. cbn [bind] in *.
    apply Ok_inj in H. subst ks. exists (kx :: ky :: ks0). split; [reflexivity|apply perm_swap].
  - destruct (IH1 ks H) as [k1 [E1 P1]]. destruct (IH2 k1 E1) as [k2 [E2 P2]].
    exists k2. split; [exact E2|]. now transitivity k1.
Qed.

(* (4) the witness script and the address depend only on the SET of key records *)
Theorem address_order_independent d d' off chg :
  Permutation (d_recs d) (d_recs d') -> d_m d = d_m d' -> d_net d = d_net d' ->
  witness_script derive d off chg true = witness_script derive d' off chg true /\
  get_address derive sha256 p2wsh_address d off chg true =
  get_address derive sha256 p2wsh_address d' off chg true.
Proof.
  intros HP HM HN.
  assert (W : witness_script derive d off chg true = witness_script derive d' off chg true).
  { unfold witness_script. destruct (off <? 0); [reflexivity|].
    assert (L : zlen (d_recs d) = zlen (d_recs d')) by (unfold zlen; now rewrite (Permutation_length HP)).
    destruct (child_keys derive (d_recs d) chg off) as [ks|] eqn:E.
    - destruct (child_keys_perm _ _ _ _ _ HP E) as [ks' [E' P']]. rewrite E'. cbn [bind].
      rewrite (sort_keys_perm_eq _ _ P'), HM, L. reflexivity.
    - destruct (child_keys derive (d_recs d') chg off) as [ks'|] eqn:E'; [|reflexivity].
      destruct (child_keys_perm _ _ _ _ _ (Permutation_sym HP) E') as [ks [X _]]. congruence. }
  split; [exact W|]. unfold get_address. now rewrite W, HN.
Qed.

(* serialisation of the m-of-n script is injective in the key list (33-byte keys) *)
Lemma ser_pushes_inj ks : forall ks' t t' a a',
  Forall (fun k => length k = 33%nat) ks -> Forall (fun k => length k = 33%nat) ks' ->
  length ks = length ks' ->
  ser_cmds (map Push ks ++ t) = Ok a -> ser_cmds (map Push ks' ++ t') = Ok a' ->
  ser_cmds t = ser_cmds t' -> a = a' -> ks = ks'.
Proof.
  induction ks as [|k ks IH]; intros [|k' ks'] t t' a a' HF HF' HL H H' HT HA;
    try discriminate; [reflexivity|].
  inversion HF as [|? ? Hk HF1]; subst. inversion HF' as [|? ? Hk' HF1']; subst.
  cbn [map app ser_cmds ser_cmd] in H, H'. unfold zlen in H, H'. rewrite Hk in H. rewrite Hk' in H'.
  change (Z.of_nat 33 <=? 75) with true in H, H'. cbn [bind] in H, H'.
  destruct (ser_cmds (map Push ks ++ t)) as [b|] eqn:E; [|discriminate].
  destruct (ser_cmds (map Push ks' ++ t')) as [b'|] eqn:E'; [|discriminate].
  cbn [bind] in H, H'. apply Ok_inj in H. apply Ok_inj in H'.
  assert (HA : (Z.of_nat 33 :: k) ++ b = (Z.of_nat 33 :: k') ++ b') by congruence.
  cbn [app] in HA. injection HA as HA.
  assert (S : k = k' /\ b = b').
  { apply app_eq_len; [congruence|exact HA]. }
  destruct S as [-> ->]. f_equal. apply (IH ks' t t' b' b'); auto.
Qed.

Lemma forall2_length {A B} (R : A -> B -> Prop) l l' : Forall2 R l l' -> length l = length l'.
Proof. induction 1; cbn; congruence. Qed.

(* shape of the script: OP_m, one 33-byte push per key record (its child key, sorted), OP_n,
   OP_CHECKMULTISIG *)
Theorem witness_script_shape d off chg ws :
  witness_script derive d off chg true = Ok ws ->
  exists ks om on,
    Forall2 (fun kr k => derive (kr_xpub kr) (account chg kr) off = Ok k) (d_recs d) ks /\
    length ks = length (d_recs d) /\
    number_to_op_code (d_m d) = Ok om /\ number_to_op_code (zlen (d_recs d)) = Ok on /\
    0 <= off /\
    ser_cmds (Op om :: map Push (sort_by (fun k => k) ks) ++ [Op on; Op 174]) = Ok ws.
Proof.
  unfold witness_script. destruct (Z.ltb_spec off 0) as [O|O]; [discriminate|].
  destruct (child_keys derive (d_recs d) chg off) as [ks|] eqn:E; [|discriminate]. cbn [bind].
  unfold multisig_cmds.
  destruct (number_to_op_code (d_m d)) as [om|]; [|discriminate]. cbn [bind].
  destruct (number_to_op_code (zlen (d_recs d))) as [on|]; [|discriminate]. cbn [bind].
  intros H. exists ks, om, on. apply child_keys_spec in E.
  repeat split; auto. symmetry. exact (forall2_length _ _ _ E).
Qed.

(* (5) equal receive and change addresses at the same offset force a SHA-256 collision
   (exhibited) or equal sorted child-key lists of the two branches *)
Theorem branches_distinct d off a :
  (forall h h' n, p2wsh_address h n = p2wsh_address h' n -> h = h') ->
  (forall x acc i k, derive x acc i = Ok k -> length k = 33%nat) ->
  get_address derive sha256 p2wsh_address d off false true = Ok a ->
  get_address derive sha256 p2wsh_address d off true true = Ok a ->
  (exists s s', s <> s' /\ sha256 s = sha256 s') \/
  (exists kr kc,
     child_keys derive (d_recs d) false off = Ok kr /\
     child_keys derive (d_recs d) true off = Ok kc /\
     sort_by (fun k => k) kr = sort_by (fun k => k) kc).
Proof.
  intros HA HL. unfold get_address.
  destruct (witness_script derive d off false true) as [ws|] eqn:W; [|discriminate].
  destruct (witness_script derive d off true true) as [ws'|] eqn:W'; [|discriminate].
  cbn [bind]. intros H H'. apply Ok_inj in H. apply Ok_inj in H'.
  assert (HH : sha256 ws = sha256 ws') by (apply (HA _ _ (d_net d)); congruence).
  destruct (list_eq_dec Z.eq_dec ws ws') as [EQ|NE]; [|left; exists ws, ws'; auto].
  right. subst ws'.
  destruct (witness_script_shape _ _ _ _ W) as [kr [om [on [F [L [M [N [_ S]]]]]]]].
  destruct (witness_script_shape _ _ _ _ W') as [kc [om' [on' [F' [L' [M' [N' [_ S']]]]]]]].
  exists kr, kc. split; [now apply child_keys_spec|]. split; [now apply child_keys_spec|].
  assert (om' = om) by congruence. assert (on' = on) by congruence. subst om' on'.
  cbn [ser_cmds] in S, S'. destruct (ser_cmd (Op om)) as [h|]; [|discriminate]. cbn [bind] in S, S'.
  destruct (ser_cmds (map Push (sort_by (fun k => k) kr) ++ [Op on; Op 174])) as [b|] eqn:B; [|discriminate].
  destruct (ser_cmds (map Push (sort_by (fun k => k) kc) ++ [Op on; Op 174])) as [b'|] eqn:B'; [|discriminate].
  cbn [bind] in S, S'. apply Ok_inj in S. apply Ok_inj in S'.
  assert (BB : b = b') by (apply (app_inv_head h); congruence).
  assert (K33 : forall chg ks, Forall2 (fun kr k => derive (kr_xpub kr) (account chg kr) off = Ok k) (d_recs d) ks ->
            Forall (fun k => length k = 33%nat) (sort_by (fun k => k) ks)).
  { intros chg ks FF. apply (Permutation_Forall (sort_perm (fun k => k) ks)).
    clear -FF HL. induction FF as [|x k l ks Hk _ IH]; constructor; [exact (HL _ _ _ _ Hk)|exact IH]. }
  apply (ser_pushes_inj _ _ [Op on; Op 174] [Op on; Op 174] b b'); auto.
  - exact (K33 false kr F).
  - exact (K33 true kc F').
  - rewrite !sort_by_length. congruence.
Qed.
End DescP.
