(* Proofs/ScriptP.v — Script.raw_serialize / Script.parse round trip (C04). *)
From V Require Import Base.Prelude Base.Ints Model.Helper Model.Script Proofs.HelperP.
From V Require Export Spec.TxWf.

Lemma bind_ok {A B} (r : result A) (f : A -> result B) b :
  bind r f = Ok b -> exists a, r = Ok a /\ f a = Ok b.
Proof. destruct r as [a|]; cbn; [eauto | discriminate]. Qed.

Lemma cmd_strict_wf c : cmd_strictb c = true -> cmd_wfb c = true.
Proof.
  destruct c as [o|b]; cbn; [auto|]. intros H. apply andb_true_iff in H as [_ H]. exact H.
Qed.

Lemma cmds_strict_wf cs : cmds_strictb cs = true -> cmds_wfb cs = true.
Proof.
  unfold cmds_strictb, cmds_wfb. rewrite !forallb_forall. intros H c Hc. apply cmd_strict_wf; auto.
Qed.

Lemma canon_strict c : cmd_strictb c = true -> canon_cmd c = c.
Proof.
  destruct c as [o|[|x b]]; cbn; try reflexivity. discriminate.
Qed.

Lemma canon_cmds_strict cs : cmds_strictb cs = true -> canon_cmds cs = cs.
Proof.
  unfold cmds_strictb, canon_cmds. induction cs as [|c r IH]; cbn [forallb map]; [reflexivity|].
  intros H. apply andb_true_iff in H as [H1 H2]. now rewrite canon_strict, (IH H2).
Qed.

Lemma canon_cmd_idem c : canon_cmd (canon_cmd c) = canon_cmd c.
Proof. destruct c as [o|[|x b]]; reflexivity. Qed.

(* the empty push and opcode 0 have the same serialisation *)
Lemma ser_cmd_canon c : ser_cmd (canon_cmd c) = ser_cmd c.
Proof. destruct c as [o|[|x b]]; reflexivity. Qed.

Lemma ser_cmds_canon cs : ser_cmds (canon_cmds cs) = ser_cmds cs.
Proof.
  unfold canon_cmds. induction cs as [|c r IH]; cbn [map ser_cmds]; [reflexivity|].
  now rewrite ser_cmd_canon, IH.
Qed.

Lemma canon_wf c : cmd_wfb c = true -> cmd_strictb (canon_cmd c) = true.
Proof.
  destruct c as [o|[|x b]]; cbn; auto. intros H. apply andb_true_iff. split; [|exact H].
  unfold zlen. cbn [length]. apply Z.leb_le. lia.
Qed.

Lemma canon_cmds_wf cs : cmds_wfb cs = true -> cmds_strictb (canon_cmds cs) = true.
Proof.
  unfold cmds_strictb, cmds_wfb, canon_cmds. induction cs as [|c r IH]; cbn [forallb map]; [reflexivity|].
  intros H. apply andb_true_iff in H as [H1 H2]. now rewrite canon_wf, IH.
Qed.

Lemma parse_loop_S f b r count len acc :
  parse_loop (S f) (b :: r) count len acc =
  if len <=? count then Ok (rev acc, count)
  else
    let c := count + 1 in
    if (1 <=? b) && (b <=? 75) then
      let '(d, r') := readz b r in parse_loop f r' (c + b) len (Push d :: acc)
    else if b =? 76 then
      let dl := from_le (firstn 1 r) in
      let '(d, r') := readz dl (skipn 1 r) in parse_loop f r' (c + dl + 1) len (Push d :: acc)
    else if b =? 77 then
      let dl := from_le (firstn 2 r) in
      let '(d, r') := readz dl (skipn 2 r) in parse_loop f r' (c + dl + 2) len (Push d :: acc)
    else if b =? 78 then
      let dl := from_le (firstn 4 r) in
      let '(d, r') := readz dl (skipn 4 r) in parse_loop f r' (c + dl + 4) len (Push d :: acc)
    else parse_loop f r c len (Op b :: acc).
Proof. reflexivity. Qed.

Lemma zlen_cons {A} (x : A) l : zlen (x :: l) = 1 + zlen l.
Proof. unfold zlen. cbn [length]. lia. Qed.

Lemma zlen_nil {A} : zlen (@nil A) = 0.
Proof. reflexivity. Qed.

Lemma zlen_to_le n v : zlen (to_le n v) = Z.of_nat n.
Proof. unfold zlen. now rewrite to_le_length. Qed.

(* one command: it serialises, and one iteration of the parser's loop consumes exactly
   its bytes and produces the (normalised) command *)
Lemma ser_cmd_step c :
  cmd_wfb c = true ->
  exists a, ser_cmd c = Ok a /\ 1 <= zlen a /\
    forall f b' count len acc, count < len ->
      parse_loop (S f) (a ++ b') count len acc =
      parse_loop f b' (count + zlen a) len (canon_cmd c :: acc).
Proof.
  destruct c as [o|d]; cbn [cmd_wfb]; intros W.
  - (* opcode *)
    unfold op_wfb in W. exists [o]. split; [|split].
    + cbn [ser_cmd]. destruct (o <? 0) eqn:E1; destruct (255 <? o) eqn:E2; cbn; try reflexivity; lia.
    + rewrite zlen_cons, zlen_nil. lia.
    + intros f b' count len acc Hc. cbn [app]. rewrite parse_loop_S.
      replace (len <=? count) with false by (symmetry; apply Z.leb_gt; lia).
      replace ((1 <=? o) && (o <=? 75)) with false by (symmetry; apply andb_false_iff; lia).
      replace (o =? 76) with false by (symmetry; apply Z.eqb_neq; lia).
      replace (o =? 77) with false by (symmetry; apply Z.eqb_neq; lia).
      replace (o =? 78) with false by (symmetry; apply Z.eqb_neq; lia).
      cbv zeta. rewrite zlen_cons, zlen_nil. cbn [canon_cmd]. f_equal; lia.
  - (* push *)
    apply Z.leb_le in W. pose proof (zlen_nonneg d) as Hd. cbn [ser_cmd].
    destruct (zlen d <=? 75) eqn:E75.
    + destruct d as [|x d'].
      * (* empty push = opcode 0 *)
        exists [0]. split; [reflexivity|]. split; [rewrite zlen_cons, zlen_nil; lia|].
        intros f b' count len acc Hc. cbn [app]. rewrite parse_loop_S.
        replace (len <=? count) with false by (symmetry; apply Z.leb_gt; lia).
        cbn [Z.leb Z.compare andb Z.eqb]. cbv zeta. reflexivity.
      * set (d := x :: d') in *. exists (zlen d :: d). split; [reflexivity|].
        split; [rewrite zlen_cons; lia|].
        assert (1 <= zlen d) as H1 by (unfold d; rewrite zlen_cons; pose proof (zlen_nonneg d'); lia).
        intros f b' count len acc Hc. cbn [app]. rewrite parse_loop_S.
        replace (len <=? count) with false by (symmetry; apply Z.leb_gt; lia).
        replace ((1 <=? zlen d) && (zlen d <=? 75)) with true by (symmetry; apply andb_true_iff; lia).
        cbv zeta. rewrite readz_app. rewrite zlen_cons. unfold d. cbn [canon_cmd]. f_equal; lia.
    + destruct (zlen d <? 256) eqn:E256.
      * exists (76 :: zlen d :: d). split; [reflexivity|]. split; [rewrite !zlen_cons; lia|].
        intros f b' count len acc Hc. cbn [app]. rewrite parse_loop_S.
        replace (len <=? count) with false by (symmetry; apply Z.leb_gt; lia).
        cbn [Z.leb Z.compare andb Z.eqb Pos.eqb Pos.compare Pos.compare_cont]. cbv zeta.
        cbn [firstn skipn from_le]. replace (zlen d + 256 * 0) with (zlen d) by lia.
        rewrite readz_app. rewrite !zlen_cons.
        assert (canon_cmd (Push d) = Push d) as ->
          by (destruct d; [unfold zlen in E75; cbn in E75; discriminate|reflexivity]).
        f_equal; lia.
      * destruct (zlen d <=? 520) eqn:E520; [|lia].
        exists (77 :: to_le 2 (zlen d) ++ d). split; [reflexivity|].
        split; [rewrite zlen_cons; pose proof (zlen_nonneg (to_le 2 (zlen d) ++ d)); lia|].
        intros f b' count len acc Hc. cbn [app]. rewrite parse_loop_S.
        replace (len <=? count) with false by (symmetry; apply Z.leb_gt; lia).
        cbn [Z.leb Z.compare andb Z.eqb Pos.eqb Pos.compare Pos.compare_cont]. cbv zeta.
        rewrite <- app_assoc.
        rewrite firstn_app_exact by apply to_le_length.
        rewrite skipn_app_exact by apply to_le_length.
        rewrite from_le_to_le by (rewrite pow256_2; lia).
        rewrite readz_app. rewrite zlen_cons, zlen_app, zlen_to_le.
        assert (canon_cmd (Push d) = Push d) as ->
          by (destruct d; [unfold zlen in E75; cbn in E75; discriminate|reflexivity]).
        f_equal; lia.
Qed.

Lemma parse_loop_done fuel s count len acc :
  len <= count -> parse_loop fuel s count len acc = Ok (rev acc, count).
Proof.
  intros H. destruct fuel; cbn [parse_loop];
    replace (len <=? count) with true by (symmetry; apply Z.leb_le; lia); reflexivity.
Qed.

(* the whole loop on a serialised command list *)
Lemma parse_loop_ser cs :
  cmds_wfb cs = true ->
  exists b, ser_cmds cs = Ok b /\
    forall fuel count acc, (length b <= fuel)%nat ->
      parse_loop fuel b count (count + zlen b) acc = Ok (rev acc ++ canon_cmds cs, count + zlen b).
Proof.
  induction cs as [|c r IH]; intros W.
  - exists []. split; [reflexivity|]. intros fuel count acc _. rewrite zlen_nil.
    rewrite parse_loop_done by lia. cbn. now rewrite app_nil_r, Z.add_0_r.
  - cbn [cmds_wfb forallb] in W. apply andb_true_iff in W as [Wc Wr].
    destruct (ser_cmd_step c Wc) as [a [Ha [La Hstep]]]. destruct (IH Wr) as [b [Hb Hloop]].
    exists (a ++ b). split; [cbn [ser_cmds]; rewrite Ha, Hb; reflexivity|].
    intros fuel count acc Hf. rewrite app_length in Hf.
    assert (1 <= length a)%nat as La' by (unfold zlen in La; lia).
    destruct fuel as [|f]; [lia|].
    rewrite Hstep by (rewrite zlen_app; pose proof (zlen_nonneg b); lia).
    rewrite zlen_app. replace (count + (zlen a + zlen b)) with ((count + zlen a) + zlen b) by lia.
    rewrite Hloop by lia. cbn [rev canon_cmds map]. now rewrite <- app_assoc.
Qed.

(* Script.parse(raw=Script(cs).raw_serialize()) == Script(canon cs), with .raw unset *)
Lemma script_roundtrip cs :
  cmds_wfb cs = true ->
  exists b, ser_cmds cs = Ok b /\ parse_raw b = Ok (mk_script (canon_cmds cs)).
Proof.
  intros W. destruct (parse_loop_ser cs W) as [b [Hb Hloop]]. exists b. split; [exact Hb|].
  unfold parse_raw. specialize (Hloop (length b) 0 [] (Nat.le_refl _)).
  rewrite Z.add_0_l in Hloop. rewrite Hloop. cbn [bind rev app]. rewrite Z.eqb_refl. reflexivity.
Qed.

Lemma script_roundtrip_strict cs :
  cmds_strictb cs = true ->
  exists b, ser_cmds cs = Ok b /\ parse_raw b = Ok (mk_script cs).
Proof.
  intros W. destruct (script_roundtrip cs (cmds_strict_wf cs W)) as [b [H1 H2]].
  exists b. split; [exact H1|]. now rewrite canon_cmds_strict in H2.
Qed.

(* through the length-prefixed form used inside transactions *)
Lemma script_stream_roundtrip cs :
  cmds_wfb cs = true ->
  forall b, ser_cmds cs = Ok b -> zlen b < 9223372036854775808 ->
  exists e, serialize_script (mk_script cs) = Ok e /\ (1 <= length e)%nat /\
    forall rest, parse_script (e ++ rest) = Ok (mk_script (canon_cmds cs), rest).
Proof.
  intros W b Hb Hl. destruct (script_roundtrip cs W) as [b' [Hb' Hp]].
  rewrite Hb in Hb'. inversion Hb'; subst b'. clear Hb'.
  unfold serialize_script, raw_serialize. cbn [mk_script s_raw s_cmds]. rewrite Hb. cbn [bind].
  unfold encode_varstr.
  destruct (varint_roundtrip (zlen b) [] ) as [l [Hl1 _]]; [pose proof (zlen_nonneg b); lia|].
  rewrite Hl1. cbn [bind]. eexists. split; [reflexivity|]. split.
  - rewrite app_length. destruct (varint_width _ _ Hl1) as [[_ E]|[[_ E]|[[_ E]|[_ E]]]]; rewrite E; lia.
  - intros rest. unfold parse_script.
    destruct (varstr_roundtrip b rest Hl) as [e [He Hr]]. unfold encode_varstr in He.
    rewrite Hl1 in He. cbn [bind] in He. inversion He; subst e. rewrite Hr. cbn [bind]. rewrite Hp.
    reflexivity.
Qed.

(* raw_serialize raises exactly when a push is longer than 520 bytes or an int command is
   outside [0, 255] *)
Lemma ser_cmd_err c : ser_cmd c = Err <-> cmd_bad c.
Proof.
  destruct c as [o|d]; cbn [ser_cmd cmd_bad].
  - destruct (o <? 0) eqn:E1; destruct (255 <? o) eqn:E2; cbn [orb]; split; intros H;
      try reflexivity; try discriminate; lia.
  - destruct (zlen d <=? 75) eqn:E1; [split; [discriminate|lia]|].
    destruct (zlen d <? 256) eqn:E2; [split; [discriminate|lia]|].
    destruct (zlen d <=? 520) eqn:E3; [split; [discriminate|lia]|]. split; [lia|reflexivity].
Qed.

Lemma ser_cmds_err cs : ser_cmds cs = Err <-> exists c, In c cs /\ cmd_bad c.
Proof.
  induction cs as [|c r IH]; cbn [ser_cmds].
  - split; [discriminate|]. intros [c [[] _]].
  - destruct (ser_cmd c) as [a|] eqn:Ea; cbn [bind].
    + destruct (ser_cmds r) as [b|] eqn:Eb; cbn [bind].
      * split; [discriminate|]. intros [c' [[<-|Hin] Hb]].
        -- apply ser_cmd_err in Hb. congruence.
        -- assert (exists c0, In c0 r /\ cmd_bad c0) as Y by eauto. apply IH in Y. discriminate.
      * split; [|reflexivity]. intros _. destruct IH as [IH _]. destruct (IH eq_refl) as [c' [Hin Hb]].
        exists c'. split; [now right|exact Hb].
    + split; [|reflexivity]. intros _. exists c. split; [now left|]. now apply ser_cmd_err.
Qed.

(* a well-formed command list never triggers the failure *)
Lemma cmd_wf_not_bad c : cmd_wfb c = true -> ~ cmd_bad c.
Proof.
  destruct c as [o|d]; cbn [cmd_wfb cmd_bad]; unfold op_wfb; intros W B; [|apply Z.leb_le in W; lia].
  apply orb_true_iff in W as [W|W]; [apply Z.eqb_eq in W; lia|].
  apply andb_true_iff in W as [W1 W2]. apply Z.leb_le in W1, W2. lia.
Qed.

(* the raw fallback: a script whose declared push lengths overrun the data keeps the original
   bytes in .raw, and serialises back to exactly those bytes *)
Lemma parse_raw_fallback raw sc :
  parse_raw raw = Ok sc -> s_raw sc <> None -> s_raw sc = Some raw /\ raw_serialize sc = Ok raw.
Proof.
  unfold parse_raw. destruct (parse_loop (length raw) raw 0 (zlen raw) []) as [[cs count]|] eqn:E;
    cbn [bind]; [|discriminate].
  intros H. inversion H; subst sc. clear H. cbn [s_raw]. destruct (count =? zlen raw) eqn:E2; [congruence|].
  intros _. split; [reflexivity|]. unfold raw_serialize. cbn [s_raw s_cmds].
  destruct raw as [|x r]; [|reflexivity].
  cbn in E. inversion E; subst. discriminate.
Qed.
