(* Proofs/OpModeP.v — the failure-mode model (Model/OpMode.v: returns False vs. raises) against the
   model the conformance theorems are about (Model/Op.v, Model/Interp.v):
     * it collapses to it (forgetting the mode gives exactly the old results), for every op code,
       every stack and every command list;
     * the guards of the op code functions are sufficient: no list access ever raises IndexError;
     * it raises exactly (a) KeyError for a command that is not in OP_CODE_FUNCTIONS and
       (b) ValueError in CHECKLOCKTIMEVERIFY / CHECKSEQUENCEVERIFY when the operand exceeds
       2^32-1 and the earlier tests let it reach Locktime(...) / Sequence(...);
     * hence, wherever the consensus spec has an opinion on a single op code, the library
       RETURNS False exactly where consensus fails. *)
From V Require Import Base.Prelude Base.Ints Model.Script Model.Op Model.Interp Model.OpMode
  Spec.Consensus Proofs.OpP Proofs.ConformP Proofs.StackOkP.

Definition inj {A} (r : result A) : mres A := match r with Ok a => MOk a | Err => MFalse end.

Lemma collapse_inj {A} (r : result A) : collapse (inj r) = r.
Proof. destruct r; reflexivity. Qed.

(* ------------------------------------------------------------------ tactics *)

Ltac lit :=
  cbn [Z.eqb Z.leb Z.ltb Z.compare Pos.eqb Pos.compare Pos.compare_cont andb orb negb Z.sub Z.add
       Z.opp Z.pos_sub Pos.succ Pos.add Pos.pred_double Z.double Z.succ_double Z.pred_double
       Pos.sub Pos.sub_mask Pos.double_mask Pos.succ_double_mask Pos.double_pred_mask Pos.pred_N].

(* decide the comparisons that only involve the length of a (partially) known list *)
Ltac zl1 E := unfold zlen in E; cbn [length] in E; try (exfalso; lia).
Ltac zl :=
  repeat match goal with
         | |- context [zlen ?l <? ?k] =>
             let E := fresh "E" in
             destruct (zlen l <? k) eqn:E; [apply Z.ltb_lt in E | apply Z.ltb_ge in E]; zl1 E
         | |- context [?k <? - zlen ?l] =>
             let E := fresh "E" in
             destruct (k <? - zlen l) eqn:E; [apply Z.ltb_lt in E | apply Z.ltb_ge in E]; zl1 E
         | |- context [zlen ?l <=? ?k] =>
             let E := fresh "E" in
             destruct (zlen l <=? k) eqn:E; [apply Z.leb_le in E | apply Z.leb_gt in E]; zl1 E
         end.

Ltac munf :=
  unfold m_push_num, m_nop, m_verify, m_return, m_toaltstack, m_fromaltstack, m_2drop, m_2dup, m_3dup,
    m_2over, m_2rot, m_2swap, m_ifdup, m_depth, m_drop, m_dup, m_nip, m_over, m_rot, m_swap, m_tuck,
    m_size, m_equal, m_equalverify, m_and, m_un, m_bin, m_within, m_hash, m_verify, m_equal,
    guard, m_pop, m_index, m_pop_at, top_slice, mid_slice, insert_m2,
    op_push_num, op_nop, op_verify, op_return, op_toaltstack, op_fromaltstack, op_2drop, op_2dup,
    op_3dup, op_2over, op_2rot, op_2swap, op_ifdup, op_depth, op_drop, op_dup, op_nip, op_over, op_rot,
    op_swap, op_tuck, op_size, op_equal, op_equalverify, op_1add, op_1sub, op_negate, op_abs, op_not,
    op_0notequal, op_add, op_sub, op_booland, op_boolor, op_numequal, op_numequalverify, op_numnotequal,
    op_lessthan, op_greaterthan, op_lessthanorequal, op_greaterthanorequal, op_min, op_max, op_within,
    op_hash, un_op, bin_op, op_equal, op_numequal, bin_op, op_verify, bind, mbind, inj.

Ltac mfin :=
  munf; zl; lit;
  cbn [Z.to_nat Pos.to_nat Pos.iter_op Nat.add nth_error remove_nth firstn skipn app Nat.sub length rev
       mbind inj bind];
  zl;
  repeat match goal with
         | |- context [if ?b then _ else _] => destruct b
         end;
  try reflexivity.

Ltac mpops n s :=
  lazymatch n with
  | O => mfin
  | S ?k =>
      let x := fresh "x" in let t := fresh "t" in
      destruct s as [|x t]; [mfin | mpops k t]
  end.

(* ------------------------------------------------------------------ single op codes *)

Section Mode.
  Variables ripemd160 sha1 sha256 : bytes -> bytes.

  Definition m_lib_table : Z -> option mopfn :=
    m_functions ripemd160 sha1 sha256 (fun x => ripemd160 (sha256 x)) (fun x => sha256 (sha256 x)).

  Notation ltab := (lib_table ripemd160 sha1 sha256).

  (* the op codes of the table that are plain stack / alt-stack functions *)
  Definition stack_ops : list Z :=
    [0; 79; 81; 82; 83; 84; 85; 86; 87; 88; 89; 90; 91; 92; 93; 94; 95; 96; 97;
     105; 106; 107; 108; 109; 110; 111; 112; 113; 114; 115; 116; 117; 118; 119; 120; 123; 124; 125;
     130; 135; 136; 139; 140; 143; 144; 145; 146; 147; 148;
     154; 155; 156; 157; 158; 159; 160; 161; 162; 163; 164; 165; 166; 167; 168; 169; 170;
     176; 179; 180; 181; 182; 183; 184; 185].

  Ltac open_both :=
    unfold m_exec_op, Interp.exec_op, m_lib_table, m_functions, lib_table, op_code_functions,
      common_functions; lit.

  (* every plain op code: the finer model never raises and returns False exactly where the
     coarse model fails — the guards make every pop / index safe *)
  Lemma stack_op_inj c o rest s a : In o stack_ops ->
    m_exec_op m_lib_table c o rest s a = inj (Interp.exec_op ltab c o rest s a).
  Proof.
    intros Hin. unfold stack_ops in Hin. cbn [In] in Hin.
    repeat (destruct Hin as [<-|Hin];
            [open_both; try (destruct a; mfin; fail); mpops 6%nat s |]).
    contradiction.
  Qed.

  (* ---------------------------------------------------------------- PICK / ROLL *)

  Lemma m_index_top r n : 0 <= n -> n + 1 <= zlen r ->
    m_index r (- n - 1) = MOk (nth (Z.to_nat n) r []) /\
    m_pop_at r (- n - 1) = MOk (nth (Z.to_nat n) r [], remove_nth (Z.to_nat n) r) /\
    nth_error r (Z.to_nat n) = Some (nth (Z.to_nat n) r []).
  Proof.
    intros H0 H1.
    assert (Hk : (Z.to_nat n < length r)%nat) by (unfold zlen in H1; lia).
    pose proof (nth_error_nth r (Z.to_nat n) [] Hk) as Hn.
    unfold m_index, m_pop_at.
    replace (- (- n - 1) - 1) with n by lia.
    assert (T1 : (- n - 1 <? - zlen r) = false) by (apply Z.ltb_ge; lia).
    assert (T2 : (zlen r <=? - n - 1) = false) by (apply Z.leb_gt; unfold zlen; lia).
    assert (T3 : (- n - 1 <? 0) = true) by (apply Z.ltb_lt; lia).
    rewrite T1, T2, T3, Hn. cbn [orb]. repeat split; reflexivity.
  Qed.

  Lemma pick_roll_inj c o rest s a : o = 121 \/ o = 122 ->
    m_exec_op m_lib_table c o rest s a = inj (Interp.exec_op ltab c o rest s a).
  Proof.
    intros [-> | ->]; open_both; unfold m_pick, m_roll, op_pick, op_roll, guard, m_pop;
      (destruct s as [|e r]; [reflexivity|]);
      (assert (G : (zlen (e :: r) <? 1) = false) by (apply Z.ltb_ge; unfold zlen; cbn [length]; lia));
      rewrite G; cbn [mbind]; cbv zeta;
      (destruct ((decode_num e <? 0) || (zlen r <? decode_num e + 1)) eqn:C; [reflexivity|]);
      apply orb_false_iff in C as [C1 C2]; apply Z.ltb_ge in C1, C2;
      destruct (m_index_top r (decode_num e) C1 C2) as (I1 & I2 & I3).
    - rewrite I1, I3. reflexivity.
    - destruct (decode_num e =? 0); [reflexivity|]. rewrite I2, I3. reflexivity.
  Qed.

  (* ---------------------------------------------------------------- IF / NOTIF *)

  Lemma if_gen_inj neg s items : m_if_gen neg s items = inj (op_if_gen neg s items).
  Proof.
    unfold m_if_gen, op_if_gen, guard, m_pop. destruct s as [|e r]; [reflexivity|].
    assert (G : (zlen (e :: r) <? 1) = false) by (apply Z.ltb_ge; unfold zlen; cbn [length]; lia).
    rewrite G. destruct (if_scan items 0 true [] []) as [[[t f] rest]|]; reflexivity.
  Qed.

  Lemma if_inj c o rest s a : o = 99 \/ o = 100 ->
    m_exec_op m_lib_table c o rest s a = inj (Interp.exec_op ltab c o rest s a).
  Proof.
    intros [-> | ->]; open_both; rewrite if_gen_inj; unfold bind, mbind;
      destruct (op_if_gen _ s rest) as [[s1 r1]|]; reflexivity.
  Qed.

  (* ---------------------------------------------------------------- time locks *)

  (* CHECKLOCKTIMEVERIFY reaches Locktime(element) with element > 2^32-1 *)
  Definition cltv_raises (c : txctx) (s : stack) : bool :=
    negb (t_sequence c =? MAX_SEQUENCE) &&
    match s with
    | [] => false
    | e :: _ => (length e <=? 5)%nat && (decode_num e >? MAX_LOCKTIME)
    end.
  (* CHECKSEQUENCEVERIFY reaches Sequence(element) with element > 2^32-1 *)
  Definition csv_raises (c : txctx) (s : stack) : bool :=
    match s with
    | [] => false
    | e :: _ =>
        (length e <=? 5)%nat && (decode_num e >? MAX_SEQUENCE) && (Z.land (decode_num e) SEQ_DISABLE =? 0)
        && sq_relative (t_sequence c) && negb (t_version c <? 2)
    end.

  Lemma nat_ltb_leb a b : (a <? b)%nat = negb (b <=? a)%nat.
  Proof. destruct (Nat.ltb_spec a b), (Nat.leb_spec b a); try reflexivity; lia. Qed.

  Lemma cltv_mode c s :
    m_checklocktimeverify c s =
    if cltv_raises c s then MRaise EValue else inj (op_checklocktimeverify c s).
  Proof.
    unfold m_checklocktimeverify, op_checklocktimeverify, cltv_raises, guard, m_index.
    destruct (t_sequence c =? MAX_SEQUENCE); [reflexivity|]. cbn [negb andb].
    destruct s as [|e r]; [reflexivity|].
    assert (G : (zlen (e :: r) <? 1) = false) by (apply Z.ltb_ge; unfold zlen; cbn [length]; lia).
    assert (T1 : (-1 <? - zlen (e :: r)) = false) by (apply Z.ltb_ge; unfold zlen; cbn [length]; lia).
    assert (T2 : (zlen (e :: r) <=? -1) = false) by (apply Z.leb_gt; unfold zlen; cbn [length]; lia).
    rewrite G, T1, T2. lit. cbn [Z.to_nat nth_error mbind orb].
    rewrite nat_ltb_leb. destruct (length e <=? 5)%nat; [|reflexivity]. cbn [negb andb].
    unfold m_u32. destruct (decode_num e <? 0) eqn:E0.
    { assert ((decode_num e >? MAX_LOCKTIME) = false) as -> by (unfold MAX_LOCKTIME; lia). reflexivity. }
    cbn [orb]. destruct (decode_num e >? MAX_LOCKTIME); [reflexivity|]. cbn [mbind].
    unfold m_locktime_lt.
    destruct (lt_comparable (t_locktime c) (decode_num e)); [|reflexivity]. cbn [negb mbind].
    destruct (t_locktime c <? decode_num e); reflexivity.
  Qed.

  Lemma csv_mode c s :
    m_checksequenceverify c s =
    if csv_raises c s then MRaise EValue else inj (op_checksequenceverify c s).
  Proof.
    unfold m_checksequenceverify, op_checksequenceverify, csv_raises, guard, m_index.
    destruct s as [|e r]; [reflexivity|].
    assert (G : (zlen (e :: r) <? 1) = false) by (apply Z.ltb_ge; unfold zlen; cbn [length]; lia).
    assert (T1 : (-1 <? - zlen (e :: r)) = false) by (apply Z.ltb_ge; unfold zlen; cbn [length]; lia).
    assert (T2 : (zlen (e :: r) <=? -1) = false) by (apply Z.leb_gt; unfold zlen; cbn [length]; lia).
    rewrite G, T1, T2. lit. cbn [Z.to_nat nth_error mbind orb].
    rewrite nat_ltb_leb. destruct (length e <=? 5)%nat; [|reflexivity]. cbn [negb andb].
    unfold m_u32. destruct (decode_num e <? 0) eqn:E0.
    { assert ((decode_num e >? MAX_SEQUENCE) = false) as -> by (unfold MAX_SEQUENCE; lia). reflexivity. }
    cbn [orb].
    destruct (Z.land (decode_num e) SEQ_DISABLE =? 0); cbn [negb andb];
      [|rewrite ?andb_false_r; reflexivity].
    destruct (sq_relative (t_sequence c)); cbn [negb andb]; [|rewrite ?andb_false_r; reflexivity].
    destruct (t_version c <? 2); cbn [negb andb]; [rewrite ?andb_false_r; reflexivity|].
    rewrite !andb_true_r.
    change MAX_LOCKTIME with MAX_SEQUENCE.
    destruct (decode_num e >? MAX_SEQUENCE); [reflexivity|]. cbn [mbind].
    unfold m_sequence_lt.
    destruct (sq_comparable (t_sequence c) (decode_num e)); [|reflexivity]. cbn [negb mbind].
    destruct (Z.land (t_sequence c) SEQ_MASK <? Z.land (decode_num e) SEQ_MASK); reflexivity.
  Qed.

  (* ---------------------------------------------------------------- every integer command *)

  (* the keys of OP_CODE_FUNCTIONS *)
  Definition in_table (o : Z) : bool :=
    (o =? 0) || (o =? 79) || ((81 <=? o) && (o <=? 97)) || (o =? 99) || (o =? 100)
    || ((105 <=? o) && (o <=? 125)) || (o =? 130) || (o =? 135) || (o =? 136) || (o =? 139) || (o =? 140)
    || ((143 <=? o) && (o <=? 148)) || ((154 <=? o) && (o <=? 170)) || ((172 <=? o) && (o <=? 185)).

  Definition table_ops : list Z := stack_ops ++ [99; 100; 121; 122; 172; 173; 174; 175; 177; 178].

  Lemma in_table_cases o : in_table o = true -> In o table_ops.
  Proof.
    intros H.
    assert (R : 0 <= o <= 185).
    { unfold in_table in H.
      repeat match type of H with
             | (_ || _) = true => apply orb_true_iff in H as [H|H]
             end;
      repeat match goal with
             | H : (_ && _) = true |- _ => apply andb_true_iff in H as [? ?]
             end; lia. }
    assert (A : forallb (fun k => implb (in_table (Z.of_nat k)) (existsb (Z.eqb (Z.of_nat k)) table_ops))
                  (seq 0 186) = true) by (vm_compute; reflexivity).
    rewrite forallb_forall in A.
    specialize (A (Z.to_nat o)). rewrite Z2Nat.id in A by lia. rewrite H in A. cbn [implb] in A.
    assert (I : In (Z.to_nat o) (seq 0 186)) by (apply in_seq; lia).
    apply A in I. apply existsb_exists in I as (k & Hk & Ek). apply Z.eqb_eq in Ek. now subst k.
  Qed.

  Ltac b2p :=
    repeat match goal with
           | H : (_ || _) = false |- _ => apply orb_false_iff in H as [? ?]
           | H : (_ =? _) = false |- _ => apply Z.eqb_neq in H
           | H : (_ =? _) = true |- _ => apply Z.eqb_eq in H
           | H : (_ && _) = true |- _ => apply andb_true_iff in H as [? ?]
           | H : (_ <=? _) = true |- _ => apply Z.leb_le in H
           end.

  Lemma not_in_table o : in_table o = false -> ltab o = None /\ m_lib_table o = None.
  Proof.
    intros H. unfold in_table in H. b2p.
    repeat match goal with
           | H : (_ && _) = false |- _ => apply andb_false_iff in H; rewrite !Z.leb_gt in H
           end.
    split; unfold lib_table, op_code_functions, common_functions, m_lib_table, m_functions;
      repeat match goal with
             | |- context [if ?b then _ else _] =>
                 let E := fresh "E" in destruct b eqn:E; [exfalso; b2p; lia|]
             end; reflexivity.
  Qed.

  (* the exception an integer command raises, if any: a function of the op code, the context and
     the top of the stack only *)
  Definition step_raise (c : txctx) (o : Z) (s : stack) : option exn :=
    if negb (in_table o) then Some EKey
    else if (172 <=? o) && (o <=? 175) then Some ESigOp
    else if (o =? 177) && cltv_raises c s then Some EValue
    else if (o =? 178) && csv_raises c s then Some EValue
    else None.

  Lemma sig_collapse c o rest s a : In o [172; 173; 174; 175] ->
    Interp.exec_op ltab c o rest s a = Err.
  Proof.
    intros Hin. cbn [In] in Hin.
    repeat (destruct Hin as [<-|Hin]; [|]); try contradiction;
      unfold Interp.exec_op, lib_table, op_code_functions; lit; unfold bind;
      unfold op_checksigverify, op_checkmultisigverify, op_checksig, op_checkmultisig, bind, no_sigops;
      cbn [so_checksig so_multisig].
    - destruct s as [|x [|[|y0 y] r]]; reflexivity.
    - destruct s as [|x [|[|y0 y] r]]; reflexivity.
    - destruct s as [|e s1]; [reflexivity|].
      destruct (zlen s1 <? decode_num e + 1); [reflexivity|].
      destruct (pop_n (Z.to_nat (decode_num e)) s1) as [[secs [|em s3]]|]; try reflexivity.
      destruct (zlen s3 <? decode_num em + 1); [reflexivity|].
      destruct (pop_n (Z.to_nat (decode_num em)) s3) as [[sigs s4]|]; [|reflexivity].
      destruct (existsb _ sigs); [reflexivity|]. destruct s4; reflexivity.
    - destruct s as [|e s1]; [reflexivity|].
      destruct (zlen s1 <? decode_num e + 1); [reflexivity|].
      destruct (pop_n (Z.to_nat (decode_num e)) s1) as [[secs [|em s3]]|]; try reflexivity.
      destruct (zlen s3 <? decode_num em + 1); [reflexivity|].
      destruct (pop_n (Z.to_nat (decode_num em)) s3) as [[sigs s4]|]; [|reflexivity].
      destruct (existsb _ sigs); [reflexivity|]. destruct s4; reflexivity.
  Qed.

  (* THE failure-mode theorem for one integer command *)
  Theorem exec_mode c o rest s a :
    m_exec_op m_lib_table c o rest s a =
    match step_raise c o s with
    | Some e => MRaise e
    | None => inj (Interp.exec_op ltab c o rest s a)
    end.
  Proof.
    unfold step_raise. destruct (in_table o) eqn:T; cbn [negb].
    2:{ apply not_in_table in T as [_ T2]. unfold m_exec_op. now rewrite T2. }
    apply in_table_cases in T. unfold table_ops in T. apply in_app_or in T as [T|T].
    - rewrite (stack_op_inj c o rest s a T).
      assert (N : ((172 <=? o) && (o <=? 175) = false) /\ (o =? 177) = false /\ (o =? 178) = false).
      { unfold stack_ops in T. cbn [In] in T.
        repeat (destruct T as [<-|T]; [repeat split; reflexivity|]). contradiction. }
      destruct N as (-> & -> & ->). reflexivity.
    - cbn [In] in T.
      destruct T as [<-|[<-|[<-|[<-|T]]]]; lit;
        [apply if_inj; auto | apply if_inj; auto | apply pick_roll_inj; auto | apply pick_roll_inj; auto |].
      destruct T as [<-|[<-|[<-|[<-|T]]]]; lit; try reflexivity.
      destruct T as [<-|[<-|[]]]; lit; open_both.
      + rewrite cltv_mode. destruct (cltv_raises c s); [reflexivity|].
        unfold mbind, bind, inj. destruct (op_checklocktimeverify c s); reflexivity.
      + rewrite csv_mode. destruct (csv_raises c s); [reflexivity|].
        unfold mbind, bind, inj. destruct (op_checksequenceverify c s); reflexivity.
  Qed.

  Corollary exec_collapse c o rest s a :
    collapse (m_exec_op m_lib_table c o rest s a) = Interp.exec_op ltab c o rest s a.
  Proof.
    rewrite exec_mode. unfold step_raise.
    destruct (in_table o) eqn:T; cbn [negb].
    2:{ apply not_in_table in T as [T1 _]. unfold Interp.exec_op. now rewrite T1. }
    destruct ((172 <=? o) && (o <=? 175)) eqn:S1.
    { cbn [collapse]. symmetry. apply sig_collapse.
      apply andb_true_iff in S1 as [L U]. apply Z.leb_le in L, U. cbn [In]. lia. }
    destruct ((o =? 177) && cltv_raises c s) eqn:S2.
    { apply andb_true_iff in S2 as [E R]. apply Z.eqb_eq in E. subst o. cbn [collapse].
      unfold Interp.exec_op, lib_table, op_code_functions, common_functions; lit.
      pose proof (cltv_mode c s) as M. rewrite R in M.
      assert (X : collapse (m_checklocktimeverify c s) = collapse (MRaise EValue)) by now rewrite M.
      revert R. unfold cltv_raises, op_checklocktimeverify.
      destruct (t_sequence c =? MAX_SEQUENCE); [discriminate|]. destruct s as [|e r]; [discriminate|].
      cbn [negb andb]. rewrite nat_ltb_leb. intros R. apply andb_true_iff in R as [R1 R2]. rewrite R1.
      cbn [negb]. destruct (decode_num e <? 0); [reflexivity|]. rewrite R2. reflexivity. }
    destruct ((o =? 178) && csv_raises c s) eqn:S3.
    { apply andb_true_iff in S3 as [E R]. apply Z.eqb_eq in E. subst o. cbn [collapse].
      unfold Interp.exec_op, lib_table, op_code_functions, common_functions; lit.
      revert R. unfold csv_raises, op_checksequenceverify.
      destruct s as [|e r]; [discriminate|].
      rewrite nat_ltb_leb. intros R. repeat (apply andb_true_iff in R as [R ?R]).
      rewrite R. cbn [negb]. destruct (decode_num e <? 0); [reflexivity|].
      rewrite R2, R1. cbn [negb]. apply negb_true_iff in R0. rewrite R0, R3. reflexivity. }
    apply collapse_inj.
  Qed.

  (* ---------------------------------------------------------------- Script.evaluate *)

  Lemma final_collapse s : xcollapse (m_final_test s) = final_test s.
  Proof.
    unfold m_final_test, final_test. destruct s as [|e r]; [reflexivity|].
    assert (G : (zlen (e :: r) =? 0) = false) by (apply Z.eqb_neq; unfold zlen; cbn [length]; lia).
    rewrite G. cbn [m_pop]. destruct (decode_num e =? 0); reflexivity.
  Qed.

  (* the final test never raises *)
  Lemma final_no_raise s e : m_final_test s <> XRaise e.
  Proof.
    unfold m_final_test. destruct s as [|x r]; [discriminate|].
    destruct (zlen (x :: r) =? 0); [discriminate|]. cbn [m_pop]. destruct (decode_num x =? 0); discriminate.
  Qed.

  Theorem eval_collapse c ap aw f : forall cmds s a,
    xcollapse (m_eval_loop m_lib_table c ap aw f cmds s a) = eval_loop ltab c ap aw f cmds s a.
  Proof.
    induction f as [|f IH]; intros cmds s a.
    - destruct cmds; [apply final_collapse | reflexivity].
    - destruct cmds as [|cm rest]; [apply final_collapse|].
      cbn [m_eval_loop eval_loop]. destruct cm as [o|b].
      + rewrite <- (exec_collapse c o rest s a).
        destruct (m_exec_op m_lib_table c o rest s a) as [[[r1 s1] a1]| |e]; cbn [collapse];
          [apply IH | reflexivity | reflexivity].
      + destruct (special_after_push ap aw rest (b :: s)); [reflexivity | apply IH].
    Qed.

  Corollary evaluate_collapse c ap aw cmds :
    xcollapse (m_evaluate m_lib_table c ap aw cmds) = evaluate ltab c ap aw cmds.
  Proof. apply eval_collapse. Qed.
End Mode.

(* ------------------------------------------------------------------ which exception, where *)

Section Which.
  Variables ripemd160 sha1 sha256 : bytes -> bytes.
  Notation mtable := (m_lib_table ripemd160 sha1 sha256).

  Lemma step_raise_cases c o s e : step_raise c o s = Some e ->
    (e = EKey /\ in_table o = false) \/
    (e = ESigOp /\ 172 <= o <= 175) \/
    (e = EValue /\ o = 177 /\ cltv_raises c s = true) \/
    (e = EValue /\ o = 178 /\ csv_raises c s = true).
  Proof.
    unfold step_raise. destruct (in_table o) eqn:T; cbn [negb]; [|intros [= <-]; auto].
    destruct ((172 <=? o) && (o <=? 175)) eqn:S1.
    { intros [= <-]. apply andb_true_iff in S1 as [L U]. apply Z.leb_le in L, U. right; left. split; [reflexivity | lia]. }
    destruct ((o =? 177) && cltv_raises c s) eqn:S2.
    { intros [= <-]. apply andb_true_iff in S2 as [E R]. apply Z.eqb_eq in E. right; right; left. auto. }
    destruct ((o =? 178) && csv_raises c s) eqn:S3; [|discriminate].
    intros [= <-]. apply andb_true_iff in S3 as [E R]. apply Z.eqb_eq in E. right; right; right. auto.
  Qed.

  (* the guards are sufficient: no integer command ever raises IndexError, on any stack *)
  Theorem no_index_error c o rest s a : m_exec_op mtable c o rest s a <> MRaise EIndex.
  Proof.
    rewrite exec_mode. destruct (step_raise c o s) as [e|] eqn:E.
    - apply step_raise_cases in E. intros [= ->]. destruct E as [[E _]|[[E _]|[[E _]|[E _]]]]; discriminate.
    - destruct (Interp.exec_op _ c o rest s a); discriminate.
  Qed.

  (* KeyError exactly for the commands that are not keys of OP_CODE_FUNCTIONS *)
  Theorem key_error_iff c o rest s a : m_exec_op mtable c o rest s a = MRaise EKey <-> in_table o = false.
  Proof.
    rewrite exec_mode. split.
    - destruct (step_raise c o s) as [e|] eqn:E.
      + intros [= ->]. apply step_raise_cases in E.
        destruct E as [[_ E]|[[E _]|[[E _]|[E _]]]]; [exact E | discriminate..].
      + destruct (Interp.exec_op _ c o rest s a); discriminate.
    - intros T. unfold step_raise. rewrite T. reflexivity.
  Qed.

  (* ValueError exactly in the two time-lock op codes when Locktime(...) / Sequence(...) is reached
     with an operand above 2^32-1 *)
  Theorem value_error_iff c o rest s a :
    m_exec_op mtable c o rest s a = MRaise EValue <->
    (o = 177 /\ cltv_raises c s = true) \/ (o = 178 /\ csv_raises c s = true).
  Proof.
    rewrite exec_mode. split.
    - destruct (step_raise c o s) as [e|] eqn:E.
      + intros [= ->]. apply step_raise_cases in E.
        destruct E as [[E _]|[[E _]|[[_ E]|[_ E]]]]; [discriminate | discriminate | now left | now right].
      + destruct (Interp.exec_op _ c o rest s a); discriminate.
    - intros [[-> R] | [-> R]]; unfold step_raise; rewrite R; reflexivity.
  Qed.
End Which.
