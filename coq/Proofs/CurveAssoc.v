(* Proofs/CurveAssoc.v — a fast exhaustive associativity check for small curves: the addition
   table of all point pairs is computed once into a PositiveMap (each entry carries its own
   operands, so soundness needs no injectivity of the key), the triple loop then only does
   table lookups.  Plus the bundle [curve_laws] checked per curve and swept over prime ranges. *)
From Coq Require Import Znumtheory FMapPositive.
From V Require Import Base.Prelude Base.Ints Model.Pecc Proofs.GroupHyp Proofs.CurveSweep
  Proofs.SmallFields.

Section Assoc.
Variable C : curve.
Let p := cp C.

Definition pkey (P : point) : positive :=
  match P with None => 1%positive | Some (x, y) => Z.to_pos (x * p + y + 2) end.
Definition key2 (P Q : point) : positive :=
  Z.to_pos (Zpos (pkey P) * (p * p + 2) + Zpos (pkey Q)).

Definition entry : Type := (point * point * point)%type.
Definition good (m : PositiveMap.t entry) : Prop :=
  forall k P Q R, PositiveMap.find k m = Some (P, Q, R) -> R = addT C P Q.

Definition atab_step (m : PositiveMap.t entry) (PQ : point * point) : PositiveMap.t entry :=
  PositiveMap.add (key2 (fst PQ) (snd PQ)) (fst PQ, snd PQ, addT C (fst PQ) (snd PQ)) m.
Definition atab (pts : list point) : PositiveMap.t entry :=
  fold_left atab_step (list_prod pts pts) (PositiveMap.empty entry).

Lemma good_step m PQ : good m -> good (atab_step m PQ).
Proof.
  intros Hm k P Q R. unfold atab_step.
  destruct (Pos.eq_dec k (key2 (fst PQ) (snd PQ))) as [->|NE].
  - rewrite PositiveMap.gss. intros [= <- <- <-]. reflexivity.
  - rewrite PositiveMap.gso by exact NE. apply Hm.
Qed.

Lemma good_fold l m : good m -> good (fold_left atab_step l m).
Proof. revert m. induction l as [|x l IH]; cbn; intros m Hm; [exact Hm|]. apply IH, good_step, Hm. Qed.

Lemma good_atab pts : good (atab pts).
Proof. apply good_fold. intros k P Q R. rewrite PositiveMap.gempty. discriminate. Qed.

Definition tadd (T : PositiveMap.t entry) (P Q : point) : option point :=
  match PositiveMap.find (key2 P Q) T with
  | Some (P', Q', R) => if point_eqb P P' && point_eqb Q Q' then Some R else None
  | None => None
  end.

Lemma tadd_sound pts P Q R : tadd (atab pts) P Q = Some R -> R = addT C P Q.
Proof.
  unfold tadd. destruct (PositiveMap.find _ _) as [[[P' Q'] R']|] eqn:E; [|discriminate].
  destruct (point_eqb P P' && point_eqb Q Q') eqn:E2; [|discriminate].
  apply andb_true_iff in E2 as [E3 E4]. apply point_eqb_eq in E3, E4. subst P' Q'.
  intros [= <-]. exact (good_atab pts _ _ _ _ E).
Qed.

Definition chk_assoc_fast : bool :=
  let pts := points C in let T := atab pts in
  forallb (fun P => forallb (fun Q =>
    match tadd T P Q with
    | None => false
    | Some PQ =>
        forallb (fun R =>
          match tadd T Q R with
          | None => false
          | Some QR =>
              match tadd T PQ R, tadd T P QR with
              | Some l, Some r => point_eqb l r
              | _, _ => false
              end
          end) pts
    end) pts) pts.

Lemma chk_assoc_fast_sound : chk_assoc_fast = true ->
  forall P Q R, valid C P -> valid C Q -> valid C R ->
  addT C (addT C P Q) R = addT C P (addT C Q R).
Proof.
  intros H P Q R HP HQ HR. unfold chk_assoc_fast in H. cbv zeta in H.
  pose proof (forallb2 _ _ _ H P Q (valid_in_points _ _ HP) (valid_in_points _ _ HQ)) as H1.
  cbv beta in H1.
  destruct (tadd (atab (points C)) P Q) as [PQ|] eqn:E1; [|discriminate].
  rewrite forallb_forall in H1. specialize (H1 R (valid_in_points _ _ HR)). cbv beta in H1.
  destruct (tadd (atab (points C)) Q R) as [QR|] eqn:E2; [|discriminate].
  destruct (tadd (atab (points C)) PQ R) as [l|] eqn:E3; [|discriminate].
  destruct (tadd (atab (points C)) P QR) as [r|] eqn:E4; [|discriminate].
  apply tadd_sound in E1, E2, E3, E4. apply point_eqb_eq in H1. subst. exact H1.
Qed.

(* the group laws of the model's padd on the valid points of C (without the order facts) *)
Definition curve_laws : Prop :=
  (forall P Q, valid C P -> valid C Q -> padd C P Q = Ok (addT C P Q) /\ valid C (addT C P Q)) /\
  (forall P Q, valid C P -> valid C Q -> addT C P Q = addT C Q P) /\
  (forall P Q R, valid C P -> valid C Q -> valid C R ->
     addT C (addT C P Q) R = addT C P (addT C Q R)) /\
  (forall P, addT C None P = P /\ addT C P None = P) /\
  (forall P, valid C P -> valid C (negT C P) /\ addT C P (negT C P) = None) /\
  (forall P, valid C P -> rmul_raw C 2 P = Ok (addT C P P)).

Definition chk_curve : bool :=
  chk_add_ok C && chk_comm C && chk_assoc_fast && chk_neg C && chk_double C.

Lemma chk_curve_sound : chk_curve = true -> curve_laws.
Proof.
  unfold chk_curve. intros H.
  apply andb_true_iff in H as [H H5]. apply andb_true_iff in H as [H H4].
  apply andb_true_iff in H as [H H3]. apply andb_true_iff in H as [H1 H2].
  repeat split.
  - now apply chk_add_ok_sound.
  - now apply chk_add_ok_sound.
  - now apply chk_comm_sound.
  - now apply chk_assoc_fast_sound.
  - apply addT_0_r.
  - now apply chk_neg_sound.
  - now apply chk_neg_sound.
  - now apply chk_double_sound.
Qed.
End Assoc.

(* y^2 = x^3 + 7 is singular over F_3 and F_7 (discriminant -2^4 3^3 7^2): excluded *)
Definition chk_curve_range (lo : Z) (cnt : nat) : bool :=
  forallb (fun p => negb (prime_b p) || (p =? 3) || (p =? 7) || chk_curve (fcurve p)) (zrange lo cnt).

Lemma chk_curve_range_sound lo cnt : chk_curve_range lo cnt = true ->
  forall p, prime p -> lo <= p < lo + Z.of_nat cnt -> p <> 3 -> p <> 7 -> curve_laws (fcurve p).
Proof.
  intros H p Hp Hr H3 H7. unfold chk_curve_range in H. rewrite forallb_forall in H.
  specialize (H p (in_zrange _ _ _ Hr)). rewrite (prime_b_complete _ Hp) in H.
  apply Z.eqb_neq in H3, H7. rewrite H3, H7 in H. cbn in H.
  now apply chk_curve_sound.
Qed.
