(* exhaustive group-law sweep (all point pairs, all triples for associativity) of y^2 = x^3 + 7
   over F_p for the primes 68 <= p < 84 (p = 7 excluded: singular) *)
From V Require Import Base.Prelude Model.Pecc Proofs.CurveSweep Proofs.SmallFields Proofs.CurveAssoc.
Lemma curve_range_68_84 : chk_curve_range 68 16 = true.
Proof. vm_cast_no_check (eq_refl true). Qed.
