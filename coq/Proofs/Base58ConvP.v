(* Proofs/Base58ConvP.v — the Base58 conversion loop of raw_decode_base58 is INJECTIVE on strings:
   whenever b58_to_bytes s = Ok c (c not empty), encode_base58 c = Ok s.  Together with
   Proofs/Base58P.v (b58_to_bytes (encode_base58 c) = c) the two loops are mutually inverse
   bijections between alphabet strings and non-empty byte strings.  Used by Proofs/HdStrP.v for
   the string-level converse "parse(s).xprv() = s". *)
From V Require Import Base.Prelude Base.Ints Model.Base58 Proofs.Base58P.

Lemma index_of_nth c l : forall i j, index_of c l i = Ok j -> nth (Z.to_nat (j - i)) l 0 = c /\ i <= j.
Proof.
  induction l as [|x r IH]; intros i j H; cbn [index_of] in H; [discriminate|].
  destruct (x =? c) eqn:E.
  - injection H as <-. apply Z.eqb_eq in E. rewrite Z.sub_diag. cbn. split; [exact E|lia].
  - destruct (IH (i + 1) j H) as [A B]. split; [|lia].
    replace (Z.to_nat (j - i)) with (S (Z.to_nat (j - (i + 1)))) by lia. exact A.
Qed.

(* every alphabet character is b58_char of its index *)
Lemma alphabet_char x : In x b58_alphabet -> exists d, 0 <= d < 58 /\ b58_char d = x.
Proof.
  intros H. destruct (index_of_total x b58_alphabet 0 H) as [j [E Hj]].
  change (zlen b58_alphabet) with 58 in Hj.
  destruct (index_of_nth x b58_alphabet 0 j E) as [A _]. rewrite Z.sub_0_r in A.
  exists j. split; [lia|exact A].
Qed.

Lemma alphabet_digits s : Forall (fun c => In c b58_alphabet) s ->
  exists ds, s = map b58_char ds /\ Forall (digit 58) ds.
Proof.
  induction s as [|x r IH]; intros HF; [exists []; split; [reflexivity|constructor]|].
  inversion HF as [|? ? Hx HF']; subst. destruct (IH HF') as [ds [-> Hds]].
  destruct (alphabet_char x Hx) as [d [Hd <-]].
  exists (d :: ds). split; [reflexivity|]. constructor; assumption.
Qed.

(* leading '1's, then a canonical digit list *)
Lemma alphabet_split s : Forall (fun c => In c b58_alphabet) s ->
  exists z ds, s = repeatz 49 z ++ map b58_char ds /\ canonical 58 ds.
Proof.
  induction s as [|x r IH]; intros HF.
  - exists O, []. split; [reflexivity|]. split; [constructor|exact I].
  - inversion HF as [|? ? Hx HF']; subst. destruct (Z.eq_dec x 49) as [->|Hne].
    + destruct (IH HF') as [z [ds [-> Hc]]]. exists (S z), ds. split; [reflexivity|exact Hc].
    + destruct (alphabet_digits r HF') as [ds [-> Hds]].
      destruct (alphabet_char x Hx) as [d [Hd <-]].
      exists O, (d :: ds). split; [reflexivity|]. split; [constructor; assumption|].
      cbn. intros ->. apply Hne. reflexivity.
Qed.

Lemma count_lz_zeros z t : head_nz t -> count_lz (repeatz 0 z ++ t) = z.
Proof.
  intros H. induction z as [|z IH]; cbn [repeatz app count_lz].
  - destruct t as [|b r]; [reflexivity|]. cbn in H. cbn [count_lz].
    destruct (b =? 0) eqn:E; [apply Z.eqb_eq in E; congruence|reflexivity].
  - change (0 =? 0) with true. cbn iota. now rewrite IH.
Qed.

Lemma pow_lt_inv B a b : 1 < B -> B ^ Z.of_nat a < B ^ Z.of_nat b -> (a < b)%nat.
Proof. intros HB H. apply Z.pow_lt_mono_r_iff in H; lia. Qed.

(* what the conversion returns, and that encode_base58 undoes it *)
Theorem b58_to_bytes_spec s c : b58_to_bytes s = Ok c ->
  bytes_ok c /\ (c <> [] -> encode_base58 c = Ok s).
Proof.
  intros E.
  assert (HF : Forall (fun ch => In ch b58_alphabet) s) by (apply b58_to_bytes_ok_iff; eauto).
  destruct (alphabet_split s HF) as [z [ds [Es Cd]]].
  pose proof (val_upper 58 ds ltac:(lia) (proj1 Cd)) as U.
  assert (Hlen : (length ds <= length s)%nat).
  { rewrite Es, app_length, map_length. lia. }
  assert (Hfuel : 0 <= val 58 ds < 256 ^ Z.of_nat (length s)).
  { pose proof (pow_58_256 (length ds)).
    assert (256 ^ Z.of_nat (length ds) <= 256 ^ Z.of_nat (length s)) by (apply Z.pow_le_mono_r; lia).
    lia. }
  destruct (digits_be_spec 256 ltac:(lia) (length s) (val 58 ds) [] Hfuel)
    as [t [E1 [E2 [Ct [_ Lt]]]]].
  rewrite app_nil_r in E1.
  assert (Ec : c = repeatz 0 z ++ t).
  { unfold b58_to_bytes in E. rewrite Es in E at 1. rewrite dec_ones, (dec_canonical ds _ Cd) in E.
    cbn [bind] in E. rewrite bytes_be_min_digits, E1 in E by lia. cbn [bind Nat.add] in E.
    now injection E as <-. }
  split.
  - rewrite Ec. apply bytes_ok_app. split; [apply Forall_repeatz; unfold byte_ok; lia|exact (proj1 Ct)].
  - intros Hne. unfold encode_base58. destruct c as [|b0 c0]; [congruence|].
    rewrite Ec. rewrite (count_lz_zeros z t (proj2 Ct)).
    assert (EV : from_be (repeatz 0 z ++ t) = val 58 ds).
    { rewrite from_be_val. unfold val at 1. rewrite horner_zeros. exact E2. }
    rewrite EV.
    assert (Ld : (length ds <= 2 * length (repeatz 0 z ++ t))%nat).
    { rewrite app_length. destruct ds as [|d r]; [cbn; lia|].
      pose proof (val_lower 58 d r ltac:(lia) Cd) as L.
      pose proof (val_upper 256 t ltac:(lia) (proj1 Ct)) as U2. rewrite E2 in U2.
      pose proof (pow_256_58 (length t)).
      assert (length r < 2 * length t)%nat by (apply (pow_lt_inv 58); lia).
      cbn [length]. lia. }
    rewrite (digits_be_val 58 ltac:(lia) ds Cd _ [] Ld). cbn [bind]. now rewrite app_nil_r, Es.
Qed.

(* the conversion is injective *)
Corollary b58_to_bytes_inj s s' c : c <> [] -> b58_to_bytes s = Ok c -> b58_to_bytes s' = Ok c -> s = s'.
Proof.
  intros Hne E E'. destruct (b58_to_bytes_spec s c E) as [_ A]. destruct (b58_to_bytes_spec s' c E') as [_ A'].
  specialize (A Hne). specialize (A' Hne). congruence.
Qed.

(* Base58Check: an accepted string is the encoding of the payload it decodes to *)
Theorem raw_decode_base58_encode (hash256 : bytes -> bytes) s b :
  raw_decode_base58 hash256 s = Ok b ->
  (forall x, length (hash256 x) = 32%nat) ->
  bytes_ok b /\ encode_base58_checksum hash256 b = Ok s.
Proof.
  intros H Hl. apply base58check_accept_iff in H as [c [E [Eb Ec]]].
  destruct (b58_to_bytes_spec s c E) as [Hc A].
  assert (Es : but_last4 c ++ last4 c = c) by (unfold but_last4, last4; apply firstn_skipn).
  split.
  - subst b. unfold but_last4. apply bytes_ok_firstn. exact Hc.
  - unfold encode_base58_checksum. rewrite Ec. subst b. rewrite Es. apply A.
    intros ->. apply (f_equal (@length Z)) in Ec. rewrite firstn_length, Hl in Ec. cbn in Ec. lia.
Qed.
