(* Proofs/VerifyCompleteP.v — completeness of m-of-n spends (C06): the canonical P2SH and P2WSH
   multisig spends are accepted whenever OP_CHECKMULTISIG's oracle accepts the signatures. *)
From V Require Import Base.Prelude Base.Ints Model.Helper Model.Script Model.Op Model.Interp
  Model.Pecc Model.Taproot Model.Verify Proofs.OpP Proofs.MultisigP Proofs.VerifyP.

Section Complete.
Variable C : curve.
Variables ripemd160 sha1 sha256 hash160 hash256 : bytes -> bytes.
Variable so : sigops.
Variable c : txctx.

Notation vloopw w := (vloop C ripemd160 sha1 sha256 hash160 hash256 so c w).
Notation table := (table ripemd160 sha1 sha256 hash160 hash256 so).

Definition nonempty_sigs (sigs : list bytes) : bool :=
  negb (existsb (fun sg : bytes => match sg with [] => true | _ => false end) sigs).

(* the script itself, from a stack holding the signatures (pop order), the dummy element and
   anything below *)
Lemma multisig_suffix_complete w m keys sigs dummy r a k :
  1 <= m <= 16 -> 1 <= zlen keys <= 16 -> zlen sigs = m -> nonempty_sigs sigs = true ->
  so_multisig so (rev keys) sigs = Ok true ->
  vloopw w (length keys + (3 + k)) (multisig_script m keys) (sigs ++ dummy :: r) a (fl_off false) = OTrue.
Proof.
  intros Hm Hn Hs Hne Hok. unfold multisig_script.
  replace (length keys + (3 + k))%nat with (S (length keys + (2 + k))) by lia.
  rewrite vloop_op_step. cbn [f_tap fl_off]. unfold exec_op.
  rewrite (table_small_num ripemd160 sha1 sha256 hash160 hash256 so m Hm). cbn [op_push_num bind].
  rewrite vloop_pushes.
  change (2 + k)%nat with (S (S k)).
  rewrite vloop_op_step. cbn [f_tap fl_off]. unfold exec_op.
  rewrite (table_small_num ripemd160 sha1 sha256 hash160 hash256 so (zlen keys) Hn). cbn [op_push_num bind].
  rewrite vloop_op_step. cbn [f_tap fl_off]. unfold exec_op.
  change (table false 174) with (Some (FTx (fun _ => op_checkmultisig so))). cbv iota beta.
  unfold op_checkmultisig. rewrite decode_encode.
  assert (zlen (rev keys ++ encode_num m :: sigs ++ dummy :: r) <? zlen keys + 1 = false) as E1.
  { apply Z.ltb_ge. unfold zlen. rewrite app_length, rev_length. cbn [length]. lia. }
  rewrite E1.
  assert (Z.to_nat (zlen keys) = length (rev keys)) as Hk
      by (unfold zlen; rewrite Nat2Z.id, rev_length; reflexivity).
  rewrite Hk, pop_n_app. cbn [bind]. rewrite decode_encode.
  assert (zlen (sigs ++ dummy :: r) <? m + 1 = false) as E2.
  { apply Z.ltb_ge. unfold zlen in *. rewrite app_length. cbn [length]. lia. }
  rewrite E2.
  assert (Z.to_nat m = length sigs) as Hms by (unfold zlen in Hs; lia).
  rewrite Hms, pop_n_app. cbn [bind].
  unfold nonempty_sigs in Hne. apply negb_true_iff in Hne. rewrite Hne.
  rewrite Hok. cbn [bind].
  destruct k; reflexivity.
Qed.

Lemma pushes_p2sh w l : forall fuel rest s a,
  (4 <= length rest)%nat ->
  vloopw w (length l + fuel) (map Push l ++ rest) s a (fl_p2sh false) =
  vloopw w fuel rest (rev l ++ s) a (fl_p2sh false).
Proof.
  induction l as [|b l IH]; intros fuel rest s a Hr; [reflexivity|].
  cbn [length map app plus]. rewrite vloop_push_step.
  rewrite (after_push_p2sh_long C sha256 hash160 so w) by (rewrite app_length; lia).
  rewrite IH by exact Hr. cbn [rev]. now rewrite <- app_assoc.
Qed.

(* P2SH m-of-n: scriptSig  OP_0 <sig_1> ... <sig_m> <redeem script>  *)
Theorem p2sh_multisig_complete w m keys sigs b :
  1 <= m <= 16 -> 1 <= zlen keys <= 16 -> zlen sigs = m -> nonempty_sigs sigs = true ->
  length (hash160 b) = 20%nat ->
  parse_cmds b = Ok (multisig_script m keys) ->
  so_multisig so (rev keys) (rev sigs) = Ok true ->
  verify_input C ripemd160 sha1 sha256 hash160 hash256 so c w
    (Op 0 :: map Push sigs ++ [Push b]) (p2sh_script (hash160 b)) = OTrue.
Proof.
  intros Hm Hn Hs Hne Hl Hp Hok. unfold verify_input, p2sh_script.
  cbn [is_p2wpkh is_p2wsh is_p2tr is_p2sh orb]. rewrite Hl. cbn [Nat.eqb].
  assert (last (Op 0 :: map Push sigs ++ [Push b]) (Op 0) = Push b) as ->.
  { change (Op 0 :: map Push sigs ++ [Push b]) with ((Op 0 :: map Push sigs) ++ [Push b]). apply last_last. }
  assert (existsb is_int_above_96 (Op 0 :: map Push sigs ++ [Push b]) = false) as ->.
  { cbn [existsb is_int_above_96]. rewrite existsb_app. cbn [existsb is_int_above_96 orb].
    assert (existsb is_int_above_96 (map Push sigs) = false) as ->; [|reflexivity].
    clear. induction sigs; cbn; auto. }
  rewrite Hp.
  assert (is_p2wpkh (multisig_script m keys) || is_p2wsh (multisig_script m keys) = false) as ->.
  { unfold multisig_script. cbn [is_p2wpkh is_p2wsh].
    destruct (80 + m) as [|q|q] eqn:E; try lia; try reflexivity. }
  unfold evaluate_full.
  set (cmds := (Op 0 :: map Push sigs ++ [Push b]) ++ [Op 169; Push (hash160 b); Op 135]).
  assert (exists k, fuel_for w cmds = (1 + (length sigs + (1 + (length keys + (3 + k)))))%nat) as [k ->].
  { assert (length keys <= 16)%nat by (unfold zlen in Hn; lia).
    assert (length sigs <= 16)%nat by (unfold zlen in Hs; lia).
    unfold fuel_for. exists (2 * total_size cmds + 2 * witness_size w + 64
                             - (1 + (length sigs + (1 + (length keys + 3)))))%nat. lia. }
  unfold cmds.
  change {| f_p2sh := true; f_wit := false; f_tap := false |} with (fl_p2sh false).
  cbn [app plus]. rewrite vloop_op_step. cbn [f_tap fl_p2sh]. unfold exec_op.
  change (table false 0) with (Some (FStack (op_push_num 0))). cbv iota beta.
  cbn [op_push_num bind]. change (encode_num 0) with (@nil Z).
  rewrite <- app_assoc.
  rewrite pushes_p2sh by (cbn; lia).
  cbn [app plus]. rewrite vloop_push_step.
  unfold after_push, p2sh_rule. cbn [f_p2sh fl_p2sh andb]. rewrite Hl. cbn [Nat.eqb].
  rewrite beq_refl. rewrite Hp. cbn [bind witness_rule f_wit negb].
  change {| f_p2sh := false; f_wit := false; f_tap := false |} with (fl_off false).
  apply multisig_suffix_complete; auto.
  - unfold zlen in *. now rewrite rev_length.
  - unfold nonempty_sigs in *. rewrite negb_true_iff in *.
    clear -Hne. induction sigs as [|x l IH]; [reflexivity|].
    cbn [existsb] in Hne. apply orb_false_iff in Hne as [H1 H2].
    cbn [rev]. rewrite existsb_app. cbn [existsb]. rewrite (IH H2), H1. reflexivity.
Qed.


(* P2WSH m-of-n: empty scriptSig, witness  <> <sig_1> ... <sig_m> <witness script>  *)
Theorem p2wsh_multisig_complete m keys sigs ws :
  1 <= m <= 16 -> 1 <= zlen keys <= 16 -> zlen sigs = m -> nonempty_sigs sigs = true ->
  length (sha256 ws) = 32%nat ->
  parse_cmds ws = Ok (multisig_script m keys) ->
  so_multisig so (rev keys) (rev sigs) = Ok true ->
  verify_input C ripemd160 sha1 sha256 hash160 hash256 so c ([] :: sigs ++ [ws])
    [] (p2wsh_script (sha256 ws)) = OTrue.
Proof.
  intros Hm Hn Hs Hne Hl Hp Hok. unfold verify_input, p2wsh_script.
  cbn [is_p2wpkh is_p2wsh]. rewrite Hl. cbn [Nat.eqb orb app]. unfold evaluate_full.
  set (w := [] :: sigs ++ [ws]).
  assert (exists k, fuel_for w [Op 0; Push (sha256 ws)] = (2 + (length ([] :: sigs) + (length keys + (3 + k))))%nat) as [k ->].
  { assert (length keys <= 16)%nat by (unfold zlen in Hn; lia).
    unfold fuel_for. cbn [total_size fold_right push_size].
    assert (length sigs + 2 <= witness_size w)%nat as Hw.
    { unfold w, witness_size. cbn [fold_right length]. clear.
      induction sigs as [|x l IH]; cbn [app fold_right length]; lia. }
    exists (2 * (1 + (S (length (sha256 ws)) + 0)) + 2 * witness_size w + 64
            - (2 + (length ([] :: sigs) + (length keys + 3))))%nat. cbn [length]. lia. }
  cbn [plus]. rewrite vloop_op_step. cbn [f_tap]. unfold exec_op.
  change (table false 0) with (Some (FStack (op_push_num 0))).
  cbv iota beta. cbn [op_push_num bind]. change (encode_num 0) with (@nil Z).
  rewrite vloop_push_step.
  unfold after_push, p2sh_rule. cbn [bind f_wit f_p2sh f_tap witness_rule negb]. rewrite Hl. cbn [Nat.eqb].
  assert (last w [] = ws) as Hlast.
  { unfold w. change ([] :: sigs ++ [ws]) with (([] :: sigs) ++ [ws]). apply last_last. }
  assert (removelast w = [] :: sigs) as Hrl.
  { unfold w. change ([] :: sigs ++ [ws]) with (([] :: sigs) ++ [ws]). apply removelast_last. }
  unfold w at 1. cbv iota beta. fold w. rewrite Hlast, Hrl, beq_refl, Hp. cbn [bind app].
  change {| f_p2sh := false; f_wit := false; f_tap := false |} with (fl_off false).
  change (Push [] :: map Push sigs ++ multisig_script m keys) with (map Push ([] :: sigs) ++ multisig_script m keys).
  change (S (length sigs)) with (length ([] :: sigs)).
  rewrite vloop_pushes.
  cbn [rev]. rewrite <- app_assoc. cbn [app].
  apply multisig_suffix_complete; auto.
  - unfold zlen in *. now rewrite rev_length.
  - unfold nonempty_sigs in *. rewrite negb_true_iff in *.
    clear -Hne. induction sigs as [|x l IH]; [reflexivity|].
    cbn [existsb] in Hne. apply orb_false_iff in Hne as [H1 H2].
    cbn [rev]. rewrite existsb_app. cbn [existsb]. rewrite (IH H2), H1. reflexivity.
Qed.

End Complete.
