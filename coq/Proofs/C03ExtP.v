(* Proofs/C03ExtP.v — C03 statements that connect layers, derived from [group_laws C]:
   generic Point.__rmul__ and S256Point.__rmul__ agree on curve points (the reduction of the coefficient
   mod n is invisible), even_point / parity, and the compositions a user sees:
   secret -> public point -> SEC bytes -> parse, x-only -> parse = even_point, sums of decoded keys. *)
From Coq Require Import ZArith Znumtheory Lia.
From V Require Import Base.Prelude Base.Ints Base.Fermat Model.Pecc Proofs.GroupHyp Proofs.CurveSweep
  Proofs.SmallFields Proofs.ScalarOfGroup Proofs.C03P Proofs.PeccEnc Proofs.CurveGeneral Proofs.CurveLawsP
  Proofs.EncGeneralP.
Open Scope Z_scope.

Ltac Zify.zify_post_hook ::= Z.to_euclidean_division_equations.

(* the constructor S256Point(x, y) from ints (range check of S256Field, then the curve equation of Point.__init__)
   accepts exactly the curve points *)
Theorem mk_point_int_iff C x y P : mk_point_int C x y = Ok P <-> P = Some (x, y) /\ valid C (Some (x, y)).
Proof.
  unfold mk_point_int, mk_point. cbn [valid]. split.
  - destruct (felem_ok C x); [|discriminate]. destruct (felem_ok C y); [|discriminate]. cbn [andb].
    destruct (on_curve C x y); [|discriminate]. intros [= <-]. auto.
  - intros (-> & -> & -> & ->). reflexivity.
Qed.

Theorem mk_point_int_err_iff C x y : mk_point_int C x y = Err <-> ~ valid C (Some (x, y)).
Proof.
  split.
  - intros E HV. assert (H : mk_point_int C x y = Ok (Some (x, y))) by (apply mk_point_int_iff; auto). congruence.
  - intros HN. destruct (mk_point_int C x y) as [P|] eqn:E; [|reflexivity].
    apply mk_point_int_iff in E as [_ HV]. contradiction.
Qed.

Section Ext.
Variable C : curve.
Hypothesis GL : group_laws C.
Let n := cn C.
Let p := cp C.

Let SL : scalar_laws C := scalar_of_group C GL.

(* k * P through the generic loop (no reduction, k >= 0 — k >= n, k >= 2^256 included) and through
   S256Point.__rmul__ (coefficient reduced mod n first) give the same point *)
Theorem rmul_raw_eq_rmul k P : 0 <= k -> valid C P -> rmul_raw C k P = rmul C k P.
Proof.
  intros Hk HP. rewrite (rmul_is_iterated_add C GL k P Hk HP).
  rewrite (rmul_spec C GL k P HP). f_equal. exact (smul_mod C GL k P Hk HP).
Qed.

(* ... so the loop run on k and on k mod n agree, although it executes a different number of steps *)
Theorem rmul_raw_mod k P : 0 <= k -> valid C P -> rmul_raw C k P = rmul_raw C (k mod n) P.
Proof. intros Hk HP. now rewrite rmul_raw_eq_rmul. Qed.

(* ---------------- parity / even_point ---------------- *)
Lemma gl_p_odd2 : p mod 2 = 1.
Proof.
  pose proof (gl_p_odd C GL) as H2. fold p in H2.
  destruct (Z.eq_dec (p mod 2) 0) as [E|NE]; [exfalso|lia].
  apply Z.mod_divide in E; [|lia].
  destruct (prime_divisors p (gl_p_prime C GL) 2 E) as [?|[?|[?|?]]]; lia.
Qed.

Theorem parity_spec x y : parity (Some (x, y)) = Ok (y mod 2) /\ parity None = Err.
Proof. split; reflexivity. Qed.

(* even_point: the point itself when y is even, (x, p - y) otherwise; AttributeError on infinity *)
Theorem even_point_spec x y : valid C (Some (x, y)) ->
  even_point C (Some (x, y)) = Ok (Some (x, even_lift C y)) /\
  valid C (Some (x, even_lift C y)) /\ even_lift C y mod 2 = 0 /\
  xonly (Some (x, even_lift C y)) = xonly (Some (x, y)).
Proof.
  intros HV. pose proof gl_p_odd2 as Hodd. pose proof (gl_p_odd C GL) as Hp2. fold p in Hp2.
  destruct HV as (Hx & Hy & Hon). pose proof Hy as Hy'. apply felem_ok_range in Hy'. fold p in Hy'.
  assert (HV : valid C (Some (x, y))) by (cbn; auto).
  unfold even_point, even_lift. cbn [parity bind]. fold p.
  destruct (y mod 2 =? 1) eqn:E1; [apply Z.eqb_eq in E1|apply Z.eqb_neq in E1].
  - assert (E0 : (y mod 2 =? 0) = false) by (apply Z.eqb_neq; lia). rewrite E0.
    assert (En : (- y) mod p = p - y) by (symmetry; apply Z.mod_unique with (q := -1); lia).
    unfold pneg. destruct (sl_mul_ok C SL (-1) _ HV) as [E _]. rewrite E.
    rewrite (sl_mul_neg1 C SL _ HV). cbn [negT]. fold p. rewrite En.
    split; [reflexivity|]. pose proof (sl_neg_valid C SL _ HV) as HN. cbn [negT] in HN. fold p in HN.
    rewrite En in HN. split; [exact HN|]. split; [lia|reflexivity].
  - assert (E0 : (y mod 2 =? 0) = true) by (apply Z.eqb_eq; lia). rewrite E0.
    split; [reflexivity|]. split; [exact HV|]. split; [lia|reflexivity].
Qed.

Theorem even_point_inf : even_point C None = Err.
Proof. reflexivity. Qed.

Theorem even_point_idem x y : valid C (Some (x, y)) ->
  exists E, even_point C (Some (x, y)) = Ok E /\ even_point C E = Ok E.
Proof.
  intros HV. destruct (even_point_spec x y HV) as (E1 & V1 & Hev & _).
  exists (Some (x, even_lift C y)). split; [exact E1|].
  destruct (even_point_spec x _ V1) as (E2 & _). rewrite E2. do 3 f_equal.
  unfold even_lift at 1. apply Z.eqb_eq in Hev. now rewrite Hev.
Qed.

(* ---------------- compositions (a = 0, p = 3 mod 4, p < 2^256) ---------------- *)
Section Codec.
Hypothesis Ha : ca C = 0.
Hypothesis Hp4 : p mod 4 = 3.
Hypothesis Hp256 : p < pow256 32.

(* parse(P.xonly()) = P.even_point() *)
Theorem parse_xonly_is_even_point x y : valid C (Some (x, y)) -> x <> 0 ->
  parse_point C (xonly (Some (x, y))) = even_point C (Some (x, y)).
Proof.
  intros HV Hx0. destruct (even_point_spec x y HV) as (E & _). rewrite E.
  unfold parse_point. cbn [xonly]. rewrite to_be_length. change (32 =? 32)%nat with true. cbv iota.
  exact (parse_xonly_xonly_gen C (gl_p_prime C GL) Ha Hp4 Hp256 x y HV Hx0).
Qed.

(* secret -> PrivateKey(secret).point -> sec -> parse gives the point back, both compressions;
   the point is never infinity for 1 <= secret <= n-1 *)
Theorem pubkey_sec_parse secret c P : pubkey C secret = Ok P ->
  valid C P /\ P <> None /\ exists s, sec P c = Ok s /\ parse_point C s = Ok P /\ parse_sec C s = Ok P.
Proof.
  unfold pubkey. fold n. destruct ((n - 1 <? secret) || (secret <? 1)) eqn:Er; [discriminate|].
  apply orb_false_iff in Er as [E1 E2]. apply Z.ltb_ge in E1, E2. intros H.
  destruct (sl_mul_ok C SL secret (G C) (gl_G_valid C GL)) as [E V]. rewrite E in H. injection H as <-.
  split; [exact V|].
  assert (HN : mulT C secret (G C) <> None).
  { intros E0. apply (sl_G_order C SL) in E0. fold n in E0. rewrite Z.mod_small in E0; lia. }
  split; [exact HN|]. destruct (mulT C secret (G C)) as [[x y]|] eqn:EP; [|congruence].
  assert (Hy0 : y <> 0) by exact (sl_no_y0 C SL x y V).
  destruct (sec (Some (x, y)) c) as [s|] eqn:Es; [|destruct c; discriminate].
  exists s. split; [reflexivity|]. split.
  - exact (parse_point_sec_gen C (gl_p_prime C GL) Ha Hp4 Hp256 x y c s V (fun _ => Hy0) Es).
  - exact (parse_sec_sec_gen C (gl_p_prime C GL) Ha Hp4 Hp256 x y c s V (fun _ => Hy0) Es).
Qed.

(* keys that travelled as bytes add up like their secrets: parse(sec(aG)) + parse(sec(bG)) = (a+b)G *)
Theorem encoded_keys_add a b ca' cb' A B sa sb :
  pubkey C a = Ok A -> pubkey C b = Ok B -> sec A ca' = Ok sa -> sec B cb' = Ok sb ->
  exists S, (A' <- parse_point C sa ;; B' <- parse_point C sb ;; padd C A' B') = Ok S /\
            rmul C (a + b) (G C) = Ok S /\ valid C S.
Proof.
  intros HA HB Hsa Hsb.
  destruct (pubkey_sec_parse a ca' A HA) as (VA & _ & s1 & E1 & P1 & _).
  destruct (pubkey_sec_parse b cb' B HB) as (VB & _ & s2 & E2 & P2 & _).
  rewrite Hsa in E1. injection E1 as <-. rewrite Hsb in E2. injection E2 as <-.
  rewrite P1, P2. cbn [bind].
  unfold pubkey in HA, HB.
  destruct ((cn C - 1 <? a) || (a <? 1)); [discriminate|].
  destruct ((cn C - 1 <? b) || (b <? 1)); [discriminate|].
  destruct (scalar_mul_add C GL a b (G C) (gl_G_valid C GL)) as (A0 & B0 & S & Ea & Eb & Es & Eab & VS).
  rewrite HA in Ea. injection Ea as <-. rewrite HB in Eb. injection Eb as <-.
  exists S. auto.
Qed.

End Codec.
End Ext.
