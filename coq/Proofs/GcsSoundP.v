(* Proofs/GcsSoundP.v — C18: the converse of the round trips.  Whatever decode_golomb / decode_gcs accept
   is an encoding: the bits consumed are exactly encode_golomb of the value returned, the bit stream of an
   accepted filter starts with the Golomb-Rice deltas of the (non-decreasing) list returned, and nothing else is
   accepted.  Hence re-serialising any parsed filter gives a canonical filter that parses to the same values. *)
From V Require Import Base.Prelude Base.Ints Model.Helper Model.Gcs Model.CFilter
  Proofs.HelperP Proofs.GcsP Proofs.CFilterP.

Lemma golomb_unary_sound bits : forall q q' rest,
  bits01 bits -> golomb_unary bits q = Ok (q', rest) ->
  q <= q' /\ bits = repeatz 1 (Z.to_nat (q' - q)) ++ 0 :: rest.
Proof.
  induction bits as [|b t IH]; intros q q' rest Hb H; [discriminate|].
  inversion Hb as [|? ? Hb0 Ht]; subst. cbn [golomb_unary] in H.
  destruct Hb0 as [->| ->].
  - cbn in H. injection H as <- <-. split; [lia|]. now rewrite Z.sub_diag.
  - change (1 =? 0) with false in H. cbv iota in H. destruct (IH _ _ _ Ht H) as [L E]. split; [lia|].
    replace (Z.to_nat (q' - q)) with (S (Z.to_nat (q' - (q + 1)))) by lia. cbn [repeatz app]. now rewrite <- E.
Qed.

Lemma golomb_rem_sound p : forall bits acc x rest,
  bits01 bits -> golomb_rem p bits acc = Ok (x, rest) ->
  exists lb, bits = lb ++ rest /\ length lb = p /\ bits01 lb /\
             x = acc * 2 ^ Z.of_nat p + bits_to_int lb 0.
Proof.
  induction p as [|p IH]; intros bits acc x rest Hb H.
  - cbn in H. injection H as <- <-. exists []. repeat split; [constructor | cbn; lia].
  - cbn [golomb_rem] in H. destruct bits as [|b t]; [discriminate|].
    inversion Hb as [|? ? Hb0 Ht]; subst.
    destruct (IH _ _ _ _ Ht H) as [lb [E [L [B X]]]]. exists (b :: lb).
    split; [cbn [app]; now rewrite <- E|]. split; [cbn [length]; now rewrite L|]. split; [now constructor|].
    cbn [bits_to_int]. rewrite bits_to_int_acc, L, X. rewrite Nat2Z.inj_succ, Z.pow_succ_r by lia.
    destruct Hb0 as [->| ->];
      change (1 =? 1) with true; change (1 =? 0) with false; change (0 =? 1) with false; change (0 =? 0) with true;
      cbv iota; lia.
Qed.

Lemma low_bits_of_bits p : forall lb hi, length lb = p -> bits01 lb ->
  low_bits p (hi * 2 ^ Z.of_nat p + bits_to_int lb 0) = lb.
Proof.
  induction p as [|p IH]; intros lb hi L B.
  - destruct lb; [reflexivity|discriminate].
  - destruct lb as [|b lb]; [discriminate|]. inversion B as [|? ? Hb Hl]; subst.
    injection L as L. cbn [low_bits bits_to_int]. rewrite bits_to_int_acc, L.
    pose proof (bits_to_int_bound lb) as Bd. rewrite L in Bd.
    pose proof (Z.pow_pos_nonneg 2 (Z.of_nat p) ltac:(lia) ltac:(lia)) as Pp.
    set (v := bits_to_int lb 0) in *.
    assert (Ex : hi * 2 ^ Z.of_nat (S p) + ((if b =? 0 then 2 * 0 else 2 * 0 + 1) * 2 ^ Z.of_nat p + v)
                 = (2 * hi + b) * 2 ^ Z.of_nat p + v).
    { rewrite Nat2Z.inj_succ, Z.pow_succ_r by lia. destruct Hb as [->| ->];
        change (1 =? 0) with false; change (0 =? 0) with true; cbv iota; lia. }
    rewrite Ex. f_equal.
    + rewrite Z.testbit_odd, Z.shiftr_div_pow2 by lia.
      rewrite Z.div_add_l by lia. rewrite (Z.div_small v) by lia. rewrite Z.add_0_r.
      rewrite Z.add_comm, Z.odd_add_mul_2. destruct Hb as [->| ->]; reflexivity.
    + subst v. now apply IH.
Qed.

(* the bits consumed are the encoding of the value returned *)
Theorem decode_golomb_sound bits p x rest :
  bits01 bits -> decode_golomb bits p = Ok (x, rest) ->
  0 <= x /\ bits = encode_golomb x p ++ rest.
Proof.
  intros Hb. unfold decode_golomb.
  destruct (golomb_unary bits 0) as [[q b1]|] eqn:E1; [|discriminate]. cbn [bind].
  destruct (golomb_rem p b1 0) as [[r b2]|] eqn:E2; [|discriminate]. cbn [bind]. intros [= <- <-].
  destruct (golomb_unary_sound _ _ _ _ Hb E1) as [Hq Eb].
  assert (Hb1 : bits01 b1).
  { rewrite Eb in Hb. apply Forall_app in Hb as [_ Hb]. now inversion Hb. }
  destruct (golomb_rem_sound _ _ _ _ _ Hb1 E2) as [lb [Eb1 [L [B X]]]]. rewrite Z.mul_0_l, Z.add_0_l in X.
  pose proof (bits_to_int_bound lb) as Bd. rewrite L in Bd.
  pose proof (Z.pow_pos_nonneg 2 (Z.of_nat p) ltac:(lia) ltac:(lia)) as Pp.
  rewrite Z.shiftl_mul_pow2 by lia. split; [nia|].
  unfold encode_golomb. rewrite Z.shiftr_div_pow2 by lia.
  rewrite Z.div_add_l by lia. rewrite (Z.div_small r) by lia. rewrite Z.add_0_r.
  subst r. rewrite low_bits_of_bits by assumption.
  rewrite Eb, Eb1. rewrite Z.sub_0_r. now rewrite <- !app_assoc.
Qed.

Lemma gcs_loop_sound fuel : forall n bits cur acc l,
  bits01 bits -> gcs_loop fuel n bits cur acc = Ok l ->
  exists suf tail, l = rev acc ++ suf /\ bits = gcs_deltas suf cur ++ tail /\
                   ascending cur suf /\ zlen suf = Z.max 0 n.
Proof.
  induction fuel as [|f IH]; intros n bits cur acc l Hb H.
  - cbn [gcs_loop] in H. destruct (n <=? 0) eqn:E; [|discriminate]. apply Z.leb_le in E. injection H as <-.
    exists [], bits. rewrite app_nil_r. repeat split; cbn; lia.
  - cbn [gcs_loop] in H. destruct (n <=? 0) eqn:E.
    + apply Z.leb_le in E. injection H as <-. exists [], bits. rewrite app_nil_r. repeat split; cbn; lia.
    + apply Z.leb_gt in E. destruct (decode_golomb bits GOLOMB_P) as [[d bits']|] eqn:D; [|discriminate].
      cbn [bind] in H. destruct (decode_golomb_sound _ _ _ _ Hb D) as [Hd Eb].
      assert (Hb' : bits01 bits') by (rewrite Eb in Hb; now apply Forall_app in Hb).
      destruct (IH _ _ _ _ _ Hb' H) as [suf [tail [El [Et [As Ls]]]]].
      exists ((cur + d) :: suf), tail. split; [rewrite El; cbn [rev]; now rewrite <- app_assoc|].
      split; [cbn [gcs_deltas]; replace (cur + d - cur) with d by lia; rewrite <- app_assoc, <- Et; exact Eb|].
      split; [split; [lia|exact As]|]. unfold zlen in *. cbn [length]. lia.
Qed.

Lemma unpack_bits_bits01 s : bits01 (unpack_bits s).
Proof.
  induction s as [|b r IH]; [constructor|]. unfold unpack_bits, bits01 in *. cbn [flat_map].
  apply Forall_app. split; [|exact IH]. change (byte_bits b) with (low_bits 8 b). apply low_bits_01.
Qed.

(* decode_gcs accepts exactly: a count N, then a bit stream that starts with the Golomb-Rice deltas of a
   non-decreasing list of N non-negative values (anything may follow) — and returns that list *)
Theorem decode_gcs_accepts_iff b l :
  decode_gcs b = Ok l <->
  exists n r tail, read_varint b = Ok (n, r) /\ zlen l = Z.max 0 n /\ ascending 0 l /\
                   unpack_bits r = gcs_deltas l 0 ++ tail.
Proof.
  unfold decode_gcs. split.
  - destruct (read_varint b) as [[n r]|] eqn:Ev; [|discriminate]. cbn [bind]. intros H.
    destruct (gcs_loop_sound _ _ _ _ _ _ (unpack_bits_bits01 r) H) as [suf [tail [El [Et [As Ls]]]]].
    cbn [rev app] in El. subst suf. now exists n, r, tail.
  - intros [n [r [tail [Ev [Ls [As Eb]]]]]]. rewrite Ev. cbn [bind]. rewrite Eb.
    destruct (Z_le_gt_dec n 0) as [Hn|Hn].
    + assert (l = []) by (destruct l; [reflexivity|unfold zlen in Ls; cbn [length] in Ls; lia]). subst l.
      destruct (length (gcs_deltas [] 0 ++ tail)); cbn [gcs_loop];
        (destruct (n <=? 0) eqn:E; [reflexivity|apply Z.leb_gt in E; lia]).
    + replace n with (zlen l) by lia.
      rewrite (gcs_loop_roundtrip l _ 0 [] tail As); [reflexivity|].
      rewrite app_length. pose proof (gcs_deltas_length l 0). lia.
Qed.

Lemma read_varint_bound s n r : bytes_ok s -> read_varint s = Ok (n, r) -> 0 <= n < 18446744073709551616.
Proof.
  intros Hs. unfold read_varint. destruct s as [|i t]; [discriminate|].
  inversion Hs as [|? ? Hi Ht]; subst.
  assert (F : forall k, (k <= 8)%nat -> 0 <= from_le (firstn k t) < 18446744073709551616).
  { intros k Hk. pose proof (from_le_bound _ (bytes_ok_firstn k t Ht)) as B.
    assert (length (firstn k t) <= 8)%nat by (rewrite firstn_length; lia).
    assert (pow256 (length (firstn k t)) <= pow256 8) by (unfold pow256; apply Z.pow_le_mono_r; lia).
    rewrite pow256_8 in *. lia. }
  destruct (i =? 253); [|destruct (i =? 254); [|destruct (i =? 255)]]; intros H; injection H as Hn _; subst n;
    first [apply (F 2%nat); lia | apply (F 4%nat); lia | apply (F 8%nat); lia | unfold byte_ok in Hi; lia].
Qed.

(* any filter that parses re-serialises (to the canonical bytes of its values), and parsing those bytes gives the
   same values and the same F: parse . serialize . parse = parse, on EVERY accepted input *)
Theorem cf_reserialize_stable key fb cf :
  bytes_ok fb -> cf_parse key fb = Ok cf ->
  exists raw cf', cf_serialize cf = Ok raw /\ cf_parse key raw = Ok cf' /\
    cf_hashes cf' = cf_hashes cf /\ cf_f cf' = cf_f cf /\ cf_serialize cf' = Ok raw /\
    ascending 0 (cf_hashes cf).
Proof.
  intros Hfb. unfold cf_parse. destruct (decode_gcs fb) as [l|] eqn:D; [|discriminate]. cbn [bind]. intros [= <-].
  apply decode_gcs_accepts_iff in D as [n [r [tail [Ev [Ls [As Eb]]]]]].
  pose proof (read_varint_bound _ _ _ Hfb Ev) as Hn.
  destruct (gcs_roundtrip l As ltac:(lia)) as [raw [E1 E2]].
  assert (Ei : cf_items (cf_new key l) = l) by (unfold cf_items, cf_new; cbn [cf_hashes]; eapply zsort_sorted_id; exact As).
  exists raw, (cf_new key l). unfold cf_serialize. rewrite Ei, E1, E2. cbn [bind]. repeat split. exact As.
Qed.
