(* Proofs/SighashSiteSpecP.v — C05: the digest at the point of use, in terms of the STANDARDS.
   For the standard kinds of spent output and a signature whose hash type byte is one of the
   standard hash types, OP_CHECKSIG / OP_CHECKMULTISIG / tapscript OP_CHECKSIG(ADD) and
   Tx.verify_input judge the signature by the digest that the original algorithm / BIP143 /
   BIP341 define for THAT hash type (Spec/Legacy.v, Spec/Bip143.v, Spec/Bip341.v). *)
From V Require Import Base.Prelude Base.Ints Model.Helper Model.Script Model.Op Model.Interp
  Model.Pecc Model.Taproot Model.Verify Model.Tx Model.Sighash Model.SighashAbs Model.SighashSig
  Spec.TxData Spec.SigHashType Proofs.SighashP Proofs.SighashTaprootP Proofs.SighashHistP
  Proofs.SighashSegwitP Proofs.SighashDispatchP Proofs.SighashCorP Proofs.SighashKindsP Proofs.SighashSigP Proofs.VerifyP
  Proofs.SighashSignP.
From V Require Spec.Legacy Spec.Bip143 Spec.Bip341.

Section S.
Variables hash256 sha256 hash_tapsighash hash_tapleaf : bytes -> bytes.
Variable xonly_ok : bytes -> bool.
Variable pr : sigprims.

Notation SIG_HASH := (sig_hash hash256 sha256 hash_tapsighash hash_tapleaf xonly_ok).
Notation SIGOPS := (tx_sigops hash256 sha256 hash_tapsighash hash_tapleaf xonly_ok pr).
Notation FRESH := (fresh_digest hash256 sha256 hash_tapsighash hash_tapleaf xonly_ok).

Lemma fresh_digest_of t sp idx ht m' (R : result sh_out) :
  rsnd (SIG_HASH t sp idx ht m') = R -> FRESH t sp idx ht = (o <- R ;; Ok (so_digest o)).
Proof. intros H. unfold fresh_digest. exact (tx_digest_of_sig_hash _ _ _ _ _ t sp idx ht _ m' R H). Qed.

(* the digests of the standards as values of the library's [digest] type *)
Definition bip143_digest (cb : bytes) (amount : Z) (ct : ctransaction) (idx : nat) (ht : Z) : result digest :=
  p <- opt_res (Bip143.preimage hash256 cb amount ct idx ht) ;; Ok (DInt (from_be (hash256 p))).
Definition legacy_digest (cb : bytes) (ct : ctransaction) (idx : nat) (ht : Z) : digest :=
  DInt (from_be (Legacy.signature_hash hash256 cb ct idx ht)).
Definition bip341_digest (ct : ctransaction) (coins : list coin) (idx : nat) (ht : Z)
  (annex : option bytes) (leaf : option (Z * bytes)) : result digest :=
  p <- opt_res (Bip341.message sha256 hash_tapleaf ht ct coins idx annex leaf) ;;
  Ok (DBytes (hash_tapsighash p)).

Lemma fresh_digest_bip143 t sp idx ht cb amount ct :
  rsnd (SIG_HASH t sp idx ht memo_empty) = bip143_out hash256 cb amount ct idx ht ->
  FRESH t sp idx ht = bip143_digest cb amount ct idx ht.
Proof.
  intros H. rewrite (fresh_digest_of t sp idx ht memo_empty _ H). unfold bip143_out, bip143_digest.
  destruct (opt_res (Bip143.preimage hash256 cb amount ct idx ht)); reflexivity.
Qed.

Lemma fresh_digest_legacy t sp idx ht cb ct :
  rsnd (SIG_HASH t sp idx ht memo_empty) = Ok (legacy_out hash256 cb ct idx ht) ->
  FRESH t sp idx ht = Ok (legacy_digest cb ct idx ht).
Proof. intros H. now rewrite (fresh_digest_of t sp idx ht memo_empty _ H). Qed.

Lemma fresh_digest_bip341 t sp idx ht ct coins annex leaf :
  rsnd (SIG_HASH t sp idx ht memo_empty) = bip341_out sha256 hash_tapsighash hash_tapleaf ct coins idx ht annex leaf ->
  FRESH t sp idx ht = bip341_digest ct coins idx ht annex leaf.
Proof.
  intros H. rewrite (fresh_digest_of t sp idx ht memo_empty _ H). unfold bip341_out, bip341_digest.
  destruct (opt_res (Bip341.message sha256 hash_tapleaf ht ct coins idx annex leaf)); reflexivity.
Qed.

(* ---------------- OP_CHECKSIG ---------------- *)

(* P2PKH: original algorithm, script code = scriptPubKey *)
Theorem op_checksig_p2pkh_spec t ct sp idx m ti s h sec sg r :
  abs_tx t = Ok ct -> nth_error (t_ins t) idx = Some ti -> nth_error sp idx = Some s ->
  sp_script s = mk_script (p2pkh_script h) -> length h = 20%nat ->
  sg <> [] -> standard_hash_type (last sg 0) = true ->
  op_checksig (SIGOPS t sp idx m) (sec :: sg :: r) =
  (b <- pr_ecdsa pr sec (removelast sg)
          (legacy_digest (Bip143.p2wpkh_script_code h) ct idx (last sg 0)) ;; Ok (enc_bool b :: r)).
Proof.
  intros Ht Eti Es Hspk Hh Hne Hstd. rewrite op_checksig_own_digest. unfold ecdsa_sig_hash_type.
  destruct sg as [|x sg']; [congruence|].
  rewrite (fresh_digest_legacy t sp idx _ _ ct
             (sig_hash_p2pkh hash256 sha256 hash_tapsighash hash_tapleaf xonly_ok
                t ct sp idx ti s h _ memo_empty Hstd Ht Eti Es Hspk Hh)).
  reflexivity.
Qed.

(* P2WPKH: BIP143, script code 76 a9 14 <h> 88 ac, for the hash type byte of the signature *)
Theorem op_checksig_p2wpkh_spec t ct sp idx m ti s h sec sg r :
  abs_tx t = Ok ct -> nth_error (t_ins t) idx = Some ti -> nth_error sp idx = Some s ->
  sp_script s = mk_script (p2wpkh_script h) -> length h = 20%nat -> in_u64 (sp_value s) = true ->
  sg <> [] -> standard_hash_type (last sg 0) = true ->
  op_checksig (SIGOPS t sp idx m) (sec :: sg :: r) =
  (d <- bip143_digest (Bip143.p2wpkh_script_code h) (sp_value s) ct idx (last sg 0) ;;
   b <- pr_ecdsa pr sec (removelast sg) d ;; Ok (enc_bool b :: r)).
Proof.
  intros Ht Eti Es Hspk Hh Hval Hne Hstd. rewrite op_checksig_own_digest. unfold ecdsa_sig_hash_type.
  destruct sg as [|x sg']; [congruence|].
  rewrite (fresh_digest_bip143 t sp idx _ _ _ ct
             (sig_hash_p2wpkh hash256 sha256 hash_tapsighash hash_tapleaf xonly_ok
                t ct sp idx ti s h _ memo_empty Hstd Ht Eti Es Hspk Hh Hval)).
  reflexivity.
Qed.

(* ---------------- OP_CHECKMULTISIG inside a P2WSH witness script ---------------- *)

(* one (key, signature) test of the matching loop: for a standard hash type byte it is the ECDSA
   primitive on the BIP143 digest of THAT type with script code = the witness script *)
Theorem multisig_ver_p2wsh_spec t ct sp idx ti s h cs raw k sg :
  abs_tx t = Ok ct -> nth_error (t_ins t) idx = Some ti -> nth_error sp idx = Some s ->
  sp_script s = mk_script (p2wsh_script h) -> length h = 32%nat -> in_u64 (sp_value s) = true ->
  nth_last 0 (i_witness ti) = Some raw -> encodes cs raw ->
  sg <> [] -> standard_hash_type (last sg 0) = true ->
  multisig_ver hash256 sha256 hash_tapsighash hash_tapleaf xonly_ok pr t sp idx k sg =
  is_ok_true (d <- bip143_digest raw (sp_value s) ct idx (last sg 0) ;; pr_ecdsa pr k (removelast sg) d).
Proof.
  intros Ht Eti Es Hspk Hh Hval Hraw Henc Hne Hstd. unfold multisig_ver, ecdsa_sig_hash_type.
  destruct sg as [|x sg']; [congruence|].
  rewrite (fresh_digest_bip143 t sp idx _ _ _ ct
             (sig_hash_p2wsh hash256 sha256 hash_tapsighash hash_tapleaf xonly_ok
                t ct sp idx ti s h cs raw _ memo_empty Hstd Ht Eti Es Hspk Hh Hval Hraw Henc)).
  reflexivity.
Qed.

(* the same inside a P2SH redeem script: original algorithm, script code = the redeem script *)
Theorem multisig_ver_p2sh_spec t ct sp idx ti s h cs raw k sg :
  abs_tx t = Ok ct -> nth_error (t_ins t) idx = Some ti -> nth_error sp idx = Some s ->
  sp_script s = mk_script (p2sh_script h) -> length h = 20%nat ->
  nth_last 0 (s_cmds (i_script ti)) = Some (Push raw) -> encodes cs raw ->
  is_p2wpkh cs = false -> is_p2wsh cs = false ->
  sg <> [] -> standard_hash_type (last sg 0) = true ->
  multisig_ver hash256 sha256 hash_tapsighash hash_tapleaf xonly_ok pr t sp idx k sg =
  is_ok_true (pr_ecdsa pr k (removelast sg) (legacy_digest raw ct idx (last sg 0))).
Proof.
  intros Ht Eti Es Hspk Hh Hraw Henc Hk1 Hk2 Hne Hstd. unfold multisig_ver, ecdsa_sig_hash_type.
  destruct sg as [|x sg']; [congruence|].
  rewrite (fresh_digest_legacy t sp idx _ _ ct
             (sig_hash_p2sh hash256 sha256 hash_tapsighash hash_tapleaf xonly_ok
                t ct sp idx ti s h cs raw _ memo_empty Hstd Ht Eti Es Hspk Hh Hraw Henc Hk1 Hk2)).
  reflexivity.
Qed.

(* ---------------- taproot ---------------- *)

(* key path (one witness element besides the annex): for a signature that BIP341 declares
   well-formed and whose hash type is defined, the verdict is the Schnorr primitive on
   hash_TapSighash(0x00 || SigMsg(hash_type, 0)) *)
Theorem op_checksig_schnorr_keypath_spec t ct sp coins idx m ti s x pk sg s64 ht r :
  abs_tx t = Ok ct -> abs_list abs_spent sp = Ok coins -> length sp = length (t_ins t) ->
  nth_error (t_ins t) idx = Some ti -> nth_error sp idx = Some s ->
  sp_script s = mk_script (p2tr_script x) -> length x = 32%nat ->
  in_u32 (Z.of_nat idx) = true ->
  (forall a, annex_of (i_witness ti) = Some a -> in_u64 (zlen a) = true) ->
  zlen (snd (Bip341.split_annex (i_witness ti))) = 1 ->
  xonly_ok pk = true -> taproot_sig_hash_type sg = Some (s64, ht) -> standard_hash_type ht = true ->
  op_checksig_schnorr (SIGOPS t sp idx m) (pk :: sg :: r) =
  (d <- bip341_digest ct coins idx ht (annex_of (i_witness ti)) None ;;
   b <- pr_schnorr pr pk s64 d ;; Ok (enc_bool b :: r)).
Proof.
  intros Ht Hsp Hlen Eti Es Hspk Hx Hidx Hannex Hone Hpk Hsg Hstd.
  rewrite (op_checksig_schnorr_own_digest _ _ _ _ _ _ t sp idx m pk sg s64 ht r Hpk Hsg).
  rewrite (fresh_digest_bip341 t sp idx ht ct coins _ None
             (sig_hash_p2tr_keypath hash256 sha256 hash_tapsighash hash_tapleaf xonly_ok
                t ct sp coins idx ti s x ht memo_empty Hstd Ht Hsp Hlen Eti Es Hspk Hx Hidx Hannex Hone)).
  reflexivity.
Qed.

(* script path: OP_CHECKSIGADD (and OP_CHECKSIG) in the tap script use the message with the
   BIP342 extension for the executed leaf *)
Theorem op_checksigadd_scriptpath_spec t ct sp coins idx m ti s x v scr c cs pk en sg s64 ht r :
  abs_tx t = Ok ct -> abs_list abs_spent sp = Ok coins -> length sp = length (t_ins t) ->
  nth_error (t_ins t) idx = Some ti -> nth_error sp idx = Some s ->
  sp_script s = mk_script (p2tr_script x) -> length x = 32%nat ->
  in_u32 (Z.of_nat idx) = true ->
  (forall a, annex_of (i_witness ti) = Some a -> in_u64 (zlen a) = true) ->
  Bip341.script_path xonly_ok (snd (Bip341.split_annex (i_witness ti))) = Some (v, scr, c) ->
  bytes_ok c -> encodes cs scr ->
  xonly_ok pk = true -> taproot_sig_hash_type sg = Some (s64, ht) -> standard_hash_type ht = true ->
  op_checksigadd_schnorr (SIGOPS t sp idx m) (pk :: en :: sg :: r) =
  (d <- bip341_digest ct coins idx ht (annex_of (i_witness ti)) (Some (v, scr)) ;;
   b <- pr_schnorr pr pk s64 d ;;
   Ok (encode_num (if b then decode_num en + 1 else decode_num en) :: r)) /\
  op_checksig_schnorr (SIGOPS t sp idx m) (pk :: sg :: r) =
  (d <- bip341_digest ct coins idx ht (annex_of (i_witness ti)) (Some (v, scr)) ;;
   b <- pr_schnorr pr pk s64 d ;; Ok (enc_bool b :: r)).
Proof.
  intros Ht Hsp Hlen Eti Es Hspk Hx Hidx Hannex Hpath Hb Henc Hpk Hsg Hstd.
  pose proof (fresh_digest_bip341 t sp idx ht ct coins _ (Some (v, scr))
                (sig_hash_p2tr_scriptpath hash256 sha256 hash_tapsighash hash_tapleaf xonly_ok
                   t ct sp coins idx ti s x v scr c cs ht memo_empty Hstd Ht Hsp Hlen Eti Es Hspk Hx Hidx
                   Hannex Hpath Hb Henc)) as Hd.
  split.
  - rewrite (op_checksigadd_schnorr_own_digest _ _ _ _ _ _ t sp idx m pk en sg s64 ht r Hpk Hsg).
    now rewrite Hd.
  - rewrite (op_checksig_schnorr_own_digest _ _ _ _ _ _ t sp idx m pk sg s64 ht r Hpk Hsg).
    now rewrite Hd.
Qed.

(* ---------------- the signing methods sign the digest of the standards ---------------- *)

(* Tx.get_sig_legacy on a P2PKH input: SIGHASH_ALL digest of the original algorithm, byte 01 *)
Theorem get_sig_legacy_p2pkh_spec t ct sp idx ti s h secret :
  abs_tx t = Ok ct -> nth_error (t_ins t) idx = Some ti -> nth_error sp idx = Some s ->
  sp_script s = mk_script (p2pkh_script h) -> length h = 20%nat ->
  get_sig_legacy hash256 pr t sp idx secret None =
  (der <- pr_sign pr secret (legacy_digest (Bip143.p2wpkh_script_code h) ct idx 1) ;; Ok (der ++ [1])).
Proof.
  intros Ht Eti Es Hspk Hh. unfold get_sig_legacy, legacy_digest.
  assert (Habs : abs_script (sp_script s) = Ok (Bip143.p2wpkh_script_code h)).
  { rewrite Hspk. exact (proj2 (p2wpkh_script_code_model h Hh)). }
  rewrite (sig_hash_legacy_spec hash256 t ct sp idx None (sp_script s) _ 1 eq_refl Ht
             (or_intror (conj eq_refl (ex_intro _ s (conj Es eq_refl)))) Habs).
  cbn [bind]. destruct (pr_sign pr secret _); reflexivity.
Qed.

(* … with an explicit redeem script (P2SH multisig signing): script code = that script *)
Theorem get_sig_legacy_redeem_spec t ct sp idx redeem cb secret :
  abs_tx t = Ok ct -> abs_script redeem = Ok cb ->
  get_sig_legacy hash256 pr t sp idx secret (Some redeem) =
  (der <- pr_sign pr secret (legacy_digest cb ct idx 1) ;; Ok (der ++ [1])).
Proof.
  intros Ht Habs. unfold get_sig_legacy, legacy_digest.
  rewrite (sig_hash_legacy_spec hash256 t ct sp idx (Some redeem) redeem cb 1 eq_refl Ht
             (or_introl eq_refl) Habs).
  cbn [bind]. destruct (pr_sign pr secret _); reflexivity.
Qed.

Lemma sig_hash_bip143_all_spec t ct sp idx redeem wscript s code cb m :
  abs_tx t = Ok ct -> nth_error sp idx = Some s -> in_u64 (sp_value s) = true ->
  bip143_script_code redeem wscript (Some (sp_script s)) = Ok code -> abs_script code = Ok cb ->
  rsnd (sig_hash_bip143 hash256 t sp idx redeem wscript 1 m) =
  (p <- opt_res (Bip143.preimage hash256 cb (sp_value s) ct idx 1) ;; Ok (p, from_be (hash256 p))).
Proof.
  intros Ht Es Hval Hcode Habs.
  rewrite (sig_hash_bip143_digest hash256 t sp idx redeem wscript 1 m).
  now rewrite (bip143_eq_spec hash256 t ct sp idx redeem wscript s code cb 1 m eq_refl Ht Es Hval Hcode Habs).
Qed.

(* Tx.get_sig_segwit for the script code the library derives from its arguments: P2WPKH (no
   argument), P2SH-P2WPKH (redeem script), P2WSH (witness script): BIP143 SIGHASH_ALL digest *)
Theorem get_sig_segwit_spec t ct sp idx m redeem wscript s code cb secret :
  abs_tx t = Ok ct -> nth_error sp idx = Some s -> in_u64 (sp_value s) = true ->
  bip143_script_code redeem wscript (Some (sp_script s)) = Ok code -> abs_script code = Ok cb ->
  get_sig_segwit hash256 pr t sp idx m secret redeem wscript =
  (d <- bip143_digest cb (sp_value s) ct idx 1 ;; der <- pr_sign pr secret d ;; Ok (der ++ [1])).
Proof.
  intros Ht Es Hval Hcode Habs.
  pose proof (sig_hash_bip143_all_spec t ct sp idx redeem wscript s code cb m Ht Es Hval Hcode Habs) as H.
  unfold get_sig_segwit, bip143_digest, rsnd in *.
  destruct (sig_hash_bip143 hash256 t sp idx redeem wscript 1 m) as [[m' [p z]]|];
    destruct (Bip143.preimage hash256 cb (sp_value s) ct idx 1) as [p'|]; cbn [opt_res bind] in *;
    try discriminate; [|reflexivity].
  inversion H; subst. destruct (pr_sign pr secret _); reflexivity.
Qed.

Corollary get_sig_segwit_p2wpkh_spec t ct sp idx m s h secret :
  abs_tx t = Ok ct -> nth_error sp idx = Some s -> in_u64 (sp_value s) = true ->
  sp_script s = mk_script (p2wpkh_script h) -> length h = 20%nat ->
  get_sig_segwit hash256 pr t sp idx m secret None None =
  (d <- bip143_digest (Bip143.p2wpkh_script_code h) (sp_value s) ct idx 1 ;;
   der <- pr_sign pr secret d ;; Ok (der ++ [1])).
Proof.
  intros Ht Es Hval Hspk Hh. destruct (p2wpkh_script_code_model h Hh) as [Hcode Habs].
  apply (get_sig_segwit_spec t ct sp idx m None None s (mk_script (p2pkh_script h))); try assumption.
  now rewrite Hspk.
Qed.

(* Tx.get_sig_taproot (key path: ext_flag 0, script path: ext_flag 1 with the leaf of the witness):
   the BIP341 message of the requested hash type; the byte is appended unless it is DEFAULT *)
Theorem get_sig_taproot_spec t ct sp coins idx m ti ext leaf secret ht aux :
  standard_hash_type ht = true -> abs_tx t = Ok ct -> abs_list abs_spent sp = Ok coins ->
  length sp = length (t_ins t) -> nth_error (t_ins t) idx = Some ti ->
  in_u32 (Z.of_nat idx) = true ->
  (forall a, annex_of (i_witness ti) = Some a -> in_u64 (zlen a) = true) ->
  leaf_rel xonly_ok ext (i_witness ti) leaf ->
  get_sig_taproot sha256 hash_tapsighash hash_tapleaf xonly_ok pr t sp idx m secret ext ht aux =
  (d <- bip341_digest ct coins idx ht (annex_of (i_witness ti)) leaf ;;
   s64 <- pr_sign_schnorr pr secret d aux ;;
   Ok (if ht =? 0 then s64 else s64 ++ [ht])).
Proof.
  intros Hht Ht Hsp Hlen Eti Hidx Hannex Hleaf.
  pose proof (sig_hash_bip341_digest sha256 hash_tapsighash hash_tapleaf xonly_ok t sp idx ext ht m) as H.
  rewrite (bip341_eq_spec sha256 hash_tapleaf xonly_ok t ct sp coins idx ti ext leaf ht m
             Hht Ht Hsp Hlen Eti Hidx Hannex Hleaf) in H.
  unfold get_sig_taproot, bip341_digest, rsnd in *.
  destruct (sig_hash_bip341 sha256 hash_tapsighash hash_tapleaf xonly_ok t sp idx ext ht m) as [[m' [p z]]|];
    destruct (Bip341.message sha256 hash_tapleaf ht ct coins idx (annex_of (i_witness ti)) leaf) as [p'|];
    cbn [opt_res bind] in *; try discriminate; [|reflexivity].
  inversion H; subst. destruct (pr_sign_schnorr pr secret _ aux); cbn [bind]; [|reflexivity].
  destruct (ht =? 0); [reflexivity|]. now rewrite (std_byte ht Hht).
Qed.

(* Tx.check_sig_legacy / check_sig_segwit: the SIGHASH_ALL digest *)
Theorem check_sig_spec t ct sp idx m s sec der :
  abs_tx t = Ok ct -> nth_error sp idx = Some s ->
  (forall redeem cb, abs_script redeem = Ok cb ->
     check_sig_legacy hash256 pr t sp idx sec der (Some redeem) =
     pr_ecdsa pr sec der (legacy_digest cb ct idx 1)) /\
  (forall redeem wscript code cb, in_u64 (sp_value s) = true ->
     bip143_script_code redeem wscript (Some (sp_script s)) = Ok code -> abs_script code = Ok cb ->
     check_sig_segwit hash256 pr t sp idx m sec der redeem wscript =
     (d <- bip143_digest cb (sp_value s) ct idx 1 ;; pr_ecdsa pr sec der d)).
Proof.
  intros Ht Es. split.
  - intros redeem cb Habs. unfold check_sig_legacy, legacy_digest.
    now rewrite (sig_hash_legacy_spec hash256 t ct sp idx (Some redeem) redeem cb 1 eq_refl Ht
                   (or_introl eq_refl) Habs).
  - intros redeem wscript code cb Hval Hcode Habs.
    pose proof (sig_hash_bip143_all_spec t ct sp idx redeem wscript s code cb m Ht Es Hval Hcode Habs) as H.
    unfold check_sig_segwit, bip143_digest, rsnd in *.
    destruct (sig_hash_bip143 hash256 t sp idx redeem wscript 1 m) as [[m' [p z]]|];
      destruct (Bip143.preimage hash256 cb (sp_value s) ct idx 1) as [p'|]; cbn [opt_res bind] in *;
      try discriminate; [|reflexivity].
    inversion H; subst. reflexivity.
Qed.

(* ---------------- Tx.verify_input ---------------- *)
Section Verify.
Variable C : curve.
Variables ripemd160 sha1 hash160 : bytes -> bytes.
Notation VERIFY := (tx_verify_input hash256 sha256 hash_tapsighash hash_tapleaf xonly_ok pr C
                      ripemd160 sha1 hash160).

(* an accepted P2WPKH input carries a key hashing to the program and a signature which — when
   its hash type byte is standard — the ECDSA primitive accepts for the BIP143 digest of that
   hash type *)
Theorem verify_input_p2wpkh_spec t ct sp idx m ti s h :
  abs_tx t = Ok ct -> nth_error (t_ins t) idx = Some ti -> nth_error sp idx = Some s ->
  sp_script s = mk_script (p2wpkh_script h) -> length h = 20%nat -> in_u64 (sp_value s) = true ->
  VERIFY t sp idx m = Ok OTrue ->
  exists sec sg, hash160 sec = h /\
    (standard_hash_type (last sg 0) = true ->
     exists p, Bip143.preimage hash256 (Bip143.p2wpkh_script_code h) (sp_value s) ct idx (last sg 0) = Some p /\
               pr_ecdsa pr sec (removelast sg) (DInt (from_be (hash256 p))) = Ok true).
Proof.
  intros Ht Eti Es Hspk Hh Hval Hv.
  destruct (verify_input_p2wpkh_sound hash256 sha256 hash_tapsighash hash_tapleaf xonly_ok pr C
              ripemd160 sha1 hash160 t sp idx m ti s h Eti Es Hspk Hh Hv)
    as (_ & sec & sg & d & Hsec & Hd & Hver).
  exists sec, sg. split; [exact Hsec|]. intros Hstd.
  rewrite (fresh_digest_bip143 t sp idx _ _ _ ct
             (sig_hash_p2wpkh hash256 sha256 hash_tapsighash hash_tapleaf xonly_ok
                t ct sp idx ti s h _ memo_empty Hstd Ht Eti Es Hspk Hh Hval)) in Hd.
  unfold bip143_digest in Hd.
  destruct (Bip143.preimage hash256 (Bip143.p2wpkh_script_code h) (sp_value s) ct idx (last sg 0))
    as [p|]; cbn [opt_res bind] in Hd; [|discriminate].
  inversion Hd; subst d. exists p. auto.
Qed.

Theorem verify_input_p2pkh_spec t ct sp idx m ti s h :
  abs_tx t = Ok ct -> nth_error (t_ins t) idx = Some ti -> nth_error sp idx = Some s ->
  sp_script s = mk_script (p2pkh_script h) -> length h = 20%nat ->
  VERIFY t sp idx m = Ok OTrue ->
  exists sec sg, hash160 sec = h /\
    (standard_hash_type (last sg 0) = true ->
     pr_ecdsa pr sec (removelast sg)
       (legacy_digest (Bip143.p2wpkh_script_code h) ct idx (last sg 0)) = Ok true).
Proof.
  intros Ht Eti Es Hspk Hh Hv.
  destruct (verify_input_p2pkh_sound hash256 sha256 hash_tapsighash hash_tapleaf xonly_ok pr C
              ripemd160 sha1 hash160 t sp idx m ti s h Eti Es Hspk Hv)
    as (sec & sg & d & Hsec & Hd & Hver).
  exists sec, sg. split; [exact Hsec|]. intros Hstd.
  rewrite (fresh_digest_legacy t sp idx _ _ ct
             (sig_hash_p2pkh hash256 sha256 hash_tapsighash hash_tapleaf xonly_ok
                t ct sp idx ti s h _ memo_empty Hstd Ht Eti Es Hspk Hh)) in Hd.
  inversion Hd; subst d. exact Hver.
Qed.

(* an accepted taproot key-path input whose signature is well-formed by BIP341 (64 bytes, or 65
   with a defined hash type): the output key verifies it for the BIP341 key-path message of
   that hash type *)
Theorem verify_input_p2tr_keypath_spec t ct sp coins idx m ti s x sg s64 ht :
  abs_tx t = Ok ct -> abs_list abs_spent sp = Ok coins -> length sp = length (t_ins t) ->
  nth_error (t_ins t) idx = Some ti -> nth_error sp idx = Some s ->
  sp_script s = mk_script (p2tr_script x) -> length x = 32%nat ->
  in_u32 (Z.of_nat idx) = true ->
  (forall a, annex_of (i_witness ti) = Some a -> in_u64 (zlen a) = true) ->
  zlen (snd (Bip341.split_annex (i_witness ti))) = 1 ->
  annex_stripped (i_witness ti) = [sg] ->
  taproot_sig_hash_type sg = Some (s64, ht) -> standard_hash_type ht = true ->
  VERIFY t sp idx m = Ok OTrue ->
  exists p, Bip341.message sha256 hash_tapleaf ht ct coins idx (annex_of (i_witness ti)) None = Some p /\
            pr_schnorr pr x s64 (DBytes (hash_tapsighash p)) = Ok true.
Proof.
  intros Ht Hsp Hlen Eti Es Hspk Hx Hidx Hannex Hone Hitems Hsg Hstd Hv.
  destruct (verify_input_p2tr_keypath_sound hash256 sha256 hash_tapsighash hash_tapleaf xonly_ok pr C
              ripemd160 sha1 hash160 t sp idx m ti s x sg Eti Es Hspk Hx Hitems Hv)
    as (_ & _ & _ & d & Hd & Hver).
  destruct (schnorr_split_bip341 sg s64 ht Hsg) as [Hsplit _]. rewrite Hsplit in Hd, Hver.
  cbn [fst snd] in Hd, Hver.
  rewrite (fresh_digest_bip341 t sp idx ht ct coins _ None
             (sig_hash_p2tr_keypath hash256 sha256 hash_tapsighash hash_tapleaf xonly_ok
                t ct sp coins idx ti s x ht memo_empty Hstd Ht Hsp Hlen Eti Es Hspk Hx Hidx Hannex Hone)) in Hd.
  unfold bip341_digest in Hd.
  destruct (Bip341.message sha256 hash_tapleaf ht ct coins idx (annex_of (i_witness ti)) None) as [p|];
    cbn [opt_res bind] in Hd; [|discriminate].
  inversion Hd; subst d. exists p. auto.
Qed.
End Verify.

End S.
