(* Proofs/TimelockP.v — the classes Locktime / Sequence (Model/Timelock.v, buidl/timelock.py)
   against BIP65 / BIP68 / BIP112 (Spec/Timelocks.v), for ALL values (not only a grid). *)
From V Require Import Base.Prelude Base.Ints Model.Script Model.Op Model.Timelock Spec.Timelocks
  Proofs.ConformP Proofs.StackOkP.

(* ------------------------------------------------------------------ bit facts *)

Lemma testbit_bit n k : 0 <= k -> Z.testbit n k = bit n k.
Proof. intros Hk. unfold bit. now rewrite Z.testbit_odd, Z.shiftr_div_pow2. Qed.

Lemma land_flag_zero n k : 0 <= k -> (Z.land n (2 ^ k) =? 0) = negb (bit n k).
Proof.
  intros Hk. rewrite land_pow2, testbit_bit by exact Hk. destruct (bit n k); cbn [negb].
  - apply Z.eqb_neq. pose proof (Z.pow_pos_nonneg 2 k ltac:(lia) Hk). lia.
  - reflexivity.
Qed.

Lemma land_mask n : Z.land n SEQ_MASK = n mod 65536.
Proof. unfold SEQ_MASK. change 65535 with (Z.ones 16). rewrite Z.land_ones by lia. reflexivity. Qed.

Lemma sq_relative_bit n : sq_relative n = negb (bit n 31).
Proof. unfold sq_relative, SEQ_DISABLE. change 2147483648 with (2 ^ 31). apply land_flag_zero. lia. Qed.

Lemma sq_time_bit n : sq_relative_time n = negb (bit n 31) && bit n 22.
Proof.
  unfold sq_relative_time. rewrite sq_relative_bit. unfold SEQ_TIME. change 4194304 with (2 ^ 22).
  rewrite land_flag_zero by lia. now rewrite negb_involutive.
Qed.

Lemma sq_block_bit n : sq_relative_block n = negb (bit n 31) && negb (bit n 22).
Proof.
  unfold sq_relative_block. rewrite sq_time_bit, sq_relative_bit.
  destruct (bit n 31), (bit n 22); reflexivity.
Qed.

(* ------------------------------------------------------------------ construction and codec *)

Theorem new_iff n :
  (lt_new n = Ok n <-> 0 <= n <= 4294967295) /\ (lt_new n = Err <-> ~ 0 <= n <= 4294967295) /\
  (sq_new n = Ok n <-> 0 <= n <= 4294967295) /\ (sq_new n = Err <-> ~ 0 <= n <= 4294967295).
Proof.
  unfold lt_new, sq_new, MAX_LOCKTIME, MAX_SEQUENCE.
  destruct (n <? 0) eqn:E1; destruct (n >? 4294967295) eqn:E2; cbn [orb];
    repeat split; intros; try discriminate; try reflexivity; try lia.
Qed.

Lemma from_le4_range s : bytes_ok s -> 0 <= from_le (firstn 4 s) <= 4294967295.
Proof.
  intros Hs. assert (B : bytes_ok (firstn 4 s)) by (unfold bytes_ok in *; now apply Forall_firstn).
  pose proof (from_le_bound _ B) as H. pose proof (firstn_le_length 4 s) as L.
  assert (P : pow256 (length (firstn 4 s)) <= pow256 4).
  { unfold pow256. apply Z.pow_le_mono_r; lia. }
  change (pow256 4) with 4294967296 in P. lia.
Qed.

(* parse never raises and reads the first four bytes (fewer at the end of the stream) as a
   little-endian number; serialize is its inverse on the class's domain *)
Theorem parse_total s : bytes_ok s ->
  lt_parse s = Ok (from_le (firstn 4 s)) /\ sq_parse s = Ok (from_le (firstn 4 s)).
Proof.
  intros Hs. pose proof (from_le4_range s Hs) as R. unfold lt_parse, sq_parse.
  destruct (new_iff (from_le (firstn 4 s))) as (A & _ & B & _). split; [now apply A | now apply B].
Qed.

Theorem serialize_parse n rest : 0 <= n <= 4294967295 -> bytes_ok rest ->
  exists b, lt_serialize n = Ok b /\ sq_serialize n = Ok b /\ length b = 4%nat /\
            lt_parse (b ++ rest) = Ok n /\ sq_parse (b ++ rest) = Ok n.
Proof.
  intros Hn Hr. exists (to_le 4 n).
  assert (P : 0 <= n < pow256 4) by (change (pow256 4) with 4294967296; lia).
  unfold lt_serialize, sq_serialize. rewrite (int_to_le_ok n 4 P).
  assert (L : length (to_le 4 n) = 4%nat) by apply to_le_length.
  assert (F : firstn 4 (to_le 4 n ++ rest) = to_le 4 n).
  { pose proof (firstn_all (to_le 4 n)) as FA. rewrite L in FA.
    rewrite firstn_app, L, Nat.sub_diag, FA. apply app_nil_r. }
  unfold lt_parse, sq_parse. rewrite F, (from_le_to_le 4 n P).
  destruct (new_iff n) as (A & _ & B & _). repeat split; auto; [now apply A | now apply B].
Qed.

Theorem parse_serialize s : bytes_ok s -> (4 <= length s)%nat ->
  lt_serialize (from_le (firstn 4 s)) = Ok (firstn 4 s) /\ sq_serialize (from_le (firstn 4 s)) = Ok (firstn 4 s).
Proof.
  intros Hs L. assert (B : bytes_ok (firstn 4 s)) by (unfold bytes_ok in *; now apply Forall_firstn).
  assert (L4 : length (firstn 4 s) = 4%nat) by (rewrite firstn_length; lia).
  pose proof (from_le_bound _ B) as R. rewrite L4 in R.
  unfold lt_serialize, sq_serialize. rewrite (int_to_le_ok _ 4 R).
  rewrite (to_le_from_le_n 4 (firstn 4 s) L4 B). auto.
Qed.

(* ------------------------------------------------------------------ BIP65 *)

Theorem locktime_bip65 a b :
  lt_comparable a b = same_kind (locktime_kind a) (locktime_kind b) /\
  lt_lt a b = (if same_kind (locktime_kind a) (locktime_kind b) then Ok (a <? b) else Err) /\
  lt_block_height a = (match locktime_kind a with Height => Some a | Time => None end) /\
  lt_mtp a = (match locktime_kind a with Time => Some a | Height => None end).
Proof.
  unfold lt_lt, lt_comparable, locktime_kind, lt_block_height, lt_mtp, BLOCK_LIMIT, LOCKTIME_THRESHOLD_65.
  destruct (a <? 500000000) eqn:Ea; destruct (b <? 500000000) eqn:Eb;
    destruct (a >=? 500000000) eqn:Ea'; destruct (b >=? 500000000) eqn:Eb'; try lia;
    cbn [andb orb same_kind]; repeat split; reflexivity.
Qed.

(* ------------------------------------------------------------------ BIP68 / BIP112 *)

Theorem sequence_bip68 n :
  match bip68 n with
  | NoRelativeLock =>
      sq_relative n = false /\ sq_relative_time n = false /\ sq_relative_block n = false /\
      sq_relative_blocks n = None /\ sq_relative_seconds n = None
  | Blocks k =>
      sq_relative n = true /\ sq_relative_time n = false /\ sq_relative_block n = true /\
      sq_relative_blocks n = Some k /\ sq_relative_seconds n = None
  | Seconds k =>
      sq_relative n = true /\ sq_relative_time n = true /\ sq_relative_block n = false /\
      sq_relative_blocks n = None /\ sq_relative_seconds n = Some k
  end.
Proof.
  unfold bip68, sq_relative_blocks, sq_relative_seconds.
  rewrite sq_block_bit, sq_time_bit, sq_relative_bit, land_mask.
  destruct (bit n 31); [cbn; repeat split; reflexivity|].
  destruct (bit n 22); cbn [negb andb]; repeat split; try reflexivity.
  rewrite Z.shiftl_mul_pow2 by lia. f_equal. change (2 ^ 9) with 512. lia.
Qed.

Theorem sequence_bip112 a b :
  sq_comparable a b = bip112_comparable a b /\
  sq_lt a b = (if bip112_comparable a b then Ok (bip68_value a <? bip68_value b) else Err).
Proof.
  assert (C : sq_comparable a b = bip112_comparable a b).
  { unfold sq_comparable, bip112_comparable, bip68. rewrite !sq_block_bit, !sq_time_bit.
    destruct (bit a 31), (bit a 22), (bit b 31), (bit b 22); reflexivity. }
  split; [exact C|]. unfold sq_lt. rewrite C, !land_mask. reflexivity.
Qed.

Theorem sequence_flags n :
  sq_is_max n = (n =? 4294967295) /\ sq_is_rbf_able n = (n <? 4294967295).
Proof. split; reflexivity. Qed.

(* ------------------------------------------------------------------ the BIP68 constructors *)

(* inside the 16-bit range the constructors produce the BIP68 encoding: a height as it is, a time
   rounded DOWN to a multiple of 512 seconds *)
Theorem from_relative_blocks_ok k : 0 <= k < 65536 ->
  sq_from_relative_blocks k = Ok k /\ bip68 k = Blocks k.
Proof.
  intros Hk. unfold sq_from_relative_blocks. destruct (new_iff k) as (_ & _ & B & _).
  split; [apply B; lia|]. unfold bip68, bit.
  rewrite (Z.div_small k (2 ^ 31)) by (change (2 ^ 31) with 2147483648; lia).
  rewrite (Z.div_small k (2 ^ 22)) by (change (2 ^ 22) with 4194304; lia).
  cbn [Z.odd]. now rewrite Z.mod_small by lia.
Qed.

Theorem from_relative_time_ok secs : 0 <= secs < 33554432 ->
  let v := 4194304 + secs / 512 in
  sq_from_relative_time secs = Ok v /\ bip68 v = Seconds (512 * (secs / 512)) /\
  secs - 512 < 512 * (secs / 512) <= secs.
Proof.
  intros Hs v.
  assert (Q : 0 <= secs / 512 < 65536).
  { split; [apply Z.div_pos; lia | apply Z.div_lt_upper_bound; lia]. }
  assert (L : Z.lor SEQ_TIME (secs / 512) = v).
  { assert (D : Z.land 4194304 (secs / 512) = 0).
    { change 4194304 with (2 ^ 22). rewrite Z.land_comm, land_pow2 by lia.
      rewrite testbit_bit by lia. unfold bit. rewrite Z.div_small; [reflexivity|].
      change (2 ^ 22) with 4194304. lia. }
    unfold SEQ_TIME, v. rewrite <- (Z.lxor_lor _ _ D), <- (Z.add_nocarry_lxor _ _ D). reflexivity. }
  unfold sq_from_relative_time. rewrite L. destruct (new_iff v) as (_ & _ & B & _).
  split; [apply B; unfold v; lia|]. split.
  - unfold bip68, bit, v.
    rewrite (Z.div_small _ (2 ^ 31)) by (change (2 ^ 31) with 2147483648; lia). cbn [Z.odd].
    change (2 ^ 22) with 4194304.
    replace (4194304 + secs / 512) with (secs / 512 + 1 * 4194304) by lia.
    rewrite Z.div_add by lia. rewrite (Z.div_small (secs / 512)) by lia. cbn [Z.add Z.odd].
    replace (secs / 512 + 1 * 4194304) with (secs / 512 + 64 * 65536) by lia.
    rewrite Z.mod_add by lia. now rewrite Z.mod_small by lia.
  - pose proof (Z.mul_div_le secs 512 ltac:(lia)). pose proof (Z.mul_succ_div_gt secs 512 ltac:(lia)). lia.
Qed.

(* outside it they do not validate their argument: the surplus bits leak into the flag bits or are
   cut off by the mask — a lock of 65536 blocks, or of 65536 * 512 seconds, becomes a lock of 0 *)
Theorem from_relative_unchecked :
  (sq_from_relative_blocks 65536 = Ok 65536 /\ bip68 65536 = Blocks 0) /\
  (sq_from_relative_blocks 4194304 = Ok 4194304 /\ bip68 4194304 = Seconds 0) /\
  (sq_from_relative_blocks 2147483648 = Ok 2147483648 /\ bip68 2147483648 = NoRelativeLock) /\
  (sq_from_relative_time 33554432 = Ok 4259840 /\ bip68 4259840 = Seconds 0).
Proof. repeat split; vm_compute; reflexivity. Qed.
