(* Proofs/MerkleDeepP.v — two strengthenings of the SPV theorems of Proofs/Bip37P.v / MerkleBlockP.v:

   (a) ORDER: with the authentic transaction count, the ids a validating proof yields are a
       sub-sequence of the block's ids IN BLOCK ORDER (there is a match vector mv with
       proved = sel ids mv), not merely members of the block — or a hash256 collision is exhibited;
   (b) BINDING: for a fixed (total, flags, root) at most one list of 32-byte hashes validates —
       altering, dropping or adding any hash of a validating proof makes validation fail, or a
       hash256 collision is exhibited.  No knowledge of the block is needed for (b): it holds for
       every total, authentic or not.

   Both are proved on the recursive traversal and transported to the faithful cursor machine
   with Proofs/MerkleRefineGen.v. *)
From V Require Import Base.Prelude Base.Ints Model.Merkle Model.MerkleBlock Spec.Bip37
  Proofs.MerkleP Proofs.Bip37P Proofs.MerkleBlockP Proofs.MerkleRefineGen.

Notation L32 := (fun t : bytes => length t = 32%nat).

Lemma sel_all_false {A} (l : list A) k : sel l (repeat false k) = [].
Proof. apply sel_none. induction k as [|k IH]; [reflexivity | exact IH]. Qed.

Lemma Forall_L32_map_rev (l : list bytes) : Forall L32 l -> Forall L32 (map (@rev Z) l).
Proof.
  intros H. rewrite Forall_forall in *. intros t Ht. apply in_map_iff in Ht as [u [<- Hu]].
  rewrite rev_length. auto.
Qed.

Lemma map_rev_inj (a b : list bytes) : map (@rev Z) a = map (@rev Z) b -> a = b.
Proof. intros H. rewrite <- (map_rev_rev a), <- (map_rev_rev b). now rewrite H. Qed.

(* ------------------------------------------------------------------ *)
(* (a) order *)
Section Ord.
Variable hash256 : bytes -> bytes.
Variable txids : list bytes.
Let n : nat := length txids.
Hypothesis hash_len : forall x, length (hash256 x) = 32%nat.
Hypothesis txid_len : Forall L32 txids.

Notation calc_hash := (calc_hash hash256 txids).

Lemma traverse_sound_ord : forall h pos bits hs v ms bits' hs',
  (pos * 2 ^ h < n)%nat ->
  Forall L32 hs ->
  traverse hash256 n h pos bits hs = Ok (v, ms, bits', hs') ->
  v = calc_hash h pos ->
  (exists mv, length mv = length (slice h pos txids) /\
              ms = map (@rev Z) (sel (slice h pos txids) mv)) \/ collision hash256.
Proof.
  induction h as [|h IH]; intros pos bits hs v ms bits' hs' Hpos Hhs HT E.
  - cbn [traverse] in HT. destruct bits as [|b bits]; [discriminate|].
    destruct hs as [|x hs]; [discriminate|]. injection HT as <- <- <- <-.
    left. cbn [Nat.pow] in Hpos.
    rewrite (slice_0 pos txids []) by (fold n; lia).
    exists [b =? 1]. split; [reflexivity|].
    rewrite E. cbn [Bip37.calc_hash]. destruct (b =? 1); reflexivity.
  - rewrite pow2_S in Hpos. cbn [traverse] in HT.
    destruct bits as [|b bits]; [discriminate|].
    destruct (b =? 0).
    { destruct hs as [|x hs]; [discriminate|]. injection HT as <- <- <- <-.
      left. exists (repeat false (length (slice (S h) pos txids))). split; [apply repeat_length|].
      now rewrite sel_all_false. }
    destruct (traverse hash256 n h (2 * pos) bits hs) as [[[[l m1] bits1] hs1]|] eqn:EL; [|discriminate].
    cbn [bind] in HT.
    assert (2 * pos * 2 ^ h < n)%nat as Hl by lia.
    destruct (traverse_sound hash256 txids hash_len txid_len _ _ _ _ _ _ _ _ Hl Hhs EL) as [[Ll Lhs1] _].
    assert (length (calc_hash h (2 * pos)) = 32%nat) as LL
      by (apply (calc_hash_len hash256 txids hash_len txid_len); exact Hl).
    destruct (Nat.ltb_spec (2 * pos + 1) (width n h)) as [Hr|Hr].
    + destruct (traverse hash256 n h (2 * pos + 1) bits1 hs1) as [[[[r m2] bits2] hs2]|] eqn:ER; [|discriminate].
      cbn [bind] in HT. injection HT as <- <- <- <-.
      pose proof Hr as Hr'. apply width_lt in Hr'.
      destruct (traverse_sound hash256 txids hash_len txid_len _ _ _ _ _ _ _ _ Hr' Lhs1 ER) as [[Lr Lhs2] _].
      cbn [Bip37.calc_hash] in E. rewrite calc_tree_width_eq in E. fold n in E.
      replace (pos * 2)%nat with (2 * pos)%nat in E by lia.
      destruct (Nat.ltb_spec (2 * pos + 1) (width n h)) as [_|]; [|lia].
      unfold merkle_parent in E.
      destruct (list_eq_dec Z.eq_dec (l ++ r) (calc_hash h (2 * pos) ++ calc_hash h (2 * pos + 1))) as [EQ|NE].
      * apply app_inj_len in EQ as [El Er]; [|lia].
        destruct (IH _ _ _ _ _ _ _ Hl Hhs EL El) as [[mv1 [L1 S1]]|C]; [|right; exact C].
        destruct (IH _ _ _ _ _ _ _ Hr' Lhs1 ER Er) as [[mv2 [L2 S2]]|C]; [|right; exact C].
        left. exists (mv1 ++ mv2). rewrite slice_S. split.
        -- rewrite !app_length. lia.
        -- rewrite sel_app by (symmetry; exact L1). rewrite map_app. now rewrite S1, S2.
      * right. eexists; eexists; split; [exact NE | exact E].
    + injection HT as <- <- <- <-.
      cbn [Bip37.calc_hash] in E. rewrite calc_tree_width_eq in E. fold n in E.
      replace (pos * 2)%nat with (2 * pos)%nat in E by lia.
      destruct (Nat.ltb_spec (2 * pos + 1) (width n h)) as [|_]; [lia|].
      unfold merkle_parent in E.
      destruct (list_eq_dec Z.eq_dec (l ++ l) (calc_hash h (2 * pos) ++ calc_hash h (2 * pos))) as [EQ|NE].
      * apply app_inj_len in EQ as [El _]; [|lia].
        destruct (IH _ _ _ _ _ _ _ Hl Hhs EL El) as [[mv1 [L1 S1]]|C]; [|right; exact C].
        left. exists mv1. rewrite slice_S.
        assert (~ (2 * pos + 1 < width n h)%nat) as Hr' by lia. rewrite width_lt in Hr'.
        rewrite (slice_beyond h (2 * pos + 1) txids) by (fold n; lia). rewrite app_nil_r. auto.
      * right. eexists; eexists; split; [exact NE | exact E].
Qed.

Lemma populate_sound_ord bits hs root proved :
  (1 <= n)%nat ->
  Forall L32 hs ->
  populate_tree_rec hash256 (Z.of_nat n) bits hs = Ok (root, proved) ->
  root = consensus_root hash256 txids ->
  (exists mv, length mv = n /\ proved = map (@rev Z) (sel txids mv)) \/ collision hash256.
Proof.
  intros Hn Hhs HP Hroot. unfold populate_tree_rec in HP.
  destruct (Z.ltb_spec (Z.of_nat n) 1) as [H|_]; [lia|].
  destruct (all32 hs); [|discriminate]. cbn [negb] in HP.
  rewrite Nat2Z.id in HP. unfold n in HP. rewrite <- tree_height_max_depth in HP by exact Hn.
  fold n in HP.
  destruct (traverse hash256 n (tree_height txids) 0 bits hs) as [[[[v ms] b'] h']|] eqn:ET; [|discriminate].
  cbn [bind] in HP. destruct (leftover_ok b' h'); [|discriminate]. injection HP as <- <-.
  assert (0 * 2 ^ tree_height txids < n)%nat as H0 by lia.
  assert (v = calc_hash (tree_height txids) 0) as EV.
  { rewrite Hroot. now apply consensus_root_calc_hash. }
  destruct (traverse_sound_ord _ _ _ _ _ _ _ _ H0 Hhs ET EV) as [[mv [L S]]|C]; [left | right; exact C].
  destruct (tree_height_is_height txids) as [HH _].
  rewrite slice_all in L, S by exact HH. exists mv. split; [exact L | exact S].
Qed.
End Ord.

(* ------------------------------------------------------------------ *)
(* (b) binding *)
Section Bind.
Variable hash256 : bytes -> bytes.
Hypothesis hash_len : forall x, length (hash256 x) = 32%nat.
Variable n : nat.

Lemma traverse_len : forall h pos bits hs v ms bits' hs',
  Forall L32 hs ->
  traverse hash256 n h pos bits hs = Ok (v, ms, bits', hs') ->
  length v = 32%nat /\ Forall L32 hs'.
Proof.
  induction h as [|h IH]; intros pos bits hs v ms bits' hs' Hhs HT.
  - cbn [traverse] in HT. destruct bits as [|b bits]; [discriminate|].
    destruct hs as [|x hs]; [discriminate|]. injection HT as <- <- <- <-.
    inversion Hhs; subst. split; assumption.
  - cbn [traverse] in HT. destruct bits as [|b bits]; [discriminate|].
    destruct (b =? 0).
    { destruct hs as [|x hs]; [discriminate|]. injection HT as <- <- <- <-.
      inversion Hhs; subst. split; assumption. }
    destruct (traverse hash256 n h (2 * pos) bits hs) as [[[[l m1] bits1] hs1]|] eqn:EL; [|discriminate].
    cbn [bind] in HT. destruct (IH _ _ _ _ _ _ _ Hhs EL) as [_ Lhs1].
    destruct (2 * pos + 1 <? width n h)%nat.
    + destruct (traverse hash256 n h (2 * pos + 1) bits1 hs1) as [[[[r m2] bits2] hs2]|] eqn:ER; [|discriminate].
      cbn [bind] in HT. injection HT as <- <- <- <-.
      destruct (IH _ _ _ _ _ _ _ Lhs1 ER) as [_ Lhs2]. split; [apply hash_len | exact Lhs2].
    + injection HT as <- <- <- <-. split; [apply hash_len | exact Lhs1].
Qed.

Lemma traverse_binding : forall h pos bits hs hs2 v ms bits' hs' v2 ms2 bits2 hs2',
  Forall L32 hs -> Forall L32 hs2 ->
  traverse hash256 n h pos bits hs = Ok (v, ms, bits', hs') ->
  traverse hash256 n h pos bits hs2 = Ok (v2, ms2, bits2, hs2') ->
  bits' = bits2 /\
  (v = v2 -> (exists used, hs = used ++ hs' /\ hs2 = used ++ hs2' /\ ms = ms2) \/ collision hash256).
Proof.
  induction h as [|h IH]; intros pos bits hs hs2 v ms bits' hs' v2 ms2 bits2 hs2' Hhs Hhs2 HT HT2.
  - cbn [traverse] in HT, HT2. destruct bits as [|b bits]; [discriminate|].
    destruct hs as [|x hs]; [discriminate|]. destruct hs2 as [|x2 hs2]; [discriminate|].
    injection HT as <- <- <- <-. injection HT2 as <- <- <- <-.
    split; [reflexivity|]. intros ->. left. exists [x2]. repeat split; reflexivity.
  - cbn [traverse] in HT, HT2. destruct bits as [|b bits]; [discriminate|].
    destruct (b =? 0).
    { destruct hs as [|x hs]; [discriminate|]. destruct hs2 as [|x2 hs2]; [discriminate|].
      injection HT as <- <- <- <-. injection HT2 as <- <- <- <-.
      split; [reflexivity|]. intros ->. left. exists [x2]. repeat split; reflexivity. }
    destruct (traverse hash256 n h (2 * pos) bits hs) as [[[[l m1] bits1] hs1]|] eqn:EL; [|discriminate].
    destruct (traverse hash256 n h (2 * pos) bits hs2) as [[[[l' m1'] bits1'] hs1']|] eqn:EL2; [|discriminate].
    cbn [bind] in HT, HT2.
    destruct (IH _ _ _ _ _ _ _ _ _ _ _ _ Hhs Hhs2 EL EL2) as [<- BL].
    destruct (traverse_len _ _ _ _ _ _ _ _ Hhs EL) as [Ll Lhs1].
    destruct (traverse_len _ _ _ _ _ _ _ _ Hhs2 EL2) as [Ll' Lhs1'].
    destruct (2 * pos + 1 <? width n h)%nat.
    + destruct (traverse hash256 n h (2 * pos + 1) bits1 hs1) as [[[[r m2] bits2a] hs2a]|] eqn:ER; [|discriminate].
      destruct (traverse hash256 n h (2 * pos + 1) bits1 hs1') as [[[[r' m2'] bits2b] hs2b]|] eqn:ER2; [|discriminate].
      cbn [bind] in HT, HT2. injection HT as <- <- <- <-. injection HT2 as <- <- <- <-.
      destruct (IH _ _ _ _ _ _ _ _ _ _ _ _ Lhs1 Lhs1' ER ER2) as [<- BR].
      split; [reflexivity|]. intros E. unfold merkle_parent in E.
      destruct (list_eq_dec Z.eq_dec (l ++ r) (l' ++ r')) as [EQ|NE].
      * apply app_inj_len in EQ as [El Er]; [|lia].
        destruct (BL El) as [[u1 [A1 [B1 C1]]]|C]; [|right; exact C].
        destruct (BR Er) as [[u2 [A2 [B2 C2]]]|C]; [|right; exact C].
        left. exists (u1 ++ u2). rewrite <- !app_assoc. rewrite <- A2, <- B2. repeat split; congruence.
      * right. eexists; eexists; split; [exact NE | exact E].
    + injection HT as <- <- <- <-. injection HT2 as <- <- <- <-.
      split; [reflexivity|]. intros E. unfold merkle_parent in E.
      destruct (list_eq_dec Z.eq_dec (l ++ l) (l' ++ l')) as [EQ|NE].
      * apply app_inj_len in EQ as [El _]; [|lia].
        destruct (BL El) as [[u1 [A1 [B1 C1]]]|C]; [|right; exact C].
        left. exists u1. repeat split; assumption.
      * right. eexists; eexists; split; [exact NE | exact E].
Qed.
End Bind.

Lemma leftover_ok_nil bits hs : leftover_ok bits hs = true -> hs = [].
Proof. destruct hs; [reflexivity | discriminate]. Qed.

Lemma populate_binding (hash256 : bytes -> bytes) :
  (forall x, length (hash256 x) = 32%nat) ->
  forall total bits hs hs2 root p root2 p2,
  Forall L32 hs -> Forall L32 hs2 ->
  populate_tree_rec hash256 total bits hs = Ok (root, p) ->
  populate_tree_rec hash256 total bits hs2 = Ok (root2, p2) ->
  root = root2 ->
  (hs = hs2 /\ p = p2) \/ collision hash256.
Proof.
  intros HL total bits hs hs2 root p root2 p2 Hhs Hhs2 HP HP2 ER.
  unfold populate_tree_rec in HP, HP2. destruct (total <? 1); [discriminate|].
  destruct (all32 hs); [|discriminate]. destruct (all32 hs2); [|discriminate]. cbn [negb] in HP, HP2.
  destruct (traverse hash256 (Z.to_nat total) (max_depth total) 0 bits hs) as [[[[v ms] b'] h']|] eqn:ET; [|discriminate].
  destruct (traverse hash256 (Z.to_nat total) (max_depth total) 0 bits hs2) as [[[[v2 ms2] b2'] h2']|] eqn:ET2; [|discriminate].
  cbn [bind] in HP, HP2.
  destruct (leftover_ok b' h') eqn:LO; [|discriminate].
  destruct (leftover_ok b2' h2') eqn:LO2; [|discriminate].
  injection HP as <- <-. injection HP2 as <- <-.
  apply leftover_ok_nil in LO, LO2. subst h' h2'.
  destruct (traverse_binding hash256 HL _ _ _ _ _ _ _ _ _ _ _ _ _ _ Hhs Hhs2 ET ET2) as [_ B].
  destruct (B ER) as [[u [A1 [A2 A3]]]|C]; [left | right; exact C].
  rewrite app_nil_r in A1, A2. split; congruence.
Qed.

Section Top.
Variable hash256 : bytes -> bytes.
Hypothesis hash_len : forall x, length (hash256 x) = 32%nat.

(* (a) at the level of MerkleBlock.is_valid *)
Lemma proof_sound_ordered :
  forall (ids : list bytes) hdr_root hashes flags proved,
  ids <> [] -> Forall L32 ids -> Forall L32 hashes ->
  validate_merkle_root hash256 hdr_root ids = Ok true ->
  mb_is_valid_rec hash256 hdr_root (zlen ids) hashes flags = Ok (true, proved) ->
  (exists mv, length mv = length ids /\ proved = sel ids mv) \/
  (exists x y : bytes, x <> y /\ hash256 x = hash256 y).
Proof.
  intros ids hdr_root hashes flags proved Hne Hids Hhs HV HP.
  rewrite validate_merkle_root_eq in HV by exact Hne. injection HV as HV. apply beq_eq in HV.
  unfold mb_is_valid_rec, mb_is_valid_with in HP.
  destruct (populate_tree_rec hash256 (zlen ids) (bytes_to_bit_field flags) (map (@rev Z) hashes))
    as [[root pr]|] eqn:EP; [|discriminate].
  cbn [bind] in HP. injection HP as HB <-. apply beq_eq in HB.
  set (txids := map (@rev Z) ids).
  assert (zlen ids = Z.of_nat (length txids)) as EZ by (unfold zlen, txids; now rewrite map_length).
  rewrite EZ in EP.
  assert (root = consensus_root hash256 txids) as ER.
  { apply rev_inj. rewrite HB, <- HV. reflexivity. }
  assert (1 <= length txids)%nat as Hn.
  { unfold txids. rewrite map_length. destruct ids; [congruence | cbn; lia]. }
  destruct (populate_sound_ord hash256 txids hash_len (Forall_L32_map_rev _ Hids) _ _ _ _ Hn
              (Forall_L32_map_rev _ Hhs) EP ER) as [[mv [L S]]|C]; [left | right; exact C].
  exists mv. split.
  - rewrite L. unfold txids. apply map_length.
  - rewrite S. unfold txids. now rewrite sel_map, map_rev_rev.
Qed.

Lemma proof_sound_ordered_machine :
  forall (ids : list bytes) hdr_root hashes flags proved,
  ids <> [] -> Forall L32 ids -> Forall L32 hashes ->
  validate_merkle_root hash256 hdr_root ids = Ok true ->
  mb_is_valid hash256 hdr_root (zlen ids) hashes flags = Ok (true, proved) ->
  (exists mv, length mv = length ids /\ proved = sel ids mv) \/
  (exists x y : bytes, x <> y /\ hash256 x = hash256 y).
Proof. intros until proved. rewrite mb_is_valid_eq_rec. apply proof_sound_ordered. Qed.

(* (b) at the level of MerkleBlock.is_valid: same total, same flags, same header root *)
Lemma proof_hash_binding :
  forall hdr_root total hashes hashes' flags proved proved',
  Forall L32 hashes -> Forall L32 hashes' ->
  mb_is_valid hash256 hdr_root total hashes flags = Ok (true, proved) ->
  mb_is_valid hash256 hdr_root total hashes' flags = Ok (true, proved') ->
  (hashes = hashes' /\ proved = proved') \/
  (exists x y : bytes, x <> y /\ hash256 x = hash256 y).
Proof.
  intros hdr_root total hashes hashes' flags proved proved' Hhs Hhs' HP HP'.
  rewrite mb_is_valid_eq_rec in HP, HP'. unfold mb_is_valid_rec, mb_is_valid_with in HP, HP'.
  destruct (populate_tree_rec hash256 total (bytes_to_bit_field flags) (map (@rev Z) hashes))
    as [[root pr]|] eqn:EP; [|discriminate].
  destruct (populate_tree_rec hash256 total (bytes_to_bit_field flags) (map (@rev Z) hashes'))
    as [[root' pr']|] eqn:EP'; [|discriminate].
  cbn [bind] in HP, HP'. injection HP as HB <-. injection HP' as HB' <-.
  apply beq_eq in HB, HB'.
  assert (root = root') as ER by (apply rev_inj; congruence).
  destruct (populate_binding hash256 hash_len _ _ _ _ _ _ _ _ (Forall_L32_map_rev _ Hhs)
              (Forall_L32_map_rev _ Hhs') EP EP' ER) as [[A B]|C]; [left | right; exact C].
  split; [now apply map_rev_inj | exact B].
Qed.

(* since 5e35f6e a proof for which is_valid returns at all has 32-byte hashes, so the premise
   on the proof's hashes can be dropped from (a) and (b) *)
Lemma proof_sound_ordered_machine_nolen :
  forall (ids : list bytes) hdr_root hashes flags proved,
  ids <> [] -> Forall L32 ids ->
  validate_merkle_root hash256 hdr_root ids = Ok true ->
  mb_is_valid hash256 hdr_root (zlen ids) hashes flags = Ok (true, proved) ->
  (exists mv, length mv = length ids /\ proved = sel ids mv) \/
  (exists x y : bytes, x <> y /\ hash256 x = hash256 y).
Proof.
  intros ids hdr_root hashes flags proved Hne Hids HV HP.
  exact (proof_sound_ordered_machine ids hdr_root hashes flags proved Hne Hids
           (is_valid_ok_32 hash256 _ _ _ _ _ HP) HV HP).
Qed.

Lemma proof_hash_binding_nolen :
  forall hdr_root total hashes hashes' flags proved proved',
  mb_is_valid hash256 hdr_root total hashes flags = Ok (true, proved) ->
  mb_is_valid hash256 hdr_root total hashes' flags = Ok (true, proved') ->
  (hashes = hashes' /\ proved = proved') \/
  (exists x y : bytes, x <> y /\ hash256 x = hash256 y).
Proof.
  intros hdr_root total hashes hashes' flags proved proved' HP HP'.
  exact (proof_hash_binding hdr_root total hashes hashes' flags proved proved'
           (is_valid_ok_32 hash256 _ _ _ _ _ HP) (is_valid_ok_32 hash256 _ _ _ _ _ HP') HP HP').
Qed.
End Top.

(* altering the header's Merkle root makes a validating proof fail (no hypothesis at all) *)
Lemma proof_root_tamper (hash256 : bytes -> bytes) :
  forall hdr_root hdr_root' total hashes flags proved,
  mb_is_valid hash256 hdr_root total hashes flags = Ok (true, proved) ->
  hdr_root' <> hdr_root ->
  mb_is_valid hash256 hdr_root' total hashes flags = Ok (false, proved).
Proof.
  intros r r' total hashes flags proved HP Hne.
  unfold mb_is_valid, mb_is_valid_with in *.
  destruct (populate_tree hash256 total (bytes_to_bit_field flags) (map (@rev Z) hashes))
    as [[root pr]|]; [|discriminate].
  cbn [bind] in *. injection HP as HB <-. apply beq_eq in HB.
  destruct (beq (rev root) r') eqn:E; [|reflexivity].
  apply beq_eq in E. congruence.
Qed.
