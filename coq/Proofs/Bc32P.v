(* Proofs/Bc32P.v — bc32 round trip, BCURSingle / BCURMulti parse(encode) = payload, and the
   exact-or-collision theorems without extra premises. *)
From V Require Import Base.Prelude Base.Ints Base.Lfsr Model.Helper Model.Base58 Model.Bech32
  Model.Bcur Proofs.Base58P Proofs.PolymodP Proofs.ConvertbitsP Proofs.BcurP.

Lemma zlen_cons' {A} (x : A) l : zlen (x :: l) = zlen l + 1.
Proof. unfold zlen. cbn [length]. lia. Qed.

(* ---------- characters produced by the encoder ---------- *)

Definition gchar (c : Z) : Prop :=
  lower_c c = c /\ existsb (Z.eqb c) bech32_alphabet = true.

Lemma gchar_b32c_all :
  forallb (fun n => (lower_c (b32c (Z.of_nat n)) =? b32c (Z.of_nat n)) &&
                    existsb (Z.eqb (b32c (Z.of_nat n))) bech32_alphabet) (seq 0 32) = true.
Proof. vm_compute. reflexivity. Qed.

Lemma gchar_b32c n : sym5 n -> gchar (b32c n).
Proof.
  intros H. unfold sym5 in H. pose proof gchar_b32c_all as A. rewrite forallb_forall in A.
  specialize (A (Z.to_nat n) ltac:(apply in_seq; lia)). rewrite Z2Nat.id in A by lia.
  apply andb_true_iff in A as [A1 A2]. apply Z.eqb_eq in A1. split; assumption.
Qed.

Lemma gchar_map syms : Forall sym5 syms -> Forall gchar (map b32c syms).
Proof.
  intros H. apply Forall_forall. intros c Hc. apply in_map_iff in Hc as [n [<- Hn]].
  rewrite Forall_forall in H. apply gchar_b32c. auto.
Qed.

Lemma gchar_lower s : Forall gchar s -> lower s = s.
Proof.
  induction s as [|c r IH]; intros H; [reflexivity|]. inversion H as [|? ? [Hc _] Hr]; subst.
  unfold lower in *. cbn [map]. now rewrite Hc, (IH Hr).
Qed.

Lemma gchar_alpha s : Forall gchar s ->
  forallb (fun c => existsb (Z.eqb c) bech32_alphabet) s = true.
Proof.
  intros H. apply forallb_forall. intros c Hc. rewrite Forall_forall in H. exact (proj2 (H c Hc)).
Qed.

Lemma gchar_only s : Forall gchar s -> only_bech32 s = true.
Proof. intros H. unfold only_bech32. rewrite (gchar_lower s H). now apply gchar_alpha. Qed.

(* ---------- bc32 ---------- *)

Definition c0 : Z := pm_step 1 0.
Lemma c0_ok : st_ok c0.
Proof. apply pm_step_bound; [unfold st_ok, P30; lia|unfold sym5; lia]. Qed.

Lemma polymod_cons0 vs : bech32_polymod (0 :: vs) = run GEN 25 5 c0 vs.
Proof. reflexivity. Qed.

Lemma BC32_ok : st_ok BC32_CONSTANT.
Proof. unfold st_ok, P30, BC32_CONSTANT. lia. Qed.

(* shape of the encoder's output *)
Theorem bc32encode_shape d : bytes_ok d ->
  exists dd chk, bc32encode d = Ok (map b32c (dd ++ chk)) /\
    Forall sym5 (dd ++ chk) /\ length chk = 6%nat /\
    convertbits d 8 5 true = Ok (Some dd) /\ convertbits dd 5 8 false = Ok (Some d) /\
    bech32_polymod (0 :: dd ++ chk) = BC32_CONSTANT /\
    5 * zlen dd <= 8 * zlen d + 4 /\ 8 * zlen d <= 5 * zlen dd.
Proof.
  intros HB. destruct (convertbits_8_5 d HB) as [dd [p [E [F [Hp [HL HV]]]]]].
  set (chk := chk_syms (Z.lxor (bech32_polymod (0 :: dd ++ zeros6)) BC32_CONSTANT)).
  exists dd, chk.
  assert (FA : Forall sym5 (dd ++ chk)) by (apply Forall_app; split; [exact F|apply chk_syms_ok]).
  split; [|split; [exact FA|split; [reflexivity|split; [exact E|split; [|split; [|lia]]]]]].
  - unfold bc32encode. rewrite E. cbn [bind]. fold chk. apply encode_bech32_ok. exact FA.
  - exact (convertbits_5_8 dd d p F HB Hp HL HV).
  - rewrite polymod_cons0. unfold chk. rewrite polymod_cons0.
    apply checksum_valid; [exact c0_ok|exact BC32_ok|exact F].
Qed.

Lemma drop_last6_app {A} (a b : list A) : length b = 6%nat -> drop_last6 (a ++ b) = a.
Proof.
  intros H. unfold drop_last6. rewrite app_length, H.
  replace (length a + 6 - 6)%nat with (length a) by lia.
  rewrite firstn_app, Nat.sub_diag, firstn_all. cbn. apply app_nil_r.
Qed.

(* decoding any text of the encoder's shape *)
Lemma bc32decode_shape dd chk d :
  Forall sym5 (dd ++ chk) -> length chk = 6%nat ->
  bech32_polymod (0 :: dd ++ chk) = BC32_CONSTANT ->
  convertbits dd 5 8 false = Ok (Some d) ->
  bc32decode (map b32c (dd ++ chk)) = Ok (Some d).
Proof.
  intros FA LC PV CV. unfold bc32decode.
  pose proof (gchar_map _ FA) as G.
  rewrite (gchar_lower _ G), beq_refl. cbn [negb andb].
  rewrite (gchar_alpha _ G). cbn [negb].
  rewrite (index_map_b32c _ FA). cbn [bind]. rewrite PV, Z.eqb_refl. cbn [negb].
  rewrite (drop_last6_app dd chk LC), CV. reflexivity.
Qed.

Theorem bc32_roundtrip d : bytes_ok d ->
  exists s, bc32encode d = Ok s /\ bc32decode s = Ok (Some d) /\ Forall gchar s /\
            (6 <= length s)%nat.
Proof.
  intros HB. destruct (bc32encode_shape d HB) as [dd [chk [E [FA [LC [_ [CV [PV _]]]]]]]].
  eexists. split; [exact E|]. split; [exact (bc32decode_shape dd chk d FA LC PV CV)|].
  split; [apply gchar_map; exact FA|]. rewrite map_length, app_length, LC. lia.
Qed.

(* ---------- CBOR output is a byte string ---------- *)

Lemma cbor_bytes_ok d e : bytes_ok d -> cbor_encode d = Ok e -> bytes_ok e /\ zlen d < 4294967296.
Proof.
  intros HB E. destruct (cbor_prefix d e E) as [[H ->]|[[H ->]|[[H ->]|[H ->]]]];
    (split; [|lia]); assert (0 <= zlen d) by (unfold zlen; lia).
  - constructor; [unfold byte_ok; lia|exact HB].
  - constructor; [unfold byte_ok; lia|]. constructor; [unfold byte_ok; lia|exact HB].
  - constructor; [unfold byte_ok; lia|]. apply bytes_ok_app. split; [apply to_be_ok|exact HB].
  - constructor; [unfold byte_ok; lia|]. apply bytes_ok_app. split; [apply to_be_ok|exact HB].
Qed.

Section WithHash.
Variable sha256 : bytes -> bytes.
Hypothesis sha_ok : forall x, bytes_ok (sha256 x).

(* ---------- exact or collision, no extra premise ---------- *)

(* the checksum text that encode produces for [d] decodes to sha256 of the CBOR wrapping *)
Lemma enc_hash_decodes d enc enc_hash :
  bcur_encode sha256 d = Ok (enc, enc_hash) ->
  exists cbor, cbor_encode d = Ok cbor /\ zlen d < 4294967296 /\
               bc32encode cbor = Ok enc /\
               bc32decode enc_hash = Ok (Some (sha256 cbor)) /\ Forall gchar enc_hash.
Proof.
  unfold bcur_encode. destruct (cbor_encode d) as [cbor|] eqn:EC; [|discriminate]. cbn [bind].
  destruct (bc32encode cbor) as [e|] eqn:E1; [|discriminate]. cbn [bind].
  destruct (bc32encode (sha256 cbor)) as [h|] eqn:E2; [|discriminate]. cbn [bind].
  intros [= <- <-]. exists cbor. split; [reflexivity|].
  split. { destruct (cbor_prefix d cbor EC) as [[H _]|[[H _]|[[H _]|[H _]]]]; lia. }
  split; [exact E1|].
  destruct (bc32_roundtrip (sha256 cbor) (sha_ok cbor)) as [s [A1 [A2 [A3 _]]]].
  rewrite E2 in A1. injection A1 as <-. auto.
Qed.

Theorem bcur_decode_exact_or_collision_full text d enc enc_hash d' :
  bcur_encode sha256 d = Ok (enc, enc_hash) ->
  bcur_decode sha256 text (Some enc_hash) = Ok (Some d') ->
  d' = d \/ exists cbor cbor', cbor_encode d = Ok cbor /\ cbor' <> cbor /\
                               sha256 cbor' = sha256 cbor /\ bc32decode text = Ok (Some cbor').
Proof.
  intros EE HD. destruct (enc_hash_decodes d enc enc_hash EE) as [cbor [EC [HL [_ [DH _]]]]].
  destruct (bcur_decode_exact_or_collision sha256 text enc_hash d cbor d' EC HL DH HD)
    as [->|[cbor' [A [B C]]]]; [now left|right; exists cbor, cbor'; auto].
Qed.

(* Whatever the list of parts is: if it is accepted and its first part carries (up to case)
   the checksum text of [d], the result is [d], or a SHA-256 collision is exhibited. *)
Theorem reassembly_exact_or_collision_full p ps d enc enc_hash d' :
  bcur_encode sha256 d = Ok (enc, enc_hash) ->
  (p_form p = 3 \/ p_form p = 4) -> lower (p_chk p) = enc_hash ->
  multi_parse sha256 (p :: ps) = Ok d' ->
  d' = d \/ exists cbor cbor', cbor_encode d = Ok cbor /\ cbor' <> cbor /\
                               sha256 cbor' = sha256 cbor.
Proof.
  intros EE HF HC HP. destruct (enc_hash_decodes d enc enc_hash EE) as [cbor [EC [HL [_ [DH _]]]]].
  rewrite <- HC in DH.
  destruct (reassembly_exact_or_collision sha256 p ps d cbor d' EC HL HF DH HP)
    as [->|[cbor' [A B]]]; [now left|right; exists cbor, cbor'; auto].
Qed.

(* ---------- parse (encode) ---------- *)

Hypothesis sha_len : forall x, length (sha256 x) = 32%nat.

(* everything the round-trip proofs need about bcur_encode *)
Lemma bcur_encode_facts d : bytes_ok d -> zlen d < 4294967296 ->
  exists enc chk cbor, bcur_encode sha256 d = Ok (enc, chk) /\
    cbor_encode d = Ok cbor /\ cbor_decode cbor = Ok (Some d) /\
    bc32decode enc = Ok (Some cbor) /\ bc32decode chk = Ok (Some (sha256 cbor)) /\
    Forall gchar enc /\ Forall gchar chk /\ length chk = 58%nat /\ (6 <= length enc)%nat.
Proof.
  intros HB HL. destruct (cbor_roundtrip d HL) as [cbor [EC DC]].
  destruct (cbor_bytes_ok d cbor HB EC) as [HBc _].
  destruct (bc32_roundtrip cbor HBc) as [enc [E1 [D1 [G1 L1]]]].
  destruct (bc32encode_shape (sha256 cbor) (sha_ok cbor)) as [dd [ck [E2 [FA [LC [_ [CV [PV [B1 B2]]]]]]]]].
  exists enc, (map b32c (dd ++ ck)), cbor.
  split; [unfold bcur_encode; rewrite EC; cbn [bind]; rewrite E1; cbn [bind]; rewrite E2; reflexivity|].
  split; [exact EC|]. split; [exact DC|]. split; [exact D1|].
  split; [exact (bc32decode_shape dd ck _ FA LC PV CV)|]. split; [exact G1|].
  split; [apply gchar_map; exact FA|]. split; [|exact L1].
  rewrite map_length, app_length, LC. unfold zlen in B1, B2. rewrite sha_len in B1, B2. lia.
Qed.

Lemma truthy_same g : truthy_differs (Some g) g = false.
Proof. destruct g as [|x r]; [reflexivity|]. cbn [truthy_differs]. now rewrite beq_refl. Qed.

Lemma bcur_init_ok d enc chk encoded checksum :
  bcur_encode sha256 d = Ok (enc, chk) ->
  (encoded = None \/ encoded = Some enc) -> (checksum = None \/ checksum = Some chk) ->
  bcur_init sha256 d encoded checksum = Ok (enc, chk).
Proof.
  intros EE H1 H2. unfold bcur_init. rewrite EE. cbn [bind].
  assert (truthy_differs encoded enc = false) as -> by (destruct H1 as [->| ->]; [reflexivity|apply truthy_same]).
  assert (truthy_differs checksum chk = false) as -> by (destruct H2 as [->| ->]; [reflexivity|apply truthy_same]).
  reflexivity.
Qed.

Lemma bcur_decode_ok d enc chk cbor checksum :
  cbor_decode cbor = Ok (Some d) -> bc32decode enc = Ok (Some cbor) ->
  bc32decode chk = Ok (Some (sha256 cbor)) -> (checksum = None \/ checksum = Some chk) ->
  bcur_decode sha256 enc checksum = Ok (Some d).
Proof.
  intros DC D1 D2 H. unfold bcur_decode. rewrite D1. cbn [bind].
  destruct H as [->| ->]; cbn [bind]; [exact DC|]. rewrite D2. cbn [bind]. rewrite beq_refl. cbn [bind]. exact DC.
Qed.

(* _parse_bcur_helper on a well-formed part *)
Lemma parse_part_4 x y chk payload :
  x <= y -> Forall gchar chk -> length chk = 58%nat -> Forall gchar payload ->
  parse_part {| p_form := 4; p_x := x; p_y := y; p_chk := chk; p_payload := payload |}
  = Ok (payload, Some chk, x, y).
Proof.
  intros Hxy Gc Lc Gp. unfold parse_part. cbn [p_form p_x p_y p_chk p_payload].
  rewrite (gchar_lower _ Gc), (gchar_lower _ Gp).
  change (4 =? 2) with false. change (4 =? 3) with false. change (4 =? 4) with true. cbn iota.
  destruct (y <? x) eqn:E; [lia|]. cbn [bind].
  destruct chk as [|c r] eqn:EC; [discriminate|]. rewrite <- EC in *.
  rewrite Lc. change (58 =? 58)%nat with true. cbn [negb]. rewrite (gchar_only _ Gc). cbn [negb bind].
  rewrite (gchar_only _ Gp). reflexivity.
Qed.

Lemma parse_part_3 x y chk payload :
  Forall gchar chk -> length chk = 58%nat -> Forall gchar payload ->
  parse_part {| p_form := 3; p_x := x; p_y := y; p_chk := chk; p_payload := payload |}
  = Ok (payload, Some chk, 1, 1).
Proof.
  intros Gc Lc Gp. unfold parse_part. cbn [p_form p_x p_y p_chk p_payload].
  rewrite (gchar_lower _ Gc), (gchar_lower _ Gp).
  change (3 =? 2) with false. change (3 =? 3) with true. cbn iota. cbn [bind].
  destruct chk as [|c r] eqn:EC; [discriminate|]. rewrite <- EC in *.
  rewrite Lc. change (58 =? 58)%nat with true. cbn [negb]. rewrite (gchar_only _ Gc). cbn [negb bind].
  rewrite (gchar_only _ Gp). reflexivity.
Qed.

Lemma parse_part_2 x y chk payload :
  Forall gchar payload ->
  parse_part {| p_form := 2; p_x := x; p_y := y; p_chk := chk; p_payload := payload |}
  = Ok (payload, None, 1, 1).
Proof.
  intros Gp. unfold parse_part. cbn [p_form p_x p_y p_chk p_payload].
  rewrite (gchar_lower _ Gp). change (2 =? 2) with true. cbn iota. cbn [bind].
  rewrite (gchar_only _ Gp). reflexivity.
Qed.

(* BCURSingle.parse (BCURSingle(b).encode(use_checksum)) = b *)
Theorem single_roundtrip d uc : bytes_ok d -> zlen d < 4294967296 ->
  exists p, single_encode sha256 d uc = Ok p /\ single_parse sha256 p = Ok d.
Proof.
  intros HB HL.
  destruct (bcur_encode_facts d HB HL) as [enc [chk [cbor [EE [EC [DC [D1 [D2 [G1 [G2 [L2 L1]]]]]]]]]]].
  unfold single_encode. rewrite (bcur_init_ok d enc chk None None EE) by auto. cbn [bind].
  eexists. split; [reflexivity|]. unfold single_parse. destruct uc.
  - rewrite (parse_part_3 1 1 chk enc G2 L2 G1). cbn [bind]. change (1 =? 1) with true. cbn [negb orb].
    rewrite (bcur_decode_ok d enc chk cbor (Some chk) DC D1 D2) by auto. cbn [bind].
    rewrite (bcur_init_ok d enc chk (Some enc) (Some chk) EE) by auto. reflexivity.
  - rewrite (parse_part_2 1 1 [] enc G1). cbn [bind]. change (1 =? 1) with true. cbn [negb orb].
    rewrite (bcur_decode_ok d enc chk cbor None DC D1 D2) by auto. cbn [bind].
    rewrite (bcur_init_ok d enc chk (Some enc) None EE) by auto. reflexivity.
Qed.

(* the loop of BCURMulti.parse on parts cnt+1, cnt+2, ... produced by encode *)
Lemma mp_loop_parts y chk : Forall gchar chk -> length chk = 58%nat ->
  forall cs cnt acc, 1 <= cnt -> cnt + zlen cs <= y -> Forall (Forall gchar) cs ->
  mp_loop (number_parts cs cnt y chk) cnt (Some chk) y acc = Ok (Some chk, rev acc ++ cs).
Proof.
  intros Gc Lc. induction cs as [|c r IH]; intros cnt acc Hc Hy HF.
  - cbn [number_parts mp_loop]. now rewrite rev'_alt, app_nil_r.
  - inversion HF as [|? ? Gp HF']; subst. rewrite zlen_cons' in Hy.
    cbn [number_parts mp_loop]. rewrite (parse_part_4 (cnt + 1) y chk c ltac:(unfold zlen in *; lia) Gc Lc Gp).
    cbn [bind]. rewrite Z.eqb_refl. cbn [negb]. destruct (cnt =? 0) eqn:E0; [lia|].
    rewrite beq_refl, Z.eqb_refl. cbn [negb].
    rewrite IH by (try lia; exact HF'). cbn [rev]. now rewrite <- app_assoc.
Qed.

(* BCURMulti.parse (BCURMulti(b).encode(chunk)) = b for every payload and chunk size >= 1 *)
Theorem multi_roundtrip d m : bytes_ok d -> zlen d < 4294967296 -> 1 <= m ->
  exists ps, multi_encode sha256 d m true = Ok ps /\ multi_parse sha256 ps = Ok d.
Proof.
  intros HB HL Hm.
  destruct (bcur_encode_facts d HB HL) as [enc [chk [cbor [EE [EC [DC [D1 [D2 [G1 [G2 [L2 L1]]]]]]]]]]].
  unfold multi_encode. rewrite (bcur_init_ok d enc chk None None EE) by auto. cbn [bind].
  destruct (m =? 0) eqn:E0; [lia|]. cbn [bind].
  assert (HLe : 0 < zlen enc) by (unfold zlen; lia).
  pose proof (cdiv_bounds (zlen enc) m HLe ltac:(lia)) as B1.
  set (n := cdiv (zlen enc) m) in *.
  assert (Hn : 1 <= n) by nia.
  destruct (n =? 0) eqn:E1; [lia|]. destruct (n <? 0) eqn:E2; [lia|].
  pose proof (cdiv_bounds (zlen enc) n HLe ltac:(lia)) as B2.
  set (cl := cdiv (zlen enc) n) in *.
  assert (Hcl : 1 <= cl <= m) by nia.
  eexists. split; [reflexivity|].
  destruct (chunks_spec (Z.to_nat n) (Z.to_nat cl) enc ltac:(lia) ltac:(lia)) as [C1 [C2 C3]].
  { unfold zlen in *. split.
    - apply Nat2Z.inj_lt. rewrite Nat2Z.inj_mul, Nat2Z.inj_sub, !Z2Nat.id by lia. cbn. nia.
    - apply Nat2Z.inj_le. rewrite Nat2Z.inj_mul, !Z2Nat.id by lia. nia. }
  set (cs := chunks (Z.to_nat n) (Z.to_nat cl) enc) in *.
  assert (GF : Forall (Forall gchar) cs).
  { apply Forall_forall. intros piece Hp. apply Forall_forall. intros c Hc.
    rewrite Forall_forall in G1. apply G1. rewrite <- C1. apply in_concat. eauto. }
  destruct cs as [|c1 rest] eqn:Ecs; [cbn in C3; lia|].
  pose proof (Forall_inv GF) as Gp1. pose proof (Forall_inv_tail GF) as GF'.
  unfold multi_parse. cbn [number_parts mp_loop].
  assert (ZL : 1 + zlen rest = n) by (unfold zlen; cbn [length] in C3; lia).
  rewrite (parse_part_4 (0 + 1) n chk c1 ltac:(unfold zlen in *; lia) G2 L2 Gp1). cbn [bind].
  change (0 + 1 =? 0 + 1) with true. change (0 =? 0) with true. cbn [negb].
  rewrite (mp_loop_parts n chk G2 L2 rest (0 + 1) [c1]) by (try lia; exact GF').
  cbn [bind rev app]. change (concat (c1 :: rest)) with (c1 ++ concat rest) in C1.
  change (concat (c1 :: rest)) with (c1 ++ concat rest). rewrite C1.
  rewrite (bcur_decode_ok d enc chk cbor (Some chk) DC D1 D2) by auto. cbn [bind].
  rewrite (bcur_init_ok d enc chk None (Some chk) EE) by auto. reflexivity.
Qed.

End WithHash.
