(* Proofs/MerkleRefine.v — the cursor machine of MerkleTree.populate_tree against the
   recursive traversal: exhaustive kernel evaluation on small trees (own file: the sweep
   takes a while).  hash256 := identity, i.e. merkle_parent = concatenation, and the
   supplied hashes are the distinct 32-byte strings 32*[1], 32*[2], ... so that every node
   value records exactly which hashes were combined in which order. *)
From V Require Import Base.Prelude Base.Ints Model.Merkle Model.MerkleBlock.

Definition sweep_max_total : nat := 6.

(* number of nodes of the tree with [total] leaves, plus one *)
Definition sweep_len (total : Z) : nat :=
  let n := Z.to_nat total in
  S (fold_right Nat.add 0%nat (map (width n) (seq 0 (S (max_depth total))))).

Definition sweep_hashes (total : Z) : nat := (Z.to_nat total + 2)%nat.

Fixpoint bit_strings (k : nat) : list (list Z) :=
  match k with
  | O => [[]]
  | S k' => flat_map (fun s => [0 :: s; 1 :: s]) (bit_strings k')
  end.
Definition bit_strings_upto (L : nat) : list (list Z) := flat_map bit_strings (seq 0 (S L)).

(* 32 bytes each, as populate_tree requires since 5e35f6e: the i-th hash is 32 times the byte i+1 *)
Definition sym_hashes (nh : nat) : list bytes := map (fun i => repeatz (Z.of_nat i + 1) 32) (seq 0 nh).

Fixpoint lbeq (a b : list bytes) : bool :=
  match a, b with
  | [], [] => true
  | x :: a', y :: b' => beq x y && lbeq a' b'
  | _, _ => false
  end.

Definition res_eqb (a b : result (bytes * list bytes)) : bool :=
  match a, b with
  | Ok (r1, p1), Ok (r2, p2) => beq r1 r2 && lbeq p1 p2
  | Err, Err => true
  | _, _ => false
  end.

Lemma lbeq_eq a b : lbeq a b = true -> a = b.
Proof.
  revert b; induction a as [|x a IH]; intros [|y b] H; cbn in H; try discriminate; [reflexivity|].
  apply andb_true_iff in H as [H1 H2]. apply beq_eq in H1. subst. f_equal. now apply IH.
Qed.

Lemma res_eqb_eq a b : res_eqb a b = true -> a = b.
Proof.
  destruct a as [[r1 p1]|], b as [[r2 p2]|]; cbn; intros H; try discriminate; [|reflexivity].
  apply andb_true_iff in H as [H1 H2]. apply beq_eq in H1. apply lbeq_eq in H2. now subst.
Qed.

Definition sweep_check : bool :=
  forallb (fun total =>
    forallb (fun bits =>
      forallb (fun nh =>
        res_eqb (populate_tree (fun x => x) total bits (sym_hashes nh))
                (populate_tree_rec (fun x => x) total bits (sym_hashes nh)))
        (seq 0 (sweep_hashes total)))
      (bit_strings_upto (sweep_len total)))
    (map Z.of_nat (seq 1 sweep_max_total)).

Lemma sweep_check_true : sweep_check = true.
Proof. vm_compute. reflexivity. Qed.

Lemma machine_eq_traversal_sweep :
  forall total bits nh,
  In total (map Z.of_nat (seq 1 sweep_max_total)) ->
  In bits (bit_strings_upto (sweep_len total)) ->
  In nh (seq 0 (sweep_hashes total)) ->
  populate_tree (fun x => x) total bits (sym_hashes nh) =
  populate_tree_rec (fun x => x) total bits (sym_hashes nh).
Proof.
  intros total bits nh Ht Hb Hn. pose proof sweep_check_true as H. unfold sweep_check in H.
  rewrite forallb_forall in H. specialize (H total Ht).
  rewrite forallb_forall in H. specialize (H bits Hb).
  rewrite forallb_forall in H. specialize (H nh Hn).
  now apply res_eqb_eq.
Qed.

(* second sweep: flag values outside {0,1} (populate_tree compares with == 1 at leaves and
   == 0 at interior nodes, so 2 is "unmatched leaf" / "descend") for totals 1..4 *)
Fixpoint flag_strings (k : nat) : list (list Z) :=
  match k with
  | O => [[]]
  | S k' => flat_map (fun s => [0 :: s; 1 :: s; 2 :: s]) (flag_strings k')
  end.
Definition flag_strings_upto (L : nat) : list (list Z) := flat_map flag_strings (seq 0 (S L)).

Definition sweep3_max_total : nat := 4.

Definition sweep3_check : bool :=
  forallb (fun total =>
    forallb (fun bits =>
      forallb (fun nh =>
        res_eqb (populate_tree (fun x => x) total bits (sym_hashes nh))
                (populate_tree_rec (fun x => x) total bits (sym_hashes nh)))
        (seq 0 (sweep_hashes total)))
      (flag_strings_upto (sweep_len total)))
    (map Z.of_nat (seq 1 sweep3_max_total)).

Lemma sweep3_check_true : sweep3_check = true.
Proof. vm_compute. reflexivity. Qed.

Lemma machine_eq_traversal_sweep3 :
  forall total bits nh,
  In total (map Z.of_nat (seq 1 sweep3_max_total)) ->
  In bits (flag_strings_upto (sweep_len total)) ->
  In nh (seq 0 (sweep_hashes total)) ->
  populate_tree (fun x => x) total bits (sym_hashes nh) =
  populate_tree_rec (fun x => x) total bits (sym_hashes nh).
Proof.
  intros total bits nh Ht Hb Hn. pose proof sweep3_check_true as H. unfold sweep3_check in H.
  rewrite forallb_forall in H. specialize (H total Ht).
  rewrite forallb_forall in H. specialize (H bits Hb).
  rewrite forallb_forall in H. specialize (H nh Hn).
  now apply res_eqb_eq.
Qed.
