(* Proofs/HdSpecP.v — C08: the model against the BIP32 transcription (Spec/Bip32.v) beyond one
   derivation step:
   * [ser_priv_exact] / [ser_pub_exact]: raw_serialize / _serialize produce exactly the
     standard's serialization format on exactly the domain depth in [0,255], child number in
     [0,2^32) (so a key of depth 256 derives but cannot be printed);
   * [derive_priv_eq_bip32]: derivation along a whole index path = the key tree of the standard
     (key, chain code, depth, parent fingerprint, child number), whenever the standard calls
     every step valid;
   * [derive_depth], [deep_key_unserialisable];
   * [seed_path_xkeys_eq_bip32]: HDPrivateKey.from_seed(seed).traverse(text).xprv()/.xpub()
     carry exactly the bytes the standard prescribes for that seed and path. *)
From V Require Import Base.Prelude Base.Ints Model.Pecc Model.Hd Model.HdText Generated.HdVersions
  Proofs.GroupHyp Proofs.HdP Proofs.HdPathP Proofs.HdCodecP Proofs.HdTextP.
From V Require Import Spec.Bip32.

(* the standard's view of a model key *)
Definition node_of (k : hdpriv) : node :=
  {| n_key := (sk k, sk_cc k); n_depth := sk_depth k; n_pfp := sk_pfp k; n_num := sk_num k |}.

Definition ser_dom (depth num : Z) : Prop := 0 <= depth <= 255 /\ 0 <= num < 4294967296.

Lemma int_to_byte_err v : ~ (0 <= v <= 255) -> int_to_byte v = Err.
Proof.
  intros H. unfold int_to_byte. destruct (Z.ltb_spec 255 v); [reflexivity|].
  destruct (Z.ltb_spec v 0); [reflexivity|]. lia.
Qed.

Lemma int_to_be_err v len : ~ (0 <= v < pow256 len) -> int_to_be v len = Err.
Proof.
  intros H. unfold int_to_be. destruct (Z.leb_spec 0 v); [|reflexivity].
  destruct (Z.ltb_spec v (pow256 len)); [lia | reflexivity].
Qed.

(* ---------------------------------------------------------------- serialization format *)
Lemma ser_priv_exact k ver :
  0 <= sk k < pow256 32 ->
  (ser_dom (sk_depth k) (sk_num k) -> ser_priv k ver = Ok (ser_node_priv ver (node_of k))) /\
  (~ ser_dom (sk_depth k) (sk_num k) -> ser_priv k ver = Err).
Proof.
  intros Hs. unfold ser_dom. split.
  - intros [Hd Hn]. unfold ser_priv. rewrite int_to_byte_ok by exact Hd. cbn [bind].
    rewrite int_to_be_4 by exact Hn. cbn [bind]. rewrite int_to_be_33 by exact Hs. reflexivity.
  - intros H. unfold ser_priv.
    destruct (Z_le_dec 0 (sk_depth k)) as [A|A]; [destruct (Z_le_dec (sk_depth k) 255) as [B|B]|].
    + rewrite int_to_byte_ok by lia. cbn [bind].
      rewrite (int_to_be_err (sk_num k) 4) by (rewrite pow256_4; lia). reflexivity.
    + rewrite int_to_byte_err by lia. reflexivity.
    + rewrite int_to_byte_err by lia. reflexivity.
Qed.

Lemma ser_pub_exact (k : hdpub) ver :
  pk k <> None ->
  (ser_dom (pk_depth k) (pk_num k) ->
     ser_pub k ver = Ok (ser_xpub ver (pk_depth k) (pk_pfp k) (pk_num k) (pk k, pk_cc k))) /\
  (~ ser_dom (pk_depth k) (pk_num k) -> ser_pub k ver = Err).
Proof.
  intros HP. destruct (sec_some _ HP) as [s Hs]. unfold ser_dom. split.
  - intros [Hd Hn]. unfold ser_pub. rewrite int_to_byte_ok by exact Hd. cbn [bind].
    rewrite int_to_be_4 by exact Hn. cbn [bind]. rewrite Hs. cbn [bind].
    unfold ser_xpub. cbn [fst snd]. rewrite (serP_sec _ _ Hs). reflexivity.
  - intros H. unfold ser_pub.
    destruct (Z_le_dec 0 (pk_depth k)) as [A|A]; [destruct (Z_le_dec (pk_depth k) 255) as [B|B]|].
    + rewrite int_to_byte_ok by lia. cbn [bind].
      rewrite (int_to_be_err (pk_num k) 4) by (rewrite pow256_4; lia). reflexivity.
    + rewrite int_to_byte_err by lia. reflexivity.
    + rewrite int_to_byte_err by lia. reflexivity.
Qed.

(* the point at infinity (what HDPublicKey.child returns in the "invalid" event) has no xpub *)
Lemma ser_pub_infinity (k : hdpub) ver : pk k = None -> ser_pub k ver = Err.
Proof.
  intros E. unfold ser_pub. rewrite E.
  destruct (int_to_byte (pk_depth k)); cbn [bind]; [|reflexivity].
  destruct (int_to_be (pk_num k) 4); reflexivity.
Qed.

(* ---------------------------------------------------------------- bookkeeping along a path *)
Section Path.
Variable C : curve.
Variable hmac512 : bytes -> bytes -> bytes.
Variable hash160 : bytes -> bytes.

Lemma child_priv_book k i k' :
  child_priv C hmac512 hash160 k i = Ok k' ->
  sk_depth k' = sk_depth k + 1 /\ sk_num k' = i /\ sk_net k' = sk_net k /\
  sk_ver k' = sk_ver k /\ sk_pubver k' = sk_pubver k.
Proof.
  unfold child_priv. destruct (i <? 0); [discriminate|].
  intros H. apply bind_ok in H as (data & _ & H). cbv zeta in H.
  apply bind_ok in H as (P & _ & H). apply bind_ok in H as (fp & _ & H).
  apply Ok_inj in H. subst k'. cbn. repeat split.
Qed.

Lemma child_pub_book k i k' :
  child_pub C hmac512 hash160 k i = Ok k' ->
  pk_depth k' = pk_depth k + 1 /\ pk_num k' = i /\ pk_net k' = pk_net k /\ pk_ver k' = pk_ver k.
Proof.
  unfold child_pub. destruct (hardened <=? i); [discriminate|]. destruct (i <? 0); [discriminate|].
  intros H. apply bind_ok in H as (s & _ & H). apply bind_ok in H as (b & _ & H). cbv zeta in H.
  apply bind_ok in H as (P & _ & H). apply bind_ok in H as (fp & _ & H).
  apply Ok_inj in H. subst k'. cbn. repeat split.
Qed.

(* depth grows by one per step, with no upper limit: nothing in child()/traverse() looks at it *)
Lemma derive_depth l : forall k k',
  derive_priv C hmac512 hash160 k l = Ok k' ->
  sk_depth k' = sk_depth k + zlen l /\ sk_net k' = sk_net k /\ sk_ver k' = sk_ver k /\
  sk_pubver k' = sk_pubver k.
Proof.
  induction l as [|i r IH]; intros k k' H.
  - cbn in H. apply Ok_inj in H. subst k'. unfold zlen. cbn. repeat split; lia.
  - cbn [derive_priv] in H. apply bind_ok in H as (k1 & H1 & H2).
    destruct (child_priv_book k i k1 H1) as (A & _ & B & D & E).
    destruct (IH k1 k' H2) as (A' & B' & D' & E').
    unfold zlen in *. cbn [length]. rewrite Nat2Z.inj_succ. repeat split; congruence || lia.
Qed.

Lemma derive_pub_depth l : forall k k',
  derive_pub C hmac512 hash160 k l = Ok k' ->
  pk_depth k' = pk_depth k + zlen l /\ pk_net k' = pk_net k /\ pk_ver k' = pk_ver k.
Proof.
  induction l as [|i r IH]; intros k k' H.
  - cbn in H. apply Ok_inj in H. subst k'. unfold zlen. cbn. repeat split; lia.
  - cbn [derive_pub] in H. apply bind_ok in H as (k1 & H1 & H2).
    destruct (child_pub_book k i k1 H1) as (A & _ & B & D).
    destruct (IH k1 k' H2) as (A' & B' & D').
    unfold zlen in *. cbn [length]. rewrite Nat2Z.inj_succ. repeat split; congruence || lia.
Qed.

(* depth 255 -> 256: the child exists, but neither xprv() nor xpub() of it (int_to_byte(256)
   raises); the same for every deeper key *)
Theorem deep_key_unserialisable k l k' ver :
  derive_priv C hmac512 hash160 k l = Ok k' -> 255 < sk_depth k + zlen l ->
  xprv_raw k' ver = Err /\ xpub_raw (pub_of k') ver = Err.
Proof.
  intros H Hd. destruct (derive_depth l k k' H) as (E & _).
  unfold xprv_raw, xpub_raw, ser_priv, ser_pub. cbn [pub_of pk_depth].
  rewrite int_to_byte_err by lia. split; reflexivity.
Qed.

Theorem deep_pub_key_unserialisable k l k' ver :
  derive_pub C hmac512 hash160 k l = Ok k' -> 255 < pk_depth k + zlen l -> xpub_raw k' ver = Err.
Proof.
  intros H Hd. destruct (derive_pub_depth l k k' H) as (E & _).
  unfold xpub_raw, ser_pub. rewrite int_to_byte_err by lia. reflexivity.
Qed.

(* ---------------------------------------------------------------- the key tree of the standard *)
Hypothesis SL : scalar_laws C.
Hypothesis n_256 : cn C < pow256 32.

Lemma descend_depth l : forall p nd,
  descend C hmac512 hash160 p l = Some nd -> n_depth nd = n_depth p + zlen l.
Proof.
  induction l as [|i r IH]; intros p nd H.
  - cbn in H. injection H as <-. unfold zlen. cbn. lia.
  - cbn [descend] in H. destruct (child_node C hmac512 hash160 p i) as [c|] eqn:Ec; [|discriminate].
    rewrite (IH c nd H). unfold child_node in Ec.
    destruct (CKDpriv C hmac512 (n_key p) i); [|discriminate]. injection Ec as <-. cbn [n_depth].
    unfold zlen. cbn [length]. rewrite Nat2Z.inj_succ. lia.
Qed.

Lemma descend_num l : forall p nd,
  descend C hmac512 hash160 p l = Some nd ->
  Forall idx_ok l -> idx_ok (n_num p) -> idx_ok (n_num nd).
Proof.
  induction l as [|i r IH]; intros p nd H HF Hp.
  - cbn in H. injection H as <-. exact Hp.
  - cbn [descend] in H. destruct (child_node C hmac512 hash160 p i) as [c|] eqn:Ec; [|discriminate].
    inversion HF as [|? ? Hi Hr]; subst. apply (IH c nd H Hr). unfold child_node in Ec.
    destruct (CKDpriv C hmac512 (n_key p) i); [|discriminate]. injection Ec as <-. exact Hi.
Qed.

(* derivation along a path = the key tree of BIP32: key, chain code, depth, parent fingerprint
   and child number of the node reached, whenever the standard calls every step valid *)
Theorem derive_priv_eq_bip32 l : forall k nd,
  wf_priv C k -> Forall idx_ok l ->
  descend C hmac512 hash160 (node_of k) l = Some nd ->
  exists k', derive_priv C hmac512 hash160 k l = Ok k' /\ node_of k' = nd /\ wf_priv C k'.
Proof.
  induction l as [|i r IH]; intros k nd Hwf HF H.
  - cbn in H. injection H as <-. exists k. split; [reflexivity|]. split; [reflexivity | exact Hwf].
  - inversion HF as [|? ? Hi Hr]; subst.
    cbn [descend] in H. destruct (child_node C hmac512 hash160 (node_of k) i) as [c|] eqn:Ec; [|discriminate].
    unfold child_node in Ec. cbn [node_of n_key n_depth fst] in Ec.
    pose proof (ckd_priv_eq_bip32 C hmac512 hash160 SL n_256 k i Hwf Hi) as Hstep.
    destruct (CKDpriv C hmac512 (sk k, sk_cc k) i) as [[ki ci]|]; [|discriminate].
    destruct Hstep as (k1 & Hc & E1 & E2 & E3 & E4 & E5).
    assert (Ek1 : node_of k1 = c).
    { injection Ec as <-. unfold node_of. rewrite E1, E2, E3, E4, E5. reflexivity. }
    pose proof (child_priv_wf C hmac512 hash160 k i k1 Hc) as Hwf1.
    rewrite <- Ek1 in H. destruct (IH k1 nd Hwf1 Hr H) as (k' & Hd & En & Hw).
    exists k'. cbn [derive_priv]. rewrite Hc. cbn [bind]. auto.
Qed.

(* Neuter: the public half of a model key is N(k, c) of the standard *)
Lemma pub_of_neuter k :
  wf_priv C k -> (pk (pub_of k), pk_cc (pub_of k)) = Neuter C (sk k, sk_cc k).
Proof.
  intros Hwf. destruct (wf_priv_inv C SL k Hwf) as (_ & HP & _). unfold Neuter. cbn [pub_of pk pk_cc fst snd].
  rewrite HP. reflexivity.
Qed.

(* ---------------------------------------------------------------- seed -> path text -> xprv / xpub *)
Hypothesis hmac_bytes : forall key msg, bytes_ok (hmac512 key msg).

(* The outermost calls: HDPrivateKey.from_seed(seed, network).traverse(text).xprv() and .xpub(),
   for the canonical text of an index list in any spelling, print exactly the serialization the
   standard prescribes for the node m/i1/.../in of that seed, under the network's default
   version bytes — provided the standard derives that node at all (every step valid) and the
   path has at most 255 steps. *)
Theorem seed_path_xkeys_eq_bip32 seed net m mark l mnode nd v pv :
  mP m -> markP mark -> Forall idx_ok l -> zlen l <= 255 ->
  tbl_get tbl_xprv net = Ok v -> tbl_get tbl_xpub net = Ok pv ->
  master_node C hmac512 seed = Some mnode ->
  descend C hmac512 hash160 mnode l = Some nd ->
  exists root k,
    from_seed C hmac512 seed net None None = Ok root /\
    traverse_priv C hmac512 hash160 root (path_text m mark l) = Ok k /\
    node_of k = nd /\
    xprv_raw k None = Ok (ser_node_priv v nd) /\
    xpub_raw (pub_of k) None = Ok (ser_node_pub C pv nd).
Proof.
  intros Hm Hk HF Hlen Hv Hpv Hmaster Hdesc.
  unfold master_node in Hmaster.
  pose proof (from_seed_eq_bip32 C hmac512 SL hmac_bytes seed net None None) as Hfs.
  destruct (master C hmac512 seed) as [[kM cM]|]; [|discriminate].
  injection Hmaster as <-.
  destruct (Hfs v pv Hv Hpv) as (root & Hroot & Hwf & E1 & E2 & E3 & E4 & E5 & E6 & E7).
  assert (Er : node_of root = {| n_key := (kM, cM); n_depth := 0; n_pfp := [0; 0; 0; 0]; n_num := 0 |}).
  { unfold node_of. rewrite E1, E2, E3, E4, E5. reflexivity. }
  rewrite <- Er in Hdesc.
  destruct (derive_priv_eq_bip32 l root nd Hwf HF Hdesc) as (k & Hd & En & Hwk).
  exists root, k. split; [exact Hroot|]. split; [rewrite traverse_priv_text by assumption; exact Hd|].
  split; [exact En|].
  destruct (derive_depth l root k Hd) as (Dd & _ & Dv & Dpv).
  pose proof (descend_depth l _ _ Hdesc) as Nd. pose proof (descend_num l _ _ Hdesc HF) as Nn.
  cbn [node_of n_depth n_num] in Nd, Nn. rewrite E3 in Nd. rewrite E4 in Nn.
  specialize (Nn ltac:(unfold idx_ok; lia)).
  destruct (wf_priv_inv C SL k Hwk) as (Hr & HP & HPv & HPn).
  assert (Dom : ser_dom (sk_depth k) (sk_num k)).
  { rewrite <- En in Nd, Nn. cbn [node_of n_depth n_num] in Nd, Nn. unfold ser_dom, idx_ok in *.
    unfold zlen in *. lia. }
  split.
  - unfold xprv_raw. rewrite Dv, E6, <- En.
    apply (proj1 (ser_priv_exact k v ltac:(lia)) Dom).
  - unfold xpub_raw. cbn [pub_of pk_ver]. rewrite Dpv, E7.
    destruct (ser_pub_exact (pub_of k) pv HPn) as [Hok _].
    rewrite (Hok Dom). unfold ser_node_pub. rewrite <- En. cbn [node_of n_depth n_pfp n_num n_key].
    rewrite <- (pub_of_neuter k Hwk). reflexivity.
Qed.
End Path.

(* ---------------------------------------------------------------- the public key tree *)
Definition pnode_of (k : hdpub) : pnode :=
  {| pn_key := (pk k, pk_cc k); pn_depth := pk_depth k; pn_pfp := pk_pfp k; pn_num := pk_num k |}.

Section PubPath.
Variable C : curve.
Variable hmac512 : bytes -> bytes -> bytes.
Variable hash160 : bytes -> bytes.
Hypothesis SL : scalar_laws C.

(* public derivation along a whole path = CKDpub iterated, whenever the standard calls every
   step valid (IL < n, no point at infinity, no hardened index) *)
Theorem derive_pub_eq_bip32 l : forall k nd,
  valid C (pk k) -> pk k <> None -> Forall (fun i => 0 <= i) l ->
  descend_pub C hmac512 hash160 (pnode_of k) l = Some nd ->
  exists k', derive_pub C hmac512 hash160 k l = Ok k' /\ pnode_of k' = nd /\
             valid C (pk k') /\ pk k' <> None.
Proof.
  induction l as [|i r IH]; intros k nd Hv Hn HF H.
  - cbn in H. injection H as <-. exists k. repeat split; auto.
  - inversion HF as [|? ? Hi Hr]; subst.
    cbn [descend_pub] in H. destruct (child_pnode C hmac512 hash160 (pnode_of k) i) as [c|] eqn:Ec; [|discriminate].
    unfold child_pnode in Ec. cbn [pnode_of pn_key pn_depth fst] in Ec.
    pose proof (ckd_pub_eq_bip32 C hmac512 hash160 SL k i Hv Hn Hi) as Hstep.
    destruct (CKDpub C hmac512 (pk k, pk_cc k) i) as [[Ki ci]|] eqn:ES; [|discriminate].
    destruct Hstep as (k1 & Hc & E1 & E2 & E3 & E4 & E5).
    assert (Ek1 : pnode_of k1 = c).
    { injection Ec as <-. unfold pnode_of. rewrite E1, E2, E3, E4, E5. reflexivity. }
    assert (Hn1 : pk k1 <> None).
    { rewrite E1. unfold CKDpub in ES. destruct (2 ^ 31 <=? i); [discriminate|]. cbv zeta in ES.
      destruct (cn C <=? _); [discriminate|].
      destruct (pt_add C _ (pk k)) as [P|] eqn:EP; [|discriminate]. injection ES as <- _. discriminate. }
    assert (Hv1 : valid C (pk k1)).
    { unfold child_pub in Hc. destruct (hardened <=? i); [discriminate|]. destruct (i <? 0); [discriminate|].
      apply bind_ok in Hc as (s & Hs & Hc). apply bind_ok in Hc as (b & Hb & Hc). cbv zeta in Hc.
      apply bind_ok in Hc as (P & HP & Hc). apply bind_ok in Hc as (fp & _ & Hc).
      apply Ok_inj in Hc. subst k1. cbn [pk]. unfold padd_int in HP.
      destruct (sl_mul_ok C SL (from_be (firstn 32 (hmac512 (pk_cc k) (s ++ b)))) (G C) (sl_G_valid C SL)) as [Hm Hmv].
      rewrite Hm in HP. cbn [bind] in HP.
      destruct (sl_add_ok C SL _ _ Hv Hmv) as [Ha Hav]. rewrite Ha in HP. apply Ok_inj in HP. subst P. exact Hav. }
    rewrite <- Ek1 in H. destruct (IH k1 nd Hv1 Hn1 Hr H) as (k' & Hd & En & Hw).
    exists k'. cbn [derive_pub]. rewrite Hc. cbn [bind]. auto.
Qed.
End PubPath.

(* ---------------------------------------------------------------- the _raw memo *)
From V Require Import Model.HdMemo.

(* as long as the fields are not touched, every call returns what the unmemoised serialisation
   returns *)
Lemma raw_serialize_memo_inv k : forall n memo,
  (memo = None \/ exists r, memo = Some r /\ raw_serialize_pub k = Ok r) ->
  Forall (fun out => out = raw_serialize_pub k) (raw_serialize_history memo (repeat k n)).
Proof.
  induction n as [|n IH]; intros memo Hm; [constructor|].
  cbn [repeat raw_serialize_history]. unfold raw_serialize_memo. destruct memo as [r|].
  - destruct Hm as [Hm | (r' & [= <-] & Hr)]; [discriminate|].
    constructor; [now rewrite Hr | apply IH; right; eauto].
  - destruct (raw_serialize_pub k) as [r|] eqn:E.
    + constructor; [reflexivity | apply IH; right; eauto].
    + constructor; [reflexivity | apply IH; left; reflexivity].
Qed.

Theorem raw_serialize_memo_sound k n :
  Forall (fun out => out = raw_serialize_pub k) (raw_serialize_history None (repeat k n)).
Proof. apply raw_serialize_memo_inv. left. reflexivity. Qed.
