(* Proofs/PsbtSighashP.v — the sighash-type entry of an input map (since fix afccdfa): the value is
   accepted exactly when it is four bytes long, and an accepted value is what the serialiser writes
   back (a loaded sighash type can always be serialised; before the fix a longer value was loaded as
   an integer >= 2^32 and serialize() raised OverflowError). *)
From V Require Import Base.Prelude Base.Ints Model.Helper Model.Script Model.Tx Model.Psbt
  Proofs.HelperP Proofs.PsbtDictP Proofs.PsbtKvP Proofs.PsbtFinalP Proofs.PsbtCodecP.

Theorem sighash_entry_exact sec_ok fuel net ti v e rest st :
  kv [3] v = Ok e -> small v -> truthy_int (pi_hash_type st) = false ->
  in_loop sec_ok (S fuel) net ti (e ++ rest) st =
    if (length v =? 4)%nat
    then in_loop sec_ok fuel net ti rest (set_hash_type st (Some (from_le v)))
    else Err.
Proof.
  intros He Hs Hn.
  apply kv_key1 in He as [ev [Hev ->]].
  destruct (varstr_roundtrip v rest Hs) as [ev' [Hev' R]]. rewrite Hev in Hev'. inversion Hev'; subst ev'.
  cbn [app in_loop]. rewrite read_varstr_key1. cbn [bind Z.eqb Pos.eqb check]. rewrite Hn.
  cbn [negb check bind]. rewrite R. cbn [bind].
  destruct (length v =? 4)%nat; reflexivity.
Qed.

(* what is accepted is a 32-bit integer that the serialiser writes back as the same four bytes *)
Theorem sighash_value_reserialises v :
  bytes_ok v -> length v = 4%nat ->
  0 <= from_le v < 4294967296 /\ int_to_le (from_le v) 4 = Ok v.
Proof.
  intros Hb Hl. pose proof (from_le_bound v Hb) as B. rewrite Hl, pow256_4 in B. split; [exact B|].
  rewrite int_to_le_ok by (rewrite pow256_4; exact B). f_equal. now apply to_le_from_le_n.
Qed.

(* the witness of the former defect is refused now *)
Example five_byte_sighash_refused :
  forall sec_ok net ti,
  in_loop sec_ok 20 net ti [1; 3; 5; 1; 0; 0; 0; 1; 0] empty_in = Err.
Proof. intros. vm_compute. reflexivity. Qed.
