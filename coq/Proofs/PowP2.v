(* Proofs/PowP2.v — target_to_bits = Core GetCompact, calculate_new_bits = Core
   CalculateNextWorkRequired. *)
From V Require Import Base.Prelude Base.Ints Model.Helper Model.Block Model.Pow Spec.CorePow
  Proofs.PowP.

(* ------------------------------------------------------------------ *)
(* big-endian byte strings *)

Lemma from_le_app a b : from_le (a ++ b) = from_le a + pow256 (length a) * from_le b.
Proof.
  induction a as [|x a IH]; cbn [app from_le length].
  - change (pow256 0) with 1. lia.
  - rewrite IH, pow256_S. lia.
Qed.

Lemma from_be_cons b r : from_be (b :: r) = b * pow256 (length r) + from_be r.
Proof.
  unfold from_be. cbn [rev]. rewrite from_le_app, rev_length. cbn [from_le]. lia.
Qed.

Lemma from_be_bound l : bytes_ok l -> 0 <= from_be l < pow256 (length l).
Proof.
  intros H. unfold from_be. rewrite <- (rev_length l). apply from_le_bound. now apply bytes_ok_rev.
Qed.

Lemma lstrip_zero_from_be l : from_be (lstrip_zero l) = from_be l.
Proof.
  induction l as [|b r IH]; [reflexivity|]. cbn [lstrip_zero].
  destruct (Z.eqb_spec b 0) as [->|NE]; [|reflexivity].
  rewrite IH, from_be_cons. lia.
Qed.

Lemma lstrip_zero_ok l : bytes_ok l -> bytes_ok (lstrip_zero l).
Proof.
  induction l as [|b r IH]; intros H; [exact H|]. cbn [lstrip_zero].
  destruct (b =? 0); [|exact H]. apply IH. now inversion H.
Qed.

Lemma lstrip_zero_head l b r : lstrip_zero l = b :: r -> b <> 0.
Proof.
  induction l as [|x l IH]; [discriminate|]. cbn [lstrip_zero].
  destruct (Z.eqb_spec x 0) as [->|NE]; [exact IH|]. intros [= <- <-]. exact NE.
Qed.

Lemma pow256_256 k : pow256 k = 256 ^ Z.of_nat k.
Proof. reflexivity. Qed.

(* ------------------------------------------------------------------ *)
(* GetCompact in arithmetic form *)

Lemma nsize_of t L : 1 <= L -> 256 ^ (L - 1) <= t < 256 ^ L -> (ubits t + 7) / 8 = L.
Proof.
  intros HL [H1 H2]. unfold ubits.
  assert (0 < 256 ^ (L - 1)) as Hp by (apply Z.pow_pos_nonneg; lia).
  destruct (Z.leb_spec t 0) as [|_]; [lia|].
  assert (8 * (L - 1) <= Z.log2 t) as A.
  { apply Z.log2_le_pow2; [lia|]. rewrite Z.pow_mul_r by lia. exact H1. }
  assert (Z.log2 t < 8 * L) as B.
  { apply Z.log2_lt_pow2; [lia|]. rewrite Z.pow_mul_r by lia. exact H2. }
  symmetry. apply Z.div_unique with (r := Z.log2 t + 1 + 7 - 8 * L); lia.
Qed.

Lemma sign_bit_of m b0 lo : 0 <= b0 < 256 -> 0 <= lo < 65536 -> m = 65536 * b0 + lo ->
  Z.land m 8388608 = if 128 <=? b0 then 8388608 else 0.
Proof.
  intros Hb Hlo ->. change 8388608 with (2 ^ 23). rewrite land_pow2, testbit_div by lia.
  change (2 ^ 23) with 8388608.
  destruct (Z.leb_spec 128 b0) as [G|G].
  - replace ((65536 * b0 + lo) / 8388608) with 1; [reflexivity|].
    apply Z.div_unique with (r := 65536 * b0 + lo - 8388608); lia.
  - rewrite Z.div_small by lia. reflexivity.
Qed.

(* the result of GetCompact once size and the top three bytes are known *)
Definition compact_of (m L : Z) : Z :=
  if negb (Z.land m 8388608 =? 0) then Z.lor (Z.shiftr m 8) (Z.shiftl (L + 1) 24)
  else Z.lor m (Z.shiftl L 24).

Lemma get_compact_small t L :
  1 <= L <= 3 -> 256 ^ (L - 1) <= t < 256 ^ L ->
  get_compact t = compact_of (t * 256 ^ (3 - L)) L.
Proof.
  intros HL Ht. unfold get_compact. rewrite (nsize_of t L) by (try lia; exact Ht).
  destruct (Z.leb_spec L 3) as [_|]; [|lia].
  assert (0 < 256 ^ (L - 1)) as Hp by (apply Z.pow_pos_nonneg; lia).
  assert (256 ^ L <= 256 ^ 3) as HP by (apply Z.pow_le_mono_r; lia).
  change (256 ^ 3) with 16777216 in HP.
  assert (t * 256 ^ (3 - L) < 256 ^ 3) as HB.
  { replace 3 with (L + (3 - L)) at 2 by lia. rewrite Z.pow_add_r by lia.
    apply Z.mul_lt_mono_pos_r; [apply Z.pow_pos_nonneg; lia | lia]. }
  change (256 ^ 3) with 16777216 in HB.
  assert (0 < 256 ^ (3 - L)) as Hq by (apply Z.pow_pos_nonneg; lia).
  assert (u32 (Z.shiftl (t mod 2 ^ 64) (8 * (3 - L))) = t * 256 ^ (3 - L)) as ->.
  { rewrite Z.mod_small by (change (2 ^ 64) with 18446744073709551616; lia).
    rewrite Z.shiftl_mul_pow2 by lia. rewrite Z.pow_mul_r by lia. change (2 ^ 8) with 256.
    unfold u32. apply Z.mod_small. change (2 ^ 32) with 4294967296. nia. }
  unfold compact_of. destruct (negb (Z.land (t * 256 ^ (3 - L)) 8388608 =? 0)); reflexivity.
Qed.

Lemma get_compact_big t L m lo :
  3 < L -> t = m * 256 ^ (L - 3) + lo -> 0 <= lo < 256 ^ (L - 3) -> 65536 <= m < 16777216 ->
  get_compact t = compact_of m L.
Proof.
  intros HL -> Hlo Hm. unfold get_compact.
  assert (0 < 256 ^ (L - 3)) as Hp by (apply Z.pow_pos_nonneg; lia).
  assert (256 ^ (L - 1) = 65536 * 256 ^ (L - 3)) as E1.
  { replace (L - 1) with (2 + (L - 3)) by lia. rewrite Z.pow_add_r by lia. reflexivity. }
  assert (256 ^ L = 16777216 * 256 ^ (L - 3)) as E2.
  { replace L with (3 + (L - 3)) at 1 by lia. rewrite Z.pow_add_r by lia. reflexivity. }
  rewrite (nsize_of _ L) by (try lia; rewrite E1, E2; nia).
  destruct (Z.leb_spec L 3) as [|_]; [lia|].
  assert (u32 (Z.shiftr (m * 256 ^ (L - 3) + lo) (8 * (L - 3)) mod 2 ^ 64) = m) as ->.
  { rewrite Z.shiftr_div_pow2 by lia. rewrite Z.pow_mul_r by lia. change (2 ^ 8) with 256.
    rewrite Z.div_add_l by lia. rewrite (Z.div_small lo) by lia. rewrite Z.add_0_r.
    rewrite Z.mod_small by (change (2 ^ 64) with 18446744073709551616; lia).
    unfold u32. apply Z.mod_small. change (2 ^ 32) with 4294967296. lia. }
  unfold compact_of. destruct (negb (Z.land m 8388608 =? 0)); reflexivity.
Qed.

Lemma shiftr8 x y : 0 <= y < 256 -> Z.shiftr (256 * x + y) 8 = x.
Proof.
  intros H. rewrite Z.shiftr_div_pow2 by lia. change (2 ^ 8) with 256.
  replace (256 * x + y) with (y + x * 256) by lia. rewrite Z.div_add by lia. rewrite Z.div_small by lia. lia.
Qed.

(* ------------------------------------------------------------------ *)
(* (6) target_to_bits = GetCompact for EVERY 0 <= t < 2^256 (de6be4c: targets below three
   base-256 digits are padded, 0 gives 0x00000000) *)

Lemma strip_spec t : 0 <= t < 2 ^ 256 ->
  int_to_be t 32 = Ok (to_be 32 t) /\
  bytes_ok (lstrip_zero (to_be 32 t)) /\ from_be (lstrip_zero (to_be 32 t)) = t.
Proof.
  intros H. assert (0 <= t < pow256 32) as H' by (unfold pow256; exact H).
  split; [|split].
  - unfold int_to_be, to_be. destruct (Z.leb_spec 0 t); [|lia]. destruct (Z.ltb_spec t (pow256 32)); [|lia].
    reflexivity.
  - apply lstrip_zero_ok, to_be_ok.
  - rewrite lstrip_zero_from_be. now apply from_be_to_be.
Qed.

Lemma byte_of_ok l : bytes_ok l -> forall b, In b l -> 0 <= b < 256.
Proof. unfold bytes_ok. rewrite Forall_forall. intros H b Hb. apply H, Hb. Qed.

Lemma target_to_bits_all t :
  0 <= t < 2 ^ 256 ->
  exists bits, target_to_bits t = Ok bits /\ length bits = 4%nat /\ bytes_ok bits /\
               from_le bits = get_compact t.
Proof.
  intros Ht. destruct (strip_spec t Ht) as [E1 [Hok Hv]].
  unfold target_to_bits. rewrite E1. cbn [bind]. cbv zeta.
  destruct (lstrip_zero (to_be 32 t)) as [|b0 rest] eqn:ER.
  { (* t = 0 *)
    assert (t = 0) as -> by (unfold from_be in Hv; cbn in Hv; lia).
    exists [0; 0; 0; 0]. split; [reflexivity|]. split; [reflexivity|]. split; [|reflexivity].
    repeat constructor; unfold byte_ok; lia. }
  pose proof (lstrip_zero_head _ _ _ ER) as Hnz.
  assert (length (b0 :: rest) <= 32)%nat as HLen.
  { assert (forall l, length (lstrip_zero l) <= length l)%nat as HL.
    { induction l as [|x l IH]; [cbn; lia|]. cbn [lstrip_zero]. destruct (x =? 0); cbn [length] in *; lia. }
    rewrite <- ER. etransitivity; [apply HL|]. now rewrite to_be_length. }
  pose proof (byte_of_ok _ Hok) as HB.
  assert (0 <= b0 < 256) as Hb0 by (apply HB; now left).
  rewrite from_be_cons in Hv.
  assert (bytes_ok rest) as Hrest by (now inversion Hok).
  pose proof (from_be_bound rest Hrest) as Hfr.
  destruct rest as [|b1 rest1].
  { (* one byte: t = b0 *)
    unfold from_be, pow256 in Hv. cbn in Hv. assert (t = b0) as -> by lia.
    rewrite (get_compact_small b0 1) by (change (256 ^ (1 - 1)) with 1; change (256 ^ 1) with 256; lia).
    change (256 ^ (3 - 1)) with 65536. unfold compact_of.
    rewrite (sign_bit_of (b0 * 65536) b0 0) by lia.
    destruct (Z.ltb_spec 127 b0) as [G|G].
    - destruct (Z.leb_spec 128 b0) as [_|]; [|lia]. change (negb (8388608 =? 0)) with true. cbv iota.
      exists [0; b0; 0; 2]. split; [reflexivity|]. split; [reflexivity|]. split.
      { repeat constructor; unfold byte_ok; lia. }
      replace (b0 * 65536) with (256 * (256 * b0) + 0) by lia. rewrite shiftr8 by lia.
      rewrite lor_disjoint by lia. cbn [from_le]. lia.
    - destruct (Z.leb_spec 128 b0) as [|_]; [lia|]. change (negb (0 =? 0)) with false. cbv iota.
      exists [0; 0; b0; 1]. split; [reflexivity|]. split; [reflexivity|]. split.
      { repeat constructor; unfold byte_ok; lia. }
      rewrite lor_disjoint by lia. cbn [from_le]. lia. }
  assert (0 <= b1 < 256) as Hb1 by (apply HB; right; now left).
  destruct rest1 as [|b2 tl].
  - (* two bytes *)
    unfold from_be, pow256 in Hv. cbn in Hv.
    rewrite (get_compact_small t 2) by (change (256 ^ (2 - 1)) with 256; change (256 ^ 2) with 65536; lia).
    change (256 ^ (3 - 2)) with 256. unfold compact_of.
    rewrite (sign_bit_of (t * 256) b0 (256 * b1)) by lia.
    destruct (Z.ltb_spec 127 b0) as [G|G].
    + destruct (Z.leb_spec 128 b0) as [_|]; [|lia]. change (negb (8388608 =? 0)) with true. cbv iota.
      exists [b1; b0; 0; 3]. split; [reflexivity|]. split; [reflexivity|]. split.
      { repeat constructor; unfold byte_ok; lia. }
      replace (t * 256) with (256 * t + 0) by lia. rewrite shiftr8 by lia.
      rewrite lor_disjoint by lia. cbn [from_le]. lia.
    + destruct (Z.leb_spec 128 b0) as [|_]; [lia|]. change (negb (0 =? 0)) with false. cbv iota.
      exists [0; b1; b0; 2]. split; [reflexivity|]. split; [reflexivity|]. split.
      { repeat constructor; unfold byte_ok; lia. }
      rewrite lor_disjoint by lia. cbn [from_le]. lia.
  - (* at least three bytes *)
    assert (0 <= b2 < 256) as Hb2 by (apply HB; right; right; now left).
    assert (bytes_ok tl) as Htl.
    { inversion Hrest as [|? ? _ Hr1]; subst. now inversion Hr1. }
    pose proof (from_be_bound tl Htl) as Hft.
    rewrite !from_be_cons in Hv. cbn [length] in Hv. rewrite !pow256_S in Hv.
    set (k := length tl) in *. set (P := pow256 k) in *.
    assert (0 < P) as HP by apply pow256_pos.
    set (m := 65536 * b0 + 256 * b1 + b2).
    assert (t = m * P + from_be tl) as Et by (unfold m; lia).
    assert (65536 <= m < 16777216) as Hm by (unfold m; lia).
    assert (zlen (b0 :: b1 :: b2 :: tl) = Z.of_nat k + 3) as EL.
    { unfold zlen. cbn [length]. fold k. lia. }
    assert (get_compact t = compact_of m (Z.of_nat k + 3)) as EC.
    { destruct k as [|k'] eqn:Ek.
      - unfold P, pow256 in *. cbn in Et, Hft. assert (from_be tl = 0) as Z0 by lia.
        rewrite (get_compact_small t 3) by (change (256 ^ (3 - 1)) with 65536; change (256 ^ 3) with 16777216; lia).
        change (256 ^ (3 - 3)) with 1. f_equal. lia.
      - apply (get_compact_big t _ m (from_be tl)); [lia | | | exact Hm].
        + replace (Z.of_nat (S k') + 3 - 3) with (Z.of_nat (S k')) by lia. exact Et.
        + replace (Z.of_nat (S k') + 3 - 3) with (Z.of_nat (S k')) by lia. exact Hft. }
    rewrite EC. unfold compact_of. rewrite (sign_bit_of m b0 (256 * b1 + b2)) by (unfold m; lia).
    cbn [firstn]. rewrite EL.
    assert (Z.of_nat k + 3 <= 32) as Hk32 by (cbn [length] in HLen; fold k in HLen; lia).
    destruct (Z.ltb_spec 127 b0) as [G|G].
    + destruct (Z.leb_spec 128 b0) as [_|]; [|lia]. change (negb (8388608 =? 0)) with true. cbv iota.
      exists [b1; b0; 0; Z.of_nat k + 3 + 1]. split; [reflexivity|]. split; [reflexivity|]. split.
      { repeat constructor; unfold byte_ok; lia. }
      replace m with (256 * (256 * b0 + b1) + b2) by (unfold m; lia). rewrite shiftr8 by lia.
      rewrite lor_disjoint by lia. cbn [from_le]. lia.
    + destruct (Z.leb_spec 128 b0) as [|_]; [lia|]. change (negb (0 =? 0)) with false. cbv iota.
      exists [b2; b1; b0; Z.of_nat k + 3]. split; [reflexivity|]. split; [reflexivity|]. split.
      { repeat constructor; unfold byte_ok; lia. }
      rewrite lor_disjoint by lia. cbn [from_le]. unfold m. lia.
Qed.

(* outside [0, 2^256): int.to_bytes raises OverflowError *)
Lemma target_to_bits_out_of_range t : t < 0 \/ 2 ^ 256 <= t -> target_to_bits t = Err.
Proof.
  intros H. unfold target_to_bits, int_to_be.
  destruct (Z.leb_spec 0 t); [|reflexivity]. destruct (Z.ltb_spec t (pow256 32)) as [L|]; [|reflexivity].
  unfold pow256 in L. cbn in L. lia.
Qed.

(* the statement for 0x8000 <= t, kept from before the fix *)
Lemma target_to_bits_core t :
  32768 <= t < 2 ^ 256 ->
  exists bits, target_to_bits t = Ok bits /\ length bits = 4%nat /\ bytes_ok bits /\
               from_le bits = get_compact t.
Proof. intros H. apply target_to_bits_all. lia. Qed.

(* the two round trips through the compact form *)
Lemma target_bits_target t bits :
  0 <= t < 2 ^ 256 -> target_to_bits t = Ok bits ->
  bits_to_target bits =
  let '(v, neg, ovf) := set_compact (get_compact t) in if neg || ovf then Err else Ok (PInt v).
Proof.
  intros Ht E. destruct (target_to_bits_all t Ht) as [b [E' [L [Hok F]]]].
  rewrite E in E'. injection E' as <-. rewrite <- F. now apply bits_to_target_eq_core.
Qed.

(* ------------------------------------------------------------------ *)
(* (7) retarget *)

Lemma max_target_compact v :
  MAX_TARGET <= v <= pow_limit -> get_compact v = 486604799.
Proof.
  intros Hv. unfold MAX_TARGET, pow_limit in *. change (29 - 3) with 26 in Hv.
  set (P := 256 ^ 25) in *.
  assert (0 < P) as HP by reflexivity.
  change (65535 * 256 ^ 26) with (16776960 * P) in Hv. change (2 ^ 224) with (16777216 * P) in Hv.
  set (m := v / P). set (lo := v mod P).
  assert (v = m * P + lo) as E by (unfold m, lo; rewrite Z.mul_comm; apply Z.div_mod; lia).
  assert (0 <= lo < P) as Hlo by (unfold lo; apply Z.mod_pos_bound; lia).
  assert (16776960 <= m <= 16777215) as Hm.
  { split.
    - unfold m. apply Z.div_le_lower_bound; lia.
    - assert (m < 16777216); [|lia]. unfold m. apply Z.div_lt_upper_bound; lia. }
  rewrite (get_compact_big v 28 m lo); [| lia | exact E | exact Hlo | lia].
  unfold compact_of. rewrite (sign_bit_of m 255 (m - 65536 * 255)) by lia.
  change (128 <=? 255) with true. cbv iota. change (negb (8388608 =? 0)) with true. cbv iota.
  replace m with (256 * 65535 + (m - 16776960)) by lia. rewrite shiftr8 by lia. reflexivity.
Qed.

Lemma set_compact_nonneg n : 0 <= n -> 0 <= fst (fst (set_compact n)).
Proof.
  intros Hn. unfold set_compact. cbn [fst].
  destruct (Z.shiftr n 24 <=? 3).
  - apply Z.shiftr_nonneg. apply Z.land_nonneg. right. lia.
  - unfold u256. apply Z.mod_pos_bound. reflexivity.
Qed.

(* calculate_new_bits = CalculateNextWorkRequired for EVERY previous four-byte bits value whose
   target Core accepts (no negative / overflow flag, at most powLimit) — no lower bound any more *)
Lemma retarget_core_all bits td v :
  bytes_ok bits -> length bits = 4%nat ->
  set_compact (from_le bits) = (v, false, false) ->
  v <= pow_limit ->
  exists nb, calculate_new_bits bits td = Ok nb /\ length nb = 4%nat /\
             from_le nb = next_work_required (from_le bits) td.
Proof.
  intros Hok Hlen SC Hv.
  pose proof (bits_to_target_eq_core bits Hok Hlen) as Ht. rewrite SC in Ht. cbn [orb] in Ht.
  assert (0 <= v) as Hv0.
  { pose proof (set_compact_nonneg (from_le bits)) as H0. rewrite SC in H0. cbn [fst] in H0.
    apply H0. pose proof (from_le_bound bits Hok). lia. }
  unfold calculate_new_bits, next_work_required. rewrite Ht, SC. cbn [bind].
  change pow_target_timespan with TWO_WEEKS.
  set (tdp := if (if td >? TWO_WEEKS * 4 then TWO_WEEKS * 4 else td) <? TWO_WEEKS / 4
              then TWO_WEEKS / 4 else if td >? TWO_WEEKS * 4 then TWO_WEEKS * 4 else td).
  set (tdc := if (if td <? TWO_WEEKS / 4 then TWO_WEEKS / 4 else td) >? TWO_WEEKS * 4
              then TWO_WEEKS * 4 else if td <? TWO_WEEKS / 4 then TWO_WEEKS / 4 else td).
  assert (tdp = tdc /\ 302400 <= tdc <= 4838400) as [-> Htd].
  { unfold tdp, tdc. change (TWO_WEEKS * 4) with 4838400. change (TWO_WEEKS / 4) with 302400.
    destruct (Z.gtb_spec td 4838400); destruct (Z.ltb_spec td 302400);
      repeat match goal with |- context [?a <? ?b] => destruct (Z.ltb_spec a b)
                        | |- context [?a >? ?b] => destruct (Z.gtb_spec a b) end; lia. }
  assert (v * tdc < 2 ^ 256) as Hmul.
  { unfold pow_limit in Hv. apply Z.le_lt_trans with (m := (2 ^ 224 - 1) * 4838400); [nia | reflexivity]. }
  unfold u256. rewrite (Z.mod_small (v * tdc)) by nia.
  set (nt := v * tdc / TWO_WEEKS).
  assert (0 <= nt) as Hnt1.
  { unfold nt. apply Z.div_pos; [nia | reflexivity]. }
  assert (nt < 2 ^ 256) as Hnt2.
  { unfold nt. apply Z.div_lt_upper_bound; [reflexivity|]. change TWO_WEEKS with 1209600. nia. }
  destruct (Z.gtb_spec nt MAX_TARGET) as [GM|GM].
  - destruct (target_to_bits_all MAX_TARGET ltac:(split; [|reflexivity]; unfold MAX_TARGET; lia))
      as [nb [E1 [E2 [_ E3]]]].
    exists nb. split; [exact E1|]. split; [exact E2|]. rewrite E3.
    rewrite (max_target_compact MAX_TARGET) by (unfold MAX_TARGET, pow_limit; split; [lia | intros H; discriminate H]).
    destruct (Z.gtb_spec nt pow_limit) as [GP|GP].
    + symmetry. apply max_target_compact. unfold MAX_TARGET, pow_limit. split; [intros H; discriminate H | lia].
    + symmetry. apply max_target_compact. lia.
  - destruct (Z.gtb_spec nt pow_limit) as [GP|GP].
    { unfold MAX_TARGET, pow_limit in *. change (2 ^ 224) with (65536 * 256 ^ 26) in GP.
      change (29 - 3) with 26 in GM. lia. }
    destruct (target_to_bits_all nt ltac:(lia)) as [nb [E1 [E2 [_ E3]]]].
    exists nb. split; [exact E1|]. split; [exact E2 | exact E3].
Qed.

Lemma compact_guard_bytes bits : compact_guard bits = true -> bytes_ok bits /\ length bits = 4%nat.
Proof.
  unfold compact_guard. destruct bits as [|b0 [|b1 [|b2 [|e [|? ?]]]]]; try discriminate.
  intros G. apply andb_true_iff in G as [G _]. apply andb_true_iff in G as [G _].
  apply andb_true_iff in G as [Gok _]. split; [now apply bytes_okb_ok | reflexivity].
Qed.

(* the statement with the guard and the lower bound, kept from before the fix *)
Lemma retarget_core bits td v :
  compact_guard bits = true ->
  set_compact (from_le bits) = (v, false, false) ->
  131072 <= v <= pow_limit ->
  exists nb, calculate_new_bits bits td = Ok nb /\ length nb = 4%nat /\
             from_le nb = next_work_required (from_le bits) td.
Proof.
  intros G SC Hv. destruct (compact_guard_bytes bits G) as [Hok Hlen].
  apply (retarget_core_all bits td v Hok Hlen SC). lia.
Qed.
