(* Proofs/HdPathP.v — BIP32 path TEXT: what the two traverse loops read out of a path string,
   is_valid_bip32_path, combine_bip32_paths.
   Main results: [combine_indexes] (the index list of a combined path is the concatenation),
   [valid_path_indexes] (a valid path parses, every index is below 2^32, at most 255 steps),
   [tidy_components] (for text without surrounding blanks and without "//" the forgiving
   normalisation of is_valid/combine reads the same components as traverse). *)
From V Require Import Base.Prelude Base.Ints Model.Hd Proofs.HdP.

Ltac zb_atom c := lazymatch c with context [if _ then _ else _] => fail | _ => idtac end.
Ltac zb1 :=
  match goal with
  | |- context [?a =? ?b] => zb_atom a; zb_atom b; destruct (Z.eqb_spec a b)
  | |- context [?a <=? ?b] => zb_atom a; zb_atom b; destruct (Z.leb_spec a b)
  | |- context [?a <? ?b] => zb_atom a; zb_atom b; destruct (Z.ltb_spec a b)
  end; cbn [andb orb negb]; try lia.
Ltac zb := repeat zb1; try reflexivity; try lia; try discriminate.

(* the character map of path.lower().replace("h", "'") *)
Definition tr (c : Z) : Z := if lower_c c =? 104 then 39 else lower_c c.

Lemma norm_trav_map p : norm_trav p = map tr p.
Proof. unfold norm_trav, repl_c, lower. rewrite map_map. reflexivity. Qed.

Lemma tr_sep x : (tr x =? 47) = (x =? 47).
Proof. unfold tr, lower_c. zb. Qed.

(* ---------------------------------------------------------------- split / mapM *)
Lemma split_on_nonempty sep s : split_on sep s <> [].
Proof.
  destruct s as [|x r]; cbn [split_on]; [discriminate|].
  destruct (x =? sep); [discriminate|]. destruct (split_on sep r); discriminate.
Qed.

Lemma split_on_app sep a b : split_on sep (a ++ sep :: b) = split_on sep a ++ split_on sep b.
Proof.
  induction a as [|x a IH]; cbn [app split_on].
  - rewrite Z.eqb_refl. reflexivity.
  - destruct (x =? sep); [now rewrite IH|]. rewrite IH.
    destruct (split_on sep a) eqn:E; [exfalso; eapply split_on_nonempty; eauto|]. reflexivity.
Qed.

Lemma split_on_map f sep s :
  (forall x, (f x =? sep) = (x =? sep)) ->
  split_on sep (map f s) = map (map f) (split_on sep s).
Proof.
  intros Hf. induction s as [|x r IH]; cbn [map split_on]; [reflexivity|].
  rewrite Hf. destruct (x =? sep); cbn [map]; [now rewrite IH|].
  rewrite IH. destruct (split_on sep r); reflexivity.
Qed.

Lemma split_on_Forall (Q : Z -> Prop) sep s : Forall Q s -> Forall (Forall Q) (split_on sep s).
Proof.
  induction s as [|x r IH]; intros H; cbn [split_on]; [repeat constructor|].
  inversion H as [|? ? Hx Hr]; subst. specialize (IH Hr).
  destruct (x =? sep); [constructor; [constructor | exact IH]|].
  destruct (split_on sep r) as [|c cs]; [repeat constructor; exact Hx|].
  inversion IH; subst. constructor; [constructor|]; assumption.
Qed.

Lemma split_on_m_slash l : split_on 47 (109 :: 47 :: l) = [109] :: split_on 47 l.
Proof. reflexivity. Qed.

Lemma mapM_app {A B} (f : A -> result B) a b :
  mapM f (a ++ b) = (x <- mapM f a ;; y <- mapM f b ;; Ok (x ++ y)).
Proof.
  induction a as [|c a IH]; cbn [app mapM bind].
  - destruct (mapM f b); reflexivity.
  - destruct (f c); cbn [bind]; [|reflexivity]. rewrite IH.
    destruct (mapM f a); cbn [bind]; [|reflexivity]. destruct (mapM f b); reflexivity.
Qed.

Lemma mapM_map_all {A A' B} (f : A' -> result B) (g : A -> A') (R : B -> Prop) cs :
  Forall (fun c => exists v, f (g c) = Ok v /\ R v) cs ->
  exists l, mapM f (map g cs) = Ok l /\ Forall R l /\ length l = length cs.
Proof.
  induction 1 as [|c cs (v & Hv & HR) _ (l & Hl & HF & Hlen)]; cbn [map mapM].
  - exists []. repeat split. constructor.
  - exists (v :: l). rewrite Hv, Hl. cbn [bind length]. repeat split; [constructor; auto | lia].
Qed.

(* ---------------------------------------------------------------- components *)
(* both traverse methods, for an arbitrary reading [ci] of one component *)
Definition path_indexes_gen (ci : list Z -> result Z) (path : list Z) : result (list Z) :=
  cs <- path_components path ;; mapM ci cs.

Lemma path_indexes_priv_gen p : path_indexes_priv p = path_indexes_gen comp_index_priv p.
Proof. reflexivity. Qed.
Lemma path_indexes_pub_gen p : path_indexes_pub p = path_indexes_gen comp_index_pub p.
Proof. reflexivity. Qed.

Lemma path_components_root : path_components [109] = Ok [].
Proof. reflexivity. Qed.

Lemma path_components_ms x : path_components (109 :: 47 :: x) = Ok (split_on 47 (map tr x)).
Proof.
  unfold path_components. rewrite norm_trav_map. cbn [map].
  change (tr 109) with 109. change (tr 47) with 47.
  change (starts_with [109] (109 :: 47 :: map tr x)) with true. cbv iota.
  rewrite split_on_m_slash. reflexivity.
Qed.

Lemma valid_shape p :
  is_valid_path p = true -> norm_valid p = [109] \/ exists x, norm_valid p = 109 :: 47 :: x.
Proof.
  unfold is_valid_path. destruct (beq (norm_valid p) [109]) eqn:E1.
  - intros _. left. now apply beq_eq.
  - destruct (starts_with [109; 47] (norm_valid p)) eqn:E2; cbn [negb]; [|discriminate].
    intros _. right. destruct (norm_valid p) as [|c1 [|c2 x]]; cbn [starts_with] in E2; try discriminate.
    + now rewrite andb_false_r in E2.
    + apply andb_true_iff in E2 as [A B]. apply andb_true_iff in B as [B _].
      apply Z.eqb_eq in A, B. subst. eauto.
Qed.

(* (3, text level) the indexes of a combined path are the concatenation of the indexes *)
Lemma combine_indexes a b :
  is_valid_path a = true -> is_valid_path b = true ->
  exists z, combine_paths a b = Ok z /\
    forall ci, path_indexes_gen ci z =
               (x <- path_indexes_gen ci (norm_valid a) ;;
                y <- path_indexes_gen ci (norm_valid b) ;; Ok (x ++ y)).
Proof.
  intros Ha Hb. unfold combine_paths. rewrite Ha, Hb. cbn [negb].
  destruct (valid_shape a Ha) as [Ea | [x Ea]]; rewrite Ea.
  - change (beq [109] [109]) with true. cbv iota. eexists. split; [reflexivity|].
    intros ci. unfold path_indexes_gen at 2. rewrite path_components_root. cbn [bind mapM app].
    destruct (path_indexes_gen ci (norm_valid b)); reflexivity.
  - change (beq (109 :: 47 :: x) [109]) with false. cbv iota.
    destruct (valid_shape b Hb) as [Eb | [y Eb]]; rewrite Eb.
    + change (beq [109] [109]) with true. cbv iota. eexists. split; [reflexivity|].
      intros ci. unfold path_indexes_gen at 3. rewrite path_components_root. cbn [bind mapM].
      destruct (path_indexes_gen ci (109 :: 47 :: x)); cbn [bind]; [|reflexivity].
      now rewrite app_nil_r.
    + change (beq (109 :: 47 :: y) [109]) with false. cbv iota. cbn [skipn].
      eexists. split; [reflexivity|]. intros ci. unfold path_indexes_gen.
      change ((109 :: 47 :: x) ++ 47 :: y) with (109 :: 47 :: (x ++ 47 :: y)).
      rewrite !path_components_ms. cbn [bind]. rewrite map_app. cbn [map].
      change (tr 47) with 47. rewrite split_on_app. apply mapM_app.
Qed.

(* ---------------------------------------------------------------- int() is blind to h / ' / case *)
Definition other (x : Z) : Prop :=
  is_ws_int x = false /\ is_digit x = false /\ x <> 43 /\ x <> 45 /\ x <> 95.

Section IntMap.
Variable f : Z -> Z.
Hypothesis Hf : forall x, f x = x \/ (other x /\ other (f x)).

Lemma ws_int_map x : is_ws_int (f x) = is_ws_int x.
Proof. destruct (Hf x) as [-> | [(A & _) (B & _)]]; congruence. Qed.

Lemma lstrip_int_map s : lstrip_int (map f s) = map f (lstrip_int s).
Proof.
  induction s as [|x r IH]; cbn [map lstrip_int]; [reflexivity|].
  rewrite ws_int_map. destruct (is_ws_int x); [exact IH | reflexivity].
Qed.

Lemma strip_int_map s : strip_int (map f s) = map f (strip_int s).
Proof.
  unfold strip_int. rewrite lstrip_int_map, <- map_rev, lstrip_int_map, <- map_rev. reflexivity.
Qed.

Lemma dig_acc_map a p s : dig_acc a p (map f s) = dig_acc a p s.
Proof.
  revert a p. induction s as [|x r IH]; intros a p; cbn [map dig_acc]; [reflexivity|].
  destruct (Hf x) as [-> | [(_ & A & _ & _ & A95) (_ & B & _ & _ & B95)]].
  - destruct (is_digit x); [apply IH|]. destruct ((x =? 95) && p); [apply IH | reflexivity].
  - rewrite A, B. apply Z.eqb_neq in A95, B95. rewrite A95, B95. reflexivity.
Qed.

Lemma digit_map x : is_digit (f x) = is_digit x.
Proof. destruct (Hf x) as [-> | [(_ & A & _) (_ & B & _)]]; congruence. Qed.

(* the CPython digit limit counts digit characters: f neither adds nor removes one *)
Lemma filter_digit_map s : length (filter is_digit (map f s)) = length (filter is_digit s).
Proof.
  induction s as [|x r IH]; cbn [map filter]; [reflexivity|].
  rewrite digit_map. destruct (is_digit x); cbn [length]; now rewrite IH.
Qed.

Lemma dig_lim_map s : dig_lim (map f s) = dig_lim s.
Proof. unfold dig_lim, zlen. now rewrite filter_digit_map, dig_acc_map. Qed.

Lemma py_int_map s : py_int (map f s) = py_int s.
Proof.
  unfold py_int. rewrite strip_int_map. destruct (strip_int s) as [|c r]; cbn [map]; [reflexivity|].
  pose proof (dig_lim_map (c :: r)) as Hd. cbn [map] in Hd.
  destruct (Hf c) as [E | [(_ & _ & A43 & A45 & _) (_ & _ & B43 & B45 & _)]].
  - rewrite E in *. rewrite dig_lim_map, Hd. reflexivity.
  - apply Z.eqb_neq in A43, A45, B43, B45. rewrite A43, A45, B43, B45. exact Hd.
Qed.
End IntMap.

Lemma tr_class x : tr x = x \/ (other x /\ other (tr x)).
Proof.
  unfold tr, lower_c, other, is_ws_int, is_digit.
  destruct (Z.eq_dec x 104) as [->|N104]; [right; cbn; repeat split; discriminate|].
  destruct (Z_le_dec 65 x) as [L|L]; destruct (Z_le_dec x 90) as [U|U].
  2-4: left; zb.
  right. zb; repeat split; try lia; zb.
Qed.

Lemma py_int_tr s : py_int (map tr s) = py_int s.
Proof. apply py_int_map. exact tr_class. Qed.

(* ---------------------------------------------------------------- what norm_valid leaves *)
(* characters of a normalised path: no apostrophe, no upper-case letter *)
Definition Pn (c : Z) : Prop := c <> 39 /\ ~ (65 <= c <= 90).

Lemma lstrip_Forall (Q : Z -> Prop) s : Forall Q s -> Forall Q (lstrip s).
Proof.
  induction s as [|x r IH]; intros H; cbn [lstrip]; [constructor|].
  destruct (is_ws x); [inversion H; auto | exact H].
Qed.

Lemma strip_Forall (Q : Z -> Prop) s : Forall Q s -> Forall Q (strip s).
Proof.
  intros H. unfold strip. apply Forall_rev, lstrip_Forall, Forall_rev, lstrip_Forall, H.
Qed.

Lemma repl_dslash_Forall (Q : Z -> Prop) s : Q 47 -> Forall Q s -> Forall Q (repl_dslash s).
Proof.
  intros Q47.
  assert (H : forall n s, (length s <= n)%nat -> Forall Q s -> Forall Q (repl_dslash s)).
  { induction n as [|n IH]; intros t Hl HF.
    - destruct t; [constructor | cbn in Hl; lia].
    - destruct t as [|a [|b r]]; [constructor | exact HF |].
      change (repl_dslash (a :: b :: r))
        with (if (a =? 47) && (b =? 47) then 47 :: repl_dslash r else a :: repl_dslash (b :: r)).
      inversion HF as [|? ? Ha Hbr]; subst. inversion Hbr as [|? ? Hb Hr]; subst.
      cbn [length] in Hl.
      destruct ((a =? 47) && (b =? 47)); constructor; auto; apply IH; auto; cbn [length]; lia. }
  intros HF. eapply H; eauto.
Qed.

Lemma norm_valid_Pn p : Forall Pn (norm_valid p).
Proof.
  unfold norm_valid. apply repl_dslash_Forall; [unfold Pn; lia|].
  unfold repl_c. apply Forall_forall. intros c Hc. apply in_map_iff in Hc as (x & <- & Hx).
  assert (Hu : ~ (65 <= x <= 90)).
  { assert (HF : Forall (fun c => ~ (65 <= c <= 90)) (strip (lower p))).
    { apply strip_Forall. unfold lower. apply Forall_forall. intros y Hy.
      apply in_map_iff in Hy as (z & <- & _). unfold lower_c. zb. }
    rewrite Forall_forall in HF. exact (HF x Hx). }
  unfold Pn. zb.
Qed.

Lemma tr_Pn x : Pn x -> tr x = if x =? 104 then 39 else x.
Proof. unfold Pn, tr, lower_c. intros [A B]. zb. Qed.

Lemma map_removelast {A B} (g : A -> B) l : removelast (map g l) = map g (removelast l).
Proof.
  induction l as [|a [|b r] IH]; cbn [map removelast]; [reflexivity | reflexivity |].
  cbn [map removelast] in IH. now rewrite IH.
Qed.

Lemma ends_with_tr c : Forall Pn c -> ends_with_c 39 (map tr c) = ends_with_c 104 c.
Proof.
  intros H. unfold ends_with_c. rewrite <- map_rev.
  apply Forall_rev in H. destruct (rev c) as [|x r]; cbn [map]; [reflexivity|].
  inversion H as [|? ? Hx _]; subst. rewrite (tr_Pn x Hx). destruct Hx as [A _]. zb.
Qed.

Lemma comp_index_priv_valid c :
  Forall Pn c -> valid_sub c = true ->
  exists v, comp_index_priv (map tr c) = Ok v /\ 0 <= v < 4294967296.
Proof.
  intros HP. unfold valid_sub, comp_index_priv. rewrite (ends_with_tr c HP).
  destruct (ends_with_c 104 c).
  - rewrite map_removelast, py_int_tr. destruct (py_int (removelast c)) as [v|]; [|discriminate].
    intros H. exists (v + hardened). cbn [bind]. split; [reflexivity|]. unfold hardened in *. lia.
  - rewrite py_int_tr. destruct (py_int c) as [v|]; [|discriminate].
    intros H. exists v. split; [reflexivity|]. unfold hardened in *. lia.
Qed.

(* a valid path can be traversed privately (as far as the text is concerned): every index is
   in [0, 2^32) and there are at most 255 of them *)
Lemma valid_path_indexes p :
  is_valid_path p = true ->
  exists l, path_indexes_priv (norm_valid p) = Ok l /\
            Forall (fun i => 0 <= i < 4294967296) l /\ (length l <= 255)%nat.
Proof.
  intros Hv. pose proof (norm_valid_Pn p) as HP.
  destruct (valid_shape p Hv) as [E | [x E]].
  - rewrite E. exists []. repeat split; [constructor | cbn; lia].
  - unfold is_valid_path in Hv. rewrite E in Hv, HP |- *.
    change (beq (109 :: 47 :: x) [109]) with false in Hv.
    change (starts_with [109; 47] (109 :: 47 :: x)) with true in Hv.
    cbn [negb skipn] in Hv.
    destruct (256 <=? zlen (split_on 47 x)) eqn:E256; [discriminate|].
    rewrite forallb_forall in Hv.
    inversion HP as [|? ? _ HP1]; subst. inversion HP1 as [|? ? _ HPx]; subst.
    pose proof (split_on_Forall Pn 47 x HPx) as HPc. rewrite Forall_forall in HPc.
    rewrite path_indexes_priv_gen. unfold path_indexes_gen. rewrite path_components_ms. cbn [bind].
    rewrite (split_on_map tr 47 x tr_sep).
    destruct (mapM_map_all comp_index_priv (map tr) (fun v => 0 <= v < 4294967296) (split_on 47 x))
      as (l & Hl & HF & Hlen).
    { apply Forall_forall. intros c Hc. apply comp_index_priv_valid; auto. }
    exists l. repeat split; auto. rewrite Hlen. unfold zlen in E256. lia.
Qed.

(* ---------------------------------------------------------------- tidy text *)
(* no surrounding blanks, no "//": the forgiving normalisation only changes case and ' -> h *)
Definition tidy (p : list Z) : bool := beq (norm_valid p) (repl_c 39 104 (lower p)).

Lemma tidy_components p : tidy p = true -> path_components (norm_valid p) = path_components p.
Proof.
  unfold tidy. intros H. apply beq_eq in H. rewrite H.
  unfold path_components. rewrite !norm_trav_map. unfold repl_c, lower. rewrite !map_map.
  assert (E : map (fun x => tr (if lower_c x =? 39 then 104 else lower_c x)) p = map tr p).
  { apply map_ext. intros x. unfold tr, lower_c. zb. }
  rewrite E. reflexivity.
Qed.

Lemma tidy_indexes ci p : tidy p = true -> path_indexes_gen ci (norm_valid p) = path_indexes_gen ci p.
Proof. intros H. unfold path_indexes_gen. now rewrite tidy_components. Qed.

(* text-level composition for tidy, valid paths, for the private and the public reading *)
Lemma parse_combine ci a b :
  is_valid_path a = true -> is_valid_path b = true -> tidy a = true -> tidy b = true ->
  exists z, combine_paths a b = Ok z /\
    path_indexes_gen ci z =
    (x <- path_indexes_gen ci a ;; y <- path_indexes_gen ci b ;; Ok (x ++ y)).
Proof.
  intros Ha Hb Ta Tb. destruct (combine_indexes a b Ha Hb) as (z & Hz & H).
  exists z. split; [exact Hz|]. rewrite (H ci), !tidy_indexes by assumption. reflexivity.
Qed.

(* what the public traverse reads, the private traverse reads too *)
Lemma comp_index_pub_priv c v : comp_index_pub c = Ok v -> comp_index_priv c = Ok v.
Proof. unfold comp_index_pub, comp_index_priv. destruct (ends_with_c 39 c); [discriminate | auto]. Qed.

Lemma mapM_pub_priv cs l : mapM comp_index_pub cs = Ok l -> mapM comp_index_priv cs = Ok l.
Proof.
  revert l. induction cs as [|c r IH]; intros l; cbn [mapM]; [auto|].
  intros H. apply bind_ok in H as (v & Hv & H). apply bind_ok in H as (t & Ht & H).
  rewrite (comp_index_pub_priv _ _ Hv), (IH _ Ht). exact H.
Qed.

Lemma path_indexes_pub_priv p l : path_indexes_pub p = Ok l -> path_indexes_priv p = Ok l.
Proof.
  unfold path_indexes_pub, path_indexes_priv. destruct (path_components p); cbn [bind]; [|discriminate].
  apply mapM_pub_priv.
Qed.
