(* Proofs/PsbtCreateValidP.v — Creator + Updater: PSBT.update applied to the bare PSBT of an unsigned
   transaction (blank maps, no global xpubs) with consistent lookups gives a PSBT that PSBT.validate
   accepts — whatever part of the lookups is missing. *)
From V Require Import Base.Prelude Base.Ints Model.Helper Model.Script Model.Tx Model.Psbt
  Model.PsbtUpdate Proofs.PsbtDictP Proofs.PsbtFinalP Proofs.PsbtUpdateP Proofs.PsbtUpdateValidP.

Definition bare (t : tx) (extra : dict bytes) : psbt :=
  {| p_tx := t; p_ins := repeat empty_in (length (t_ins t)); p_outs := repeat empty_out (length (t_outs t));
     p_hd := []; p_extra := extra |}.

Section CV.
Variable hash160 sha256 hash256 : bytes -> bytes.
Variable sig_parse_ok : bytes -> bytes -> bool.
Variable ecdsa_verify : bytes -> Z -> bytes -> bool.
Variable sighash_legacy : tx -> Z -> option script -> result Z.
Variable sighash_segwit : tx -> Z -> option script -> option script -> result Z.
Variable verify_input : tx -> Z -> script -> option (list bytes) -> result bool.
Variable descends : hd_pub -> bytes -> bytes -> bool.

Notation val := (validate hash160 sha256 hash256 sig_parse_ok ecdsa_verify sighash_legacy sighash_segwit
                          verify_input descends).
Notation ins_val := (ins_validate hash160 sha256 hash256 sig_parse_ok ecdsa_verify sighash_legacy
                          sighash_segwit verify_input descends).
Notation in_full := (in_full_validate hash160 sha256 hash256 sig_parse_ok ecdsa_verify sighash_legacy
                          sighash_segwit verify_input descends).

Lemma all_ok_no_xpub (named : dict bytes) :
  all_ok (fun e => hd_check descends [] (fst e) (snd e)) named = Ok tt.
Proof. induction named as [|e r IH]; [reflexivity|]. cbn. exact IH. Qed.

Variables (txl : dict tx) (pk : pk_lookup) (rl wl : dict script).
Hypothesis LK : lookups_ok hash160 sha256 hash256 txl pk rl wl.

Lemma in_full_after_update t i ti st' :
  s_cmds (i_script ti) = [] ->
  in_update txl pk rl wl empty_in ti = Ok st' -> in_full t [] i st' ti = Ok tt.
Proof.
  intros Hs H. pose proof (in_update_blank_validates hash160 sha256 hash256 _ _ _ _ _ _ LK H) as V.
  destruct (in_update_preserves _ _ _ _ _ _ _ H) as [S1 _ S3 _ _ _ _ _ _ _]. cbn in S1, S3.
  unfold in_full_validate. rewrite V. cbn [bind]. rewrite Hs. cbn [check bind]. rewrite S3, S1. cbn [all_ok bind].
  apply all_ok_no_xpub.
Qed.

Lemma ins_after_update t : forall tis i ins',
  Forall (fun ti => s_cmds (i_script ti) = []) tis ->
  ins_update txl pk rl wl (repeat empty_in (length tis)) tis = Ok ins' ->
  ins_val t [] i ins' tis = Ok tt /\ length ins' = length tis.
Proof.
  induction tis as [|ti tis IH]; intros i ins' F H; cbn [length repeat ins_update] in H.
  - inversion H; subst. split; reflexivity.
  - inversion F as [|? ? F1 F2]; subst.
    apply bind_ok in H as [a [Ea H]]. apply bind_ok in H as [b [Eb H]]. inversion H; subst ins'.
    destruct (IH (i + 1) b F2 Eb) as [V L]. split; [|cbn; now rewrite L].
    cbn [ins_validate]. rewrite (in_full_after_update t i ti a F1 Ea). cbn [bind]. exact V.
Qed.

Lemma outs_after_update : forall tos outs',
  outs_update pk rl wl (repeat empty_out (length tos)) tos = Ok outs' ->
  outs_validate hash160 sha256 descends [] outs' tos = Ok tt /\ length outs' = length tos.
Proof.
  induction tos as [|to tos IH]; intros outs' H; cbn [length repeat outs_update] in H.
  - inversion H; subst. split; reflexivity.
  - apply bind_ok in H as [a [Ea H]]. apply bind_ok in H as [b [Eb H]]. inversion H; subst outs'.
    destruct (IH b Eb) as [V L]. split; [|cbn; now rewrite L].
    cbn [outs_validate].
    rewrite (out_update_blank_validates hash160 sha256 hash256 _ _ _ _ _ _ LK Ea). cbn [bind].
    rewrite all_ok_no_xpub. cbn [bind]. exact V.
Qed.

Theorem update_bare_validates (t : tx) extra p' :
  Forall (fun ti => s_cmds (i_script ti) = []) (t_ins t) ->
  psbt_update txl pk rl wl (bare t extra) = Ok p' -> val p' = Ok tt.
Proof.
  intros F H. unfold psbt_update, bare in H. cbn [p_tx p_ins p_outs p_hd p_extra] in H.
  apply bind_ok in H as [ins [Ei H]]. apply bind_ok in H as [outs [Eo H]]. inversion H; subst p'. clear H.
  destruct (ins_after_update t _ 0 _ F Ei) as [Vi Li]. destruct (outs_after_update _ _ Eo) as [Vo Lo].
  unfold validate. cbn [p_tx p_ins p_outs p_hd dvals map].
  rewrite Li, Nat.eqb_refl. cbn [check bind]. rewrite Vi. cbn [bind]. rewrite Lo, Nat.eqb_refl. cbn [check bind].
  exact Vo.
Qed.

End CV.
