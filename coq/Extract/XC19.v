From Coq Require Import Extraction ExtrOcamlBasic ExtrOcamlZBigInt.
From V Require Import Dispatch.DC19.
Extraction Language OCaml.
Extraction "model.ml" DC19.dispatch.
