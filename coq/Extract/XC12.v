From Coq Require Import Extraction ExtrOcamlBasic ExtrOcamlZBigInt.
From V Require Import Dispatch.DC12.
Extraction Language OCaml.
Extraction "model.ml" DC12.dispatch.
