From Coq Require Import Extraction ExtrOcamlBasic ExtrOcamlZBigInt.
From V Require Import Dispatch.DC14.
Extraction Language OCaml.
Extraction "model.ml" DC14.dispatch.
