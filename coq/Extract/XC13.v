From Coq Require Import Extraction ExtrOcamlBasic ExtrOcamlZBigInt.
From V Require Import Dispatch.DC13.
Extraction Language OCaml.
Extraction "model.ml" DC13.dispatch.
