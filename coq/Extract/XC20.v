From Coq Require Import Extraction ExtrOcamlBasic ExtrOcamlZBigInt.
From V Require Import Dispatch.DC20.
Extraction Language OCaml.
Extraction "model.ml" DC20.dispatch.
