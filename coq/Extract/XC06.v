From Coq Require Import Extraction ExtrOcamlBasic ExtrOcamlZBigInt.
From V Require Import Dispatch.DC06.
Extraction Language OCaml.
Extraction "model.ml" DC06.dispatch.
