From Coq Require Import Extraction ExtrOcamlBasic ExtrOcamlZBigInt.
From V Require Import Dispatch.DC11.
Extraction Language OCaml.
Extraction "model.ml" DC11.dispatch.
