From Coq Require Import Extraction ExtrOcamlBasic ExtrOcamlZBigInt.
From V Require Import Dispatch.DC01.
Extraction Language OCaml.
Extraction "model.ml" DC01.dispatch.
