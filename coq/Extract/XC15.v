From Coq Require Import Extraction ExtrOcamlBasic ExtrOcamlZBigInt.
From V Require Import Dispatch.DC15.
Extraction Language OCaml.
Extraction "model.ml" DC15.dispatch.
