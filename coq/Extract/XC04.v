From Coq Require Import Extraction ExtrOcamlBasic ExtrOcamlZBigInt.
From V Require Import Dispatch.DC04.
Extraction Language OCaml.
Extraction "model.ml" DC04.dispatch.
