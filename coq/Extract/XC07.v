From Coq Require Import Extraction ExtrOcamlBasic ExtrOcamlZBigInt.
From V Require Import Dispatch.DC07.
Extraction Language OCaml.
Extraction "model.ml" DC07.dispatch.
