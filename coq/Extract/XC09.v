From Coq Require Import Extraction ExtrOcamlBasic ExtrOcamlZBigInt.
From V Require Import Dispatch.DC09.
Extraction Language OCaml.
Extraction "model.ml" DC09.dispatch.
