From Coq Require Import Extraction ExtrOcamlBasic ExtrOcamlZBigInt.
From V Require Import Dispatch.DC02.
Extraction Language OCaml.
Extraction "model.ml" DC02.dispatch.
