From Coq Require Import Extraction ExtrOcamlBasic ExtrOcamlZBigInt.
From V Require Import Dispatch.DC18.
Extraction Language OCaml.
Extraction "model.ml" DC18.dispatch.
