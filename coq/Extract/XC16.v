From Coq Require Import Extraction ExtrOcamlBasic ExtrOcamlZBigInt.
From V Require Import Dispatch.DC16.
Extraction Language OCaml.
Extraction "model.ml" DC16.dispatch.
