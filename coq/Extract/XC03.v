From Coq Require Import Extraction ExtrOcamlBasic ExtrOcamlZBigInt.
From V Require Import Dispatch.DC03.
Extraction Language OCaml.
Extraction "model.ml" DC03.dispatch.
