From Coq Require Import Extraction ExtrOcamlBasic ExtrOcamlZBigInt.
From V Require Import Dispatch.DC08.
Extraction Language OCaml.
Extraction "model.ml" DC08.dispatch.
