From Coq Require Import Extraction ExtrOcamlBasic ExtrOcamlZBigInt.
From V Require Import Dispatch.DC05.
Extraction Language OCaml.
Extraction "model.ml" DC05.dispatch.
