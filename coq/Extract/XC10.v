From Coq Require Import Extraction ExtrOcamlBasic ExtrOcamlZBigInt.
From V Require Import Dispatch.DC10.
Extraction Language OCaml.
Extraction "model.ml" DC10.dispatch.
