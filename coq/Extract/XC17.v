From Coq Require Import Extraction ExtrOcamlBasic ExtrOcamlZBigInt.
From V Require Import Dispatch.DC17.
Extraction Language OCaml.
Extraction "model.ml" DC17.dispatch.
