(* Spec/CorePow.v — transcription of Bitcoin Core arith_uint256::SetCompact /
   GetCompact (arith_uint256.cpp), CalculateNextWorkRequired and CheckProofOfWork
   (pow.cpp) with the main-network consensus parameters.  uint32 / 256-bit
   truncations are explicit.  Definitions only. *)
From V Require Import Base.Prelude.

Definition u32 (z : Z) : Z := z mod 2 ^ 32.
Definition u256 (z : Z) : Z := z mod 2 ^ 256.

(* arith_uint256& SetCompact(uint32_t nCompact, bool* pfNegative, bool* pfOverflow)
     int nSize = nCompact >> 24;
     uint32_t nWord = nCompact & 0x007fffff;
     if (nSize <= 3) { nWord >>= 8 * (3 - nSize); *this = nWord; }
     else { *this = nWord; *this <<= 8 * (nSize - 3); }
     *pfNegative = nWord != 0 && (nCompact & 0x00800000) != 0;
     *pfOverflow = nWord != 0 && ((nSize > 34) || (nWord > 0xff && nSize > 33) ||
                                  (nWord > 0xffff && nSize > 32));                      *)
Definition set_compact (nCompact : Z) : Z * bool * bool :=
  let nSize := Z.shiftr nCompact 24 in
  let nWord0 := Z.land nCompact 8388607 in
  let nWord := if nSize <=? 3 then Z.shiftr nWord0 (8 * (3 - nSize)) else nWord0 in
  let value := if nSize <=? 3 then nWord else u256 (Z.shiftl nWord (8 * (nSize - 3))) in
  let neg := negb (nWord =? 0) && negb (Z.land nCompact 8388608 =? 0) in
  let ovf := negb (nWord =? 0) &&
             ((34 <? nSize) || ((255 <? nWord) && (33 <? nSize)) || ((65535 <? nWord) && (32 <? nSize))) in
  (value, neg, ovf).

(* unsigned int base_uint::bits(): position of the highest set bit, 0 for 0 *)
Definition ubits (v : Z) : Z := if v <=? 0 then 0 else Z.log2 v + 1.

(* uint32_t GetCompact(bool fNegative = false) const
     int nSize = (bits() + 7) / 8;
     if (nSize <= 3) nCompact = GetLow64() << 8 * (3 - nSize);
     else { bn = *this >> 8 * (nSize - 3); nCompact = bn.GetLow64(); }
     if (nCompact & 0x00800000) { nCompact >>= 8; nSize++; }
     nCompact |= nSize << 24;
     nCompact |= (fNegative && (nCompact & 0x007fffff) ? 0x00800000 : 0);               *)
Definition get_compact (v : Z) : Z :=
  let nSize := (ubits v + 7) / 8 in
  let nCompact := if nSize <=? 3 then u32 (Z.shiftl (v mod 2 ^ 64) (8 * (3 - nSize)))
                  else u32 ((Z.shiftr v (8 * (nSize - 3))) mod 2 ^ 64) in
  let '(nCompact, nSize) :=
    if negb (Z.land nCompact 8388608 =? 0) then (Z.shiftr nCompact 8, nSize + 1)
    else (nCompact, nSize) in
  Z.lor nCompact (Z.shiftl nSize 24).

(* main network: powLimit = 00000000ffff...ff, nPowTargetTimespan = 14 days *)
Definition pow_limit : Z := 2 ^ 224 - 1.
Definition pow_target_timespan : Z := 14 * 24 * 60 * 60.

(* CalculateNextWorkRequired(pindexLast, nFirstBlockTime, params), fPowNoRetargeting = false
     nActualTimespan = pindexLast->GetBlockTime() - nFirstBlockTime;
     if (nActualTimespan < nPowTargetTimespan/4) nActualTimespan = nPowTargetTimespan/4;
     if (nActualTimespan > nPowTargetTimespan*4) nActualTimespan = nPowTargetTimespan*4;
     bnNew.SetCompact(pindexLast->nBits); bnNew *= nActualTimespan; bnNew /= nPowTargetTimespan;
     if (bnNew > bnPowLimit) bnNew = bnPowLimit;
     return bnNew.GetCompact();                                                         *)
Definition next_work_required (nBits : Z) (nActualTimespan : Z) : Z :=
  let ts := if nActualTimespan <? pow_target_timespan / 4 then pow_target_timespan / 4
            else nActualTimespan in
  let ts := if ts >? pow_target_timespan * 4 then pow_target_timespan * 4 else ts in
  let '(bn, _, _) := set_compact nBits in
  let bn := u256 (bn * ts) in
  let bn := bn / pow_target_timespan in
  let bn := if bn >? pow_limit then pow_limit else bn in
  get_compact bn.

(* CheckProofOfWork(hash, nBits, params)
     bnTarget.SetCompact(nBits, &fNegative, &fOverflow);
     if (fNegative || bnTarget == 0 || fOverflow || bnTarget > powLimit) return false;
     if (UintToArith256(hash) > bnTarget) return false;
     return true;                                                                       *)
Definition check_proof_of_work (hash : Z) (nBits : Z) : bool :=
  let '(target, neg, ovf) := set_compact nBits in
  if neg || (target =? 0) || ovf || (target >? pow_limit) then false
  else negb (hash >? target).
