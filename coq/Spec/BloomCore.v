(* Spec/BloomCore.v — the BIP37 bloom filter as the receiving peer implements it: a transcription of
   Bitcoin Core's CBloomFilter (bloom.cpp: Hash, insert, contains) on the BYTE vector vData that
   travels in the filterload message, and of the filterload payload layout
   (vData as CompactSize length + bytes, nHashFuncs uint32 LE, nTweak uint32 LE, nFlags uint8).
   MurmurHash3 is the 32-bit standard of Spec/Murmur.v.  Independent of Model/Bloom.v, which keeps
   a list of size*8 separate bits and packs it afterwards. *)
From V Require Import Base.Prelude Base.Ints.
From V Require Spec.Murmur.

Definition MAX_BLOOM_FILTER_SIZE : Z := 36000.   (* bytes *)
Definition MAX_HASH_FUNCS : Z := 50.

(* CBloomFilter::Hash(nHashNum, data) =
     MurmurHash3(nHashNum * 0xFBA4C795 + nTweak, data) % (vData.size() * 8), the seed in uint32 arithmetic *)
Definition core_hash (vlen nTweak nHashNum : Z) (data : bytes) : Z :=
  Spec.Murmur.murmur3_x86_32 data ((nHashNum * 4221880213 + nTweak) mod 4294967296) mod (vlen * 8).

(* vData[i] |= m *)
Fixpoint or_byte (v : bytes) (i : nat) (m : Z) : bytes :=
  match v, i with
  | [], _ => []
  | b :: r, O => Z.lor b m :: r
  | b :: r, S k => b :: or_byte r k m
  end.

(* vData[nIndex >> 3] |= (1 << (7 & nIndex)) *)
Definition core_set (v : bytes) (nIndex : Z) : bytes :=
  or_byte v (Z.to_nat (nIndex / 8)) (2 ^ (nIndex mod 8)).

(* vData[nIndex >> 3] & (1 << (7 & nIndex)) *)
Definition core_test (v : bytes) (nIndex : Z) : bool :=
  negb (Z.land (nth (Z.to_nat (nIndex / 8)) v 0) (2 ^ (nIndex mod 8)) =? 0).

(* for (i = 0; i < nHashFuncs; i++) ..., counted upwards from [i] with [n] iterations left *)
Fixpoint core_insert_loop (n : nat) (i nTweak : Z) (key v : bytes) : bytes :=
  match n with
  | O => v
  | S k => core_insert_loop k (i + 1) nTweak key (core_set v (core_hash (zlen v) nTweak i key))
  end.

(* CBloomFilter::insert: an empty vData is left alone *)
Definition core_insert (nHashFuncs nTweak : Z) (v key : bytes) : bytes :=
  match v with
  | [] => []
  | _ => core_insert_loop (Z.to_nat nHashFuncs) 0 nTweak key v
  end.

Fixpoint core_contains_loop (n : nat) (i nTweak : Z) (key v : bytes) : bool :=
  match n with
  | O => true
  | S k => core_test v (core_hash (zlen v) nTweak i key) && core_contains_loop k (i + 1) nTweak key v
  end.

(* CBloomFilter::contains: an empty vData matches everything *)
Definition core_contains (nHashFuncs nTweak : Z) (v key : bytes) : bool :=
  match v with
  | [] => true
  | _ => core_contains_loop (Z.to_nat nHashFuncs) 0 nTweak key v
  end.

(* ---------------- filterload payload ---------------- *)
Definition read_compact_size (s : bytes) : option (Z * bytes) :=
  match s with
  | [] => None
  | b :: r =>
      if b <? 253 then Some (b, r)
      else let w := if b =? 253 then 2%nat else if b =? 254 then 4%nat else 8%nat in
           if Nat.ltb (length r) w then None else Some (from_le (firstn w r), skipn w r)
  end.

Definition filterload_bytes (vData : bytes) (nHashFuncs nTweak nFlags : Z) : bytes :=
  (let n := zlen vData in
   if n <? 253 then [n] else if n <=? 65535 then 253 :: to_le 2 n
   else if n <=? 4294967295 then 254 :: to_le 4 n else 255 :: to_le 8 n)
  ++ vData ++ to_le 4 nHashFuncs ++ to_le 4 nTweak ++ [nFlags].

(* strict: the payload is exactly vData, two uint32 and one byte *)
Definition filterload_decode (p : bytes) : option (bytes * Z * Z * Z) :=
  match read_compact_size p with
  | None => None
  | Some (n, r) =>
      if zlen r =? n + 9 then
        let k := Z.to_nat n in
        Some (firstn k r, from_le (firstn 4 (skipn k r)), from_le (firstn 4 (skipn (k + 4) r)),
              nth (k + 8) r 0)
      else None
  end.

(* what the peer does with a filterload message: size and function-count limits of BIP37 *)
Definition filterload_acceptable (p : bytes) : bool :=
  match filterload_decode p with
  | Some (v, nHashFuncs, _, _) => (zlen v <=? MAX_BLOOM_FILTER_SIZE) && (nHashFuncs <=? MAX_HASH_FUNCS)
  | None => false
  end.
