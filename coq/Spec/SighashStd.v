(* Spec/SighashStd.v — which signature-hash algorithm the standards prescribe for which kind of
   spent output, on raw scripts:
     P2PKH  76 a9 14 <20> 88 ac      -> original algorithm, scriptCode = the scriptPubKey
     P2SH   a9 14 <20> 87            -> by the redeem script (the last push of the scriptSig, BIP16):
              00 14 <20>  (P2SH-P2WPKH, BIP141) -> BIP143, scriptCode 76 a9 14 <20> 88 ac
              00 20 <32>  (P2SH-P2WSH,  BIP141) -> BIP143, scriptCode = witnessScript (last witness item)
              anything else                      -> original algorithm, scriptCode = redeem script
     P2WPKH 00 14 <20>  (BIP141/143) -> BIP143, scriptCode 76 a9 14 <20> 88 ac
     P2WSH  00 20 <32>               -> BIP143, scriptCode = witnessScript (last witness item)
     P2TR   51 20 <32>  (BIP341)     -> BIP341: annex removed; one element left = key path,
                                        at least two = script path with the BIP342 extension
     any other scriptPubKey          -> original algorithm, scriptCode = the scriptPubKey
   OP_CODESEPARATOR / FindAndDelete are out of scope (see Spec/Legacy.v).  Definitions only. *)
From V Require Import Base.Prelude Base.Ints Spec.TxData Spec.Legacy Spec.Bip143 Spec.Bip341.

Inductive kind : Type :=
| KP2PKH | KP2SH | KP2WPKH (h : bytes) | KP2WSH | KP2TR | KOther.

Definition classify (spk : bytes) : kind :=
  match spk with
  | 118 :: 169 :: 20 :: r =>
      if (length r =? 22)%nat && beq (skipn 20 r) [136; 172] then KP2PKH else KOther
  | 169 :: 20 :: r =>
      if (length r =? 21)%nat && beq (skipn 20 r) [135] then KP2SH else KOther
  | 0 :: 20 :: r => if (length r =? 20)%nat then KP2WPKH r else KOther
  | 0 :: 32 :: r => if (length r =? 32)%nat then KP2WSH else KOther
  | 81 :: 32 :: r => if (length r =? 32)%nat then KP2TR else KOther
  | _ => KOther
  end.

(* result: algorithm (0 original, 143, 341), the hashed byte string (None for the constant
   "one"), the 32-byte digest *)
Record std_out := { sd_alg : Z; sd_pre : option bytes; sd_digest : bytes }.

Section WithHash.
Variable hash256 : bytes -> bytes.
Variable sha256 : bytes -> bytes.
Variable hash_tapsighash : bytes -> bytes.
Variable hash_tapleaf : bytes -> bytes.
Variable lift_ok : bytes -> bool.

Definition std_legacy (code : bytes) (tx : ctransaction) (n_in : nat) (ht : Z) : option std_out :=
  Some {| sd_alg := 0; sd_pre := Legacy.preimage code tx n_in ht;
          sd_digest := Legacy.signature_hash hash256 code tx n_in ht |}.

Definition std_bip143 (code : bytes) (amount : Z) (tx : ctransaction) (n_in : nat) (ht : Z)
  : option std_out :=
  match Bip143.preimage hash256 code amount tx n_in ht with
  | Some p => Some {| sd_alg := 143; sd_pre := Some p; sd_digest := hash256 p |}
  | None => None
  end.

Definition std_bip341 (tx : ctransaction) (spent : list coin) (n_in : nat) (ht : Z)
  (witness : list bytes) : option std_out :=
  let '(annex, stack) := split_annex witness in
  match stack with
  | [] => None
  | [_] =>
      match Bip341.message sha256 hash_tapleaf ht tx spent n_in annex None with
      | Some p => Some {| sd_alg := 341; sd_pre := Some p; sd_digest := hash_tapsighash p |}
      | None => None
      end
  | _ =>
      match script_path lift_ok stack with
      | Some (v, s, _) =>
          match Bip341.message sha256 hash_tapleaf ht tx spent n_in annex (Some (v, s)) with
          | Some p => Some {| sd_alg := 341; sd_pre := Some p; sd_digest := hash_tapsighash p |}
          | None => None
          end
      | None => None
      end
  end.

(* [redeem] is the last push of the scriptSig of input n_in (if any), [witness] its witness
   stack; None = the spend is invalid / there is no digest *)
Definition std_sighash (tx : ctransaction) (spent : list coin) (n_in : nat) (ht : Z)
  (redeem : option bytes) (witness : list bytes) : option std_out :=
  match nth_error spent n_in with
  | None => None
  | Some c =>
      let spk := cn_script c in
      match classify spk with
      | KP2PKH | KOther => std_legacy spk tx n_in ht
      | KP2WPKH h => std_bip143 (p2wpkh_script_code h) (cn_value c) tx n_in ht
      | KP2WSH =>
          match rev witness with
          | ws :: _ => std_bip143 ws (cn_value c) tx n_in ht
          | [] => None
          end
      | KP2TR => std_bip341 tx spent n_in ht witness
      | KP2SH =>
          match redeem with
          | None => None
          | Some r =>
              match classify r with
              | KP2WPKH h => std_bip143 (p2wpkh_script_code h) (cn_value c) tx n_in ht
              | KP2WSH =>
                  match rev witness with
                  | ws :: _ => std_bip143 ws (cn_value c) tx n_in ht
                  | [] => None
                  end
              | _ => std_legacy r tx n_in ht
              end
          end
      end
  end.
End WithHash.
