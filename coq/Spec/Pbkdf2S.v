(* Spec/Pbkdf2S.v — independent transcription of RFC 8018 §5.2 (PBKDF2).

     PBKDF2 (P, S, c, dkLen)
       1. If dkLen > (2^32 - 1) * hLen, output "derived key too long" and stop.
       2. l = CEIL (dkLen / hLen),  r = dkLen - (l - 1) * hLen.
       3. T_i = F (P, S, c, i),  F = U_1 \xor U_2 \xor ... \xor U_c,
            U_1 = PRF (P, S || INT (i)),  U_j = PRF (P, U_{j-1}).
       4. DK = T_1 || T_2 || ... || T_l<0..r-1>.

   The PRF and its output length hLen are parameters.  c must be a positive integer;
   dkLen = 0 (not a "positive integer" in the RFC) yields the empty key. *)
From V Require Import Base.Prelude Base.Ints.

Section Spec.
  Variable prf : bytes -> bytes -> bytes.
  Variable hLen : Z.

  Definition xorz (a b : bytes) : bytes := map (fun p => Z.lxor (fst p) (snd p)) (combine a b).

  (* INT (i): four-octet encoding of the integer i, most significant octet first *)
  Definition INT (i : Z) : bytes :=
    [(i / 16777216) mod 256; (i / 65536) mod 256; (i / 256) mod 256; i mod 256].

  (* [U_1; U_2; ...; U_c] *)
  Fixpoint U_seq (P U1 : bytes) (c : nat) : list bytes :=
    match c with
    | O => []
    | S k => U1 :: U_seq P (prf P U1) k
    end.

  Definition F (P S : bytes) (c : nat) (i : Z) : bytes :=
    match U_seq P (prf P (S ++ INT i)) c with
    | [] => []
    | u1 :: us => fold_left xorz us u1
    end.

  (* T_1 || ... || T_l starting at block i *)
  Fixpoint T_blocks (P S : bytes) (c : nat) (i : Z) (l : nat) : list bytes :=
    match l with
    | O => []
    | S k => F P S c i :: T_blocks P S c (i + 1) k
    end.

  Definition pbkdf2 (P S : bytes) (c dkLen : Z) : result bytes :=
    if c <? 1 then Err
    else if dkLen <? 0 then Err
    else if dkLen >? 4294967295 * hLen then Err            (* "derived key too long" *)
    else
      let l := (dkLen + hLen - 1) / hLen in                (* CEIL (dkLen / hLen) *)
      Ok (firstn (Z.to_nat dkLen) (concat (T_blocks P S (Z.to_nat c) 1 (Z.to_nat l)))).
End Spec.
