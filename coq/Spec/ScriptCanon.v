(* Spec/ScriptCanon.v — an INDEPENDENT definition of "canonically encoded" for scripts and
   transactions (no reference to the model's serialisers or parsers), against which the byte
   level round trip of C04 is stated.

   Script: a sequence of
     - an opcode byte that is not a push prefix: 0x00, or 0x4f..0xff;
     - a direct push:  n d          1 <= n = |d| <= 75
     - OP_PUSHDATA1:   0x4c n d     76 <= n = |d| <= 255        (a shorter push must be direct)
     - OP_PUSHDATA2:   0x4d lo hi d 256 <= |d| = lo + 256 hi <= 520  (the element size limit)
   (OP_PUSHDATA4 never is the minimal form of a push of at most 520 bytes.)

   Transaction (BIP144): version(4) [00 01] compact-size n_in, n_in inputs, compact-size n_out,
   n_out outputs, [one witness stack per input], locktime(4); compact sizes minimal; the format
   without the marker needs at least one input.  Lengths and counts are bounded by MAX_SIZE =
   0x02000000, the bound Bitcoin Core's ReadCompactSize enforces.
   Definitions only. *)
From V Require Import Base.Prelude Base.Ints.

Inductive canon_script_bytes : bytes -> Prop :=
| csb_nil : canon_script_bytes []
| csb_op o r : o = 0 \/ 79 <= o <= 255 -> canon_script_bytes r -> canon_script_bytes (o :: r)
| csb_direct d r : 1 <= zlen d <= 75 -> canon_script_bytes r -> canon_script_bytes (zlen d :: d ++ r)
| csb_pd1 d r : 76 <= zlen d <= 255 -> canon_script_bytes r ->
    canon_script_bytes (76 :: zlen d :: d ++ r)
| csb_pd2 d r : 256 <= zlen d <= 520 -> canon_script_bytes r ->
    canon_script_bytes (77 :: zlen d mod 256 :: zlen d / 256 :: d ++ r).

Definition MAX_SIZE : Z := 33554432.

(* little-endian fixed-width field *)
Definition le_field (w : nat) (n : Z) (b : bytes) : Prop := 0 <= n < pow256 w /\ b = to_le w n.

(* the minimal compact-size encoding of n *)
Definition compact_size (n : Z) (b : bytes) : Prop :=
  (0 <= n < 253 /\ b = [n]) \/
  (253 <= n < 65536 /\ b = 253 :: to_le 2 n) \/
  (65536 <= n < 4294967296 /\ b = 254 :: to_le 4 n) \/
  (4294967296 <= n < 18446744073709551616 /\ b = 255 :: to_le 8 n).

(* compact size of the length, then the bytes *)
Definition var_bytes (d b : bytes) : Prop :=
  exists l, zlen d <= MAX_SIZE /\ compact_size (zlen d) l /\ b = l ++ d.

Definition canon_var_script (b : bytes) : Prop :=
  exists raw, canon_script_bytes raw /\ var_bytes raw b.

(* n items, each in the language [item], concatenated *)
Inductive canon_seq (item : bytes -> Prop) : nat -> bytes -> Prop :=
| cseq_nil : canon_seq item O []
| cseq_cons n a r : item a -> canon_seq item n r -> canon_seq item (S n) (a ++ r).

Definition canon_txin (b : bytes) : Prop :=
  exists outpoint_hash idx idxb sc seq seqb,
    length outpoint_hash = 32%nat /\ le_field 4 idx idxb /\ canon_var_script sc /\ le_field 4 seq seqb /\
    b = outpoint_hash ++ idxb ++ sc ++ seqb.

Definition canon_txout (b : bytes) : Prop :=
  exists amount amb sc, le_field 8 amount amb /\ canon_var_script sc /\ b = amb ++ sc.

(* a witness stack: count, then var-bytes items *)
Definition canon_witness (b : bytes) : Prop :=
  exists n l items, Z.of_nat n <= MAX_SIZE /\ compact_size (Z.of_nat n) l /\
    canon_seq (fun x => exists d, var_bytes d x) n items /\ b = l ++ items.

Definition canon_counted (item : bytes -> Prop) (n : nat) (b : bytes) : Prop :=
  exists l items, Z.of_nat n <= MAX_SIZE /\ compact_size (Z.of_nat n) l /\
    canon_seq item n items /\ b = l ++ items.

Definition canon_legacy_tx (b : bytes) : Prop :=
  exists ver verb nin ins nout outs lt ltb,
    le_field 4 ver verb /\ (1 <= nin)%nat /\ canon_counted canon_txin nin ins /\
    canon_counted canon_txout nout outs /\ le_field 4 lt ltb /\
    b = verb ++ ins ++ outs ++ ltb.

Definition canon_segwit_tx (b : bytes) : Prop :=
  exists ver verb nin ins nout outs wits lt ltb,
    le_field 4 ver verb /\ canon_counted canon_txin nin ins /\
    canon_counted canon_txout nout outs /\ canon_seq canon_witness nin wits /\ le_field 4 lt ltb /\
    b = verb ++ [0; 1] ++ ins ++ outs ++ wits ++ ltb.

Definition canon_tx_bytes (b : bytes) : Prop := canon_legacy_tx b \/ canon_segwit_tx b.
