(* Spec/Bip32.v — transcription of BIP-0032 ("Hierarchical Deterministic Wallets"): conventions,
   CKDpriv, CKDpub, N, master key generation, serialization format, key identifiers, plus the
   SLIP-0132 version-byte table.  Written from the text of the standards, independently of
   Model/Hd.v.  [None] stands for both outcomes the standard calls "invalid" (one should proceed
   with the next index / next seed) and for "return failure" of CKDpub on a hardened index.

   Curve arithmetic is the shared curve model (Model/Pecc.v); HMAC-SHA512 and HASH160 are
   Section variables. *)
From V Require Import Base.Prelude Base.Ints Model.Pecc.

Section Bip32.
Variable C : curve.
Variable hmac512 : bytes -> bytes -> bytes.
Variable hash160 : bytes -> bytes.
Let n := cn C.

(* ---- Conventions ---- *)
(* "Addition (+) of two coordinate pair is defined as application of the EC group operation." *)
Definition pt_add (P Q : Pecc.point) : Pecc.point :=
  match padd C P Q with Ok R => R | Err => None end.
(* "point(p): returns the coordinate pair resulting from EC point multiplication (repeated
   application of the EC group operation) of the secp256k1 base point with the integer p." *)
Definition point (p : Z) : Pecc.point :=
  match rmul C p (G C) with Ok R => R | Err => None end.
(* "ser32(i): serialize a 32-bit unsigned integer i as a 4-byte sequence, most significant byte first." *)
Definition ser32 (i : Z) : bytes := to_be 4 i.
(* "ser256(p): serializes the integer p as a 32-byte sequence, most significant byte first." *)
Definition ser256 (p : Z) : bytes := to_be 32 p.
(* "serP(P): serializes the coordinate pair P = (x,y) as a byte sequence using SEC1's compressed
   form: (0x02 or 0x03) || ser256(x), where the header byte depends on the parity of the omitted
   y coordinate." *)
Definition serP (P : Pecc.point) : bytes :=
  match P with
  | Some (x, y) => (if Z.even y then 2 else 3) :: ser256 x
  | None => []            (* the point at infinity has no serialization *)
  end.
(* "parse256(p): interprets a 32-byte sequence as a 256-bit number, most significant byte first." *)
Definition parse256 (b : bytes) : Z := from_be b.

Definition xprv := (Z * bytes)%type.           (* (k, c) *)
Definition xpub := (Pecc.point * bytes)%type.  (* (K, c) *)

(* ---- Private parent key -> private child key ---- *)
Definition CKDpriv (par : xprv) (i : Z) : option xprv :=
  let '(kpar, cpar) := par in
  let I :=
    if 2 ^ 31 <=? i
    then hmac512 cpar ([0] ++ ser256 kpar ++ ser32 i)              (* hardened child *)
    else hmac512 cpar (serP (point kpar) ++ ser32 i) in            (* normal child *)
  let IL := firstn 32 I in
  let IR := skipn 32 I in
  let ki := (parse256 IL + kpar) mod n in
  (* "In case parse256(IL) >= n or ki = 0, the resulting key is invalid, and one should proceed
     with the next value for i." *)
  if (n <=? parse256 IL) || (ki =? 0) then None else Some (ki, IR).

(* ---- Public parent key -> public child key ---- *)
Definition CKDpub (par : xpub) (i : Z) : option xpub :=
  let '(Kpar, cpar) := par in
  if 2 ^ 31 <=? i then None                                        (* hardened child: return failure *)
  else
    let I := hmac512 cpar (serP Kpar ++ ser32 i) in
    let IL := firstn 32 I in
    let IR := skipn 32 I in
    let Ki := pt_add (point (parse256 IL)) Kpar in
    (* "In case parse256(IL) >= n or Ki is the point at infinity, the resulting key is invalid" *)
    if n <=? parse256 IL then None
    else match Ki with None => None | Some _ => Some (Ki, IR) end.

(* ---- Private parent key -> public child key: N((k, c)) = (point(k), c) ---- *)
Definition Neuter (k : xprv) : xpub := (point (fst k), snd k).

(* ---- Master key generation ---- *)
Definition bitcoin_seed : bytes := [66;105;116;99;111;105;110;32;115;101;101;100]. (* "Bitcoin seed" *)
Definition master (S : bytes) : option xprv :=
  let I := hmac512 bitcoin_seed S in
  let IL := firstn 32 I in
  let IR := skipn 32 I in
  (* "In case parse256(IL) is 0 or parse256(IL) >= n, the master key is invalid." *)
  if (parse256 IL =? 0) || (n <=? parse256 IL) then None else Some (parse256 IL, IR).

(* ---- Key identifiers ---- *)
(* "Extended keys can be identified by the Hash160 (RIPEMD160 after SHA256) of the serialized ECDSA
   public key K, ignoring the chain code. ... The first 32 bits of the identifier are called the
   key fingerprint." *)
Definition identifier (K : Pecc.point) : bytes := hash160 (serP K).
Definition fingerprint (K : Pecc.point) : bytes := firstn 4 (identifier K).

(* ---- Serialization format ----
   4 bytes version | 1 byte depth | 4 bytes parent fingerprint | 4 bytes child number ser32(i) |
   32 bytes chain code | 33 bytes: serP(K) for public keys, 0x00 || ser256(k) for private keys *)
Definition ser_xpub (version : bytes) (depth : Z) (parent_fp : bytes) (i : Z) (k : xpub) : bytes :=
  version ++ [depth] ++ parent_fp ++ ser32 i ++ snd k ++ serP (fst k).
Definition ser_xprv (version : bytes) (depth : Z) (parent_fp : bytes) (i : Z) (k : xprv) : bytes :=
  version ++ [depth] ++ parent_fp ++ ser32 i ++ snd k ++ ([0] ++ ser256 (fst k)).

(* ---- The key tree ----
   "CKDpriv(CKDpriv(CKDpriv(m,3H),2),5)" is written m/3H/2/5.  A node of the tree is an extended
   private key together with the three bookkeeping fields the serialization format asks for:
   "1 byte: depth: 0x00 for master nodes, 0x01 for level-1 derived keys, ....";
   "4 bytes: the fingerprint of the parent's key (0x00000000 if master key)";
   "4 bytes: child number. This is ser32(i) for i in xi = xpar/i, with xi the key being
   serialized. (0x00000000 if master key)". *)
Record node := { n_key : xprv; n_depth : Z; n_pfp : bytes; n_num : Z }.
Definition master_node (S : bytes) : option node :=
  match master S with
  | Some k => Some {| n_key := k; n_depth := 0; n_pfp := [0;0;0;0]; n_num := 0 |}
  | None => None
  end.
Definition child_node (p : node) (i : Z) : option node :=
  match CKDpriv (n_key p) i with
  | Some k => Some {| n_key := k; n_depth := n_depth p + 1;
                      n_pfp := fingerprint (point (fst (n_key p))); n_num := i |}
  | None => None
  end.
Fixpoint descend (p : node) (path : list Z) : option node :=
  match path with
  | [] => Some p
  | i :: r => match child_node p i with Some c => descend c r | None => None end
  end.
(* the same tree walked from an extended PUBLIC key: N(m)/a/b/c = CKDpub(CKDpub(CKDpub(M,a),b),c) *)
Record pnode := { pn_key : xpub; pn_depth : Z; pn_pfp : bytes; pn_num : Z }.
Definition child_pnode (p : pnode) (i : Z) : option pnode :=
  match CKDpub (pn_key p) i with
  | Some k => Some {| pn_key := k; pn_depth := pn_depth p + 1;
                      pn_pfp := fingerprint (fst (pn_key p)); pn_num := i |}
  | None => None
  end.
Fixpoint descend_pub (p : pnode) (path : list Z) : option pnode :=
  match path with
  | [] => Some p
  | i :: r => match child_pnode p i with Some c => descend_pub c r | None => None end
  end.
Definition ser_pnode (version : bytes) (nd : pnode) : bytes :=
  ser_xpub version (pn_depth nd) (pn_pfp nd) (pn_num nd) (pn_key nd).

Definition ser_node_priv (version : bytes) (nd : node) : bytes :=
  ser_xprv version (n_depth nd) (n_pfp nd) (n_num nd) (n_key nd).
Definition ser_node_pub (version : bytes) (nd : node) : bytes :=
  ser_xpub version (n_depth nd) (n_pfp nd) (n_num nd) (Neuter (n_key nd)).

End Bip32.

(* ---- SLIP-0132 registered version bytes (public, private), Bitcoin mainnet and testnet ---- *)
Definition slip132_mainnet : list (bytes * bytes) :=
  [ ([4;136;178;30],  [4;136;173;228]);    (* 0x0488b21e xpub / 0x0488ade4 xprv  P2PKH or P2SH *)
    ([4;157;124;178], [4;157;120;120]);    (* 0x049d7cb2 ypub / 0x049d7878 yprv  P2WPKH in P2SH *)
    ([4;178;71;70],   [4;178;67;12]);      (* 0x04b24746 zpub / 0x04b2430c zprv  P2WPKH *)
    ([2;149;180;63],  [2;149;176;5]);      (* 0x0295b43f Ypub / 0x0295b005 Yprv  multisig P2WSH in P2SH *)
    ([2;170;126;211], [2;170;122;153]) ].  (* 0x02aa7ed3 Zpub / 0x02aa7a99 Zprv  multisig P2WSH *)
Definition slip132_testnet : list (bytes * bytes) :=
  [ ([4;53;135;207],  [4;53;131;148]);     (* 0x043587cf tpub / 0x04358394 tprv *)
    ([4;74;82;98],    [4;74;78;40]);       (* 0x044a5262 upub / 0x044a4e28 uprv *)
    ([4;95;28;246],   [4;95;24;188]);      (* 0x045f1cf6 vpub / 0x045f18bc vprv *)
    ([2;66;137;239],  [2;66;133;181]);     (* 0x024289ef Upub / 0x024285b5 Uprv *)
    ([2;87;84;131],   [2;87;80;72]) ].     (* 0x02575483 Vpub / 0x02575048 Vprv *)
