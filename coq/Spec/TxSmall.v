(* Spec/TxSmall.v — the size side condition under which the serialisation of a transaction is a
   canonical encoding in the sense of Spec/ScriptCanon.v: every count and every length is at most
   MAX_SIZE = 0x02000000 (what Bitcoin Core's ReadCompactSize accepts).  Script sizes are bounded
   through cmds_size, the upper bound of the serialised size used by script_wfb.
   Definitions only. *)
From V Require Import Base.Prelude Base.Ints Model.Helper Model.Script Model.Tx Spec.TxWf
  Spec.ScriptCanon.

Definition smallb {A} (l : list A) : bool := zlen l <=? MAX_SIZE.
Definition script_smallb (s : script) : bool := cmds_size (s_cmds s) <=? MAX_SIZE.
Definition txin_smallb (i : txin) : bool :=
  script_smallb (i_script i) && smallb (i_witness i) && forallb (fun it => smallb it) (i_witness i).
Definition txout_smallb (o : txout) : bool := script_smallb (o_script o).
Definition tx_smallb (t : tx) : bool :=
  smallb (t_ins t) && smallb (t_outs t) && forallb txin_smallb (t_ins t) &&
  forallb txout_smallb (t_outs t).

(* every piece of data carried by the transaction is a byte string (elements in [0, 256)):
   what a Python `bytes` object always is *)
Definition cmd_bytesb (c : cmd) : bool := match c with Op _ => true | Push d => bytes_okb d end.
Definition script_bytesb (s : script) : bool := forallb cmd_bytesb (s_cmds s).
Definition txin_bytesb (i : txin) : bool :=
  bytes_okb (i_prev_tx i) && script_bytesb (i_script i) && forallb bytes_okb (i_witness i).
Definition tx_bytesb (t : tx) : bool :=
  forallb txin_bytesb (t_ins t) && forallb (fun o => script_bytesb (o_script o)) (t_outs t).
