(* Spec/Rfc6979.v — RFC 6979 §2.3 / §3.2 "Generation of k", transcribed from the RFC for
   the parameter sizes of secp256k1 + SHA-256:  qlen = 256 (bit length of q), hlen = 256,
   rlen = 256 (qlen rounded up to a multiple of 8), so every octet string has 32 octets.
   HMAC is a parameter (HMAC_K(V) is written [hmac K V]).  Definitions only.

   The RFC's retry loop (step h) has no bound; the transcription runs it on [fuel]
   (the model uses the same parameter, the theorem is for every fuel).

   RFC step h.3 also asks that k be "suitable for ECDSA" (r <> 0); neither the
   implementation nor this transcription checks that (it is a visible side condition of
   C01_sign_verifies). *)
From V Require Import Base.Prelude Base.Ints.

Section Rfc6979.
Variable q : Z.                                   (* the group order *)
Variable hmac : bytes -> bytes -> bytes.          (* HMAC_K(V) = hmac K V *)

Definition qlen_octets : nat := 32.

(* §2.3.2 bits2int: the input has blen = 256 = qlen bits, so no bits are dropped or
   padded: the big-endian integer value of the sequence (Horner scheme) *)
Definition bits2int (b : bytes) : Z := fold_left (fun acc x => acc * 256 + x) b 0.

(* §2.3.3 int2octets: big-endian, exactly rlen/8 = 32 octets *)
Definition int2octets (x : Z) : bytes := to_be qlen_octets x.

(* §2.3.4 bits2octets: z1 = bits2int(b); z2 = z1 mod q; int2octets(z2) *)
Definition bits2octets (b : bytes) : bytes := int2octets (bits2int b mod q).

(* step h: generate T (one HMAC block since hlen = qlen), test, else update K, V *)
Fixpoint step_h (fuel : nat) (K V : bytes) : option Z :=
  match fuel with
  | O => None
  | S f =>
      let V' := hmac K V in                       (* h.2: V = HMAC_K(V); T = T || V *)
      let k := bits2int V' in                     (* h.3: k = bits2int(T) *)
      if (1 <=? k) && (k <=? q - 1) then Some k
      else
        let K' := hmac K (V' ++ [0]) in           (* K = HMAC_K(V || 0x00) *)
        let V'' := hmac K' V' in                  (* V = HMAC_K(V) *)
        step_h f K' V''
  end.

(* steps b..h, given int2octets(x) || bits2octets(h1) *)
Definition generate_from (fuel : nat) (xo ho : bytes) : option Z :=
  let V0 := repeatz 1 32 in                                   (* b. V = 0x01 ... 0x01 *)
  let K0 := repeatz 0 32 in                                   (* c. K = 0x00 ... 0x00 *)
  let K1 := hmac K0 (V0 ++ [0] ++ xo ++ ho) in                (* d. *)
  let V1 := hmac K1 V0 in                                     (* e. *)
  let K2 := hmac K1 (V1 ++ [1] ++ xo ++ ho) in                (* f. *)
  let V2 := hmac K2 V1 in                                     (* g. *)
  step_h fuel K2 V2.

(* k for the private key x and the message hash h1 = H(m) (32 octets) *)
Definition rfc6979_k (fuel : nat) (x : Z) (h1 : bytes) : option Z :=
  generate_from fuel (int2octets x) (bits2octets h1).

End Rfc6979.
