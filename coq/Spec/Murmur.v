(* Spec/Murmur.v — MurmurHash3_x86_32 (Appleby, smhasher MurmurHash3.cpp) on 32-bit words:
   every operation is uint32 arithmetic.  Independent of Model/Murmur.v. *)
From V Require Import Base.Prelude Base.Ints.

Definition W32 : Z := 4294967296.   (* 2^32 *)

Definition u32 (x : Z) : Z := x mod W32.
Definition mul32 (a b : Z) : Z := (a * b) mod W32.
Definition add32 (a b : Z) : Z := (a + b) mod W32.
Definition rotl32 (x : Z) (r : Z) : Z := Z.lor (Z.shiftl x r mod W32) (Z.shiftr x (32 - r)).

Definition c1 : Z := 3432918353.   (* 0xcc9e2d51 *)
Definition c2 : Z := 461845907.    (* 0x1b873593 *)

Definition mix_k (k : Z) : Z := mul32 (rotl32 (mul32 k c1) 15) c2.

(* getblock32: little-endian 32-bit load *)
Definition body_step (h k : Z) : Z :=
  let h := Z.lxor h (mix_k k) in
  let h := rotl32 h 13 in
  add32 (mul32 h 5) 3864292196.    (* 0xe6546b64 *)

Fixpoint body (nblocks : nat) (data : bytes) (h : Z) : Z :=
  match nblocks with
  | O => h
  | S n => body n (skipn 4 data) (body_step h (from_le (firstn 4 data)))
  end.

(* switch (len & 3) { case 3: k1 ^= tail[2] << 16; case 2: k1 ^= tail[1] << 8;
                      case 1: k1 ^= tail[0]; k1 *= c1; k1 = ROTL32(k1,15); k1 *= c2; h1 ^= k1; } *)
Definition tail_step (h : Z) (tail : bytes) : Z :=
  match tail with
  | [] => h
  | _ => Z.lxor h (mix_k (from_le tail))
  end.

Definition fmix32 (h : Z) : Z :=
  let h := Z.lxor h (Z.shiftr h 16) in
  let h := mul32 h 2246822507 in     (* 0x85ebca6b *)
  let h := Z.lxor h (Z.shiftr h 13) in
  let h := mul32 h 3266489909 in     (* 0xc2b2ae35 *)
  Z.lxor h (Z.shiftr h 16).

(* seed is a uint32_t *)
Definition murmur3_x86_32 (data : bytes) (seed : Z) : Z :=
  let nblocks := Nat.div (length data) 4 in
  let h := body nblocks data seed in
  let tail := skipn (nblocks * 4) data in
  let h := tail_step h tail in
  let h := Z.lxor h (u32 (zlen data)) in
  fmix32 h.

(* BIP37: nHashNum * 0xFBA4C795 + nTweak in uint32 arithmetic, bit index = hash mod (size*8) *)
Definition bip37_seed (i tweak : Z) : Z := u32 (i * 4221880213 + tweak).
Definition bip37_bit (size : Z) (i tweak : Z) (item : bytes) : Z :=
  murmur3_x86_32 item (bip37_seed i tweak) mod (size * 8).
