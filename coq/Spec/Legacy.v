(* Spec/Legacy.v — the original ("Satoshi") signature hash, transcribed from Bitcoin Core's
   SignatureHash (script.cpp 0.8 / interpreter.cpp, SigVersion::BASE):

     if (nIn >= txTo.vin.size()) return 1;
     txTmp = txTo;
     for all i: txTmp.vin[i].scriptSig = CScript();  txTmp.vin[nIn].scriptSig = scriptCode;
     if ((nHashType & 0x1f) == SIGHASH_NONE)  { txTmp.vout.clear();
                                                for i != nIn: txTmp.vin[i].nSequence = 0; }
     else if ((nHashType & 0x1f) == SIGHASH_SINGLE) {
         nOut = nIn;  if (nOut >= txTmp.vout.size()) return 1;
         txTmp.vout.resize(nOut+1);  for i < nOut: txTmp.vout[i].SetNull();
         for i != nIn: txTmp.vin[i].nSequence = 0; }
     if (nHashType & SIGHASH_ANYONECANPAY) { txTmp.vin[0] = txTmp.vin[nIn]; txTmp.vin.resize(1); }
     ss << txTmp << nHashType;  return Hash(ss)            (double SHA-256)

   CTxOut::SetNull() sets nValue = -1 and an empty script.  The value "1" is the uint256 one:
   byte string 01 00 … 00 in the order hashes are written.

   OUT OF SCOPE: scriptCode.FindAndDelete(OP_CODESEPARATOR) and the removal of the signature
   from scriptCode (done by the caller, EvalScript) — [script_code] below is the script code
   after those steps, as raw bytes.  Definitions only. *)
From V Require Import Base.Prelude Base.Ints Spec.TxData.

Definition hash_single (ht : Z) : bool := Z.land ht 31 =? SIGHASH_SINGLE.
Definition hash_none (ht : Z) : bool := Z.land ht 31 =? SIGHASH_NONE.
Definition anyone_can_pay (ht : Z) : bool := negb (Z.land ht SIGHASH_ANYONECANPAY =? 0).

Definition null_txout : ctxout := {| co_value := -1; co_script := [] |}.

Definition set_script_sig (s : bytes) (i : ctxin) : ctxin :=
  {| ci_prevout := ci_prevout i; ci_script_sig := s; ci_sequence := ci_sequence i |}.
Definition set_sequence (n : Z) (i : ctxin) : ctxin :=
  {| ci_prevout := ci_prevout i; ci_script_sig := ci_script_sig i; ci_sequence := n |}.

(* the inputs of txTmp before the ANYONECANPAY step *)
Definition blanked_inputs (script_code : bytes) (vin : list ctxin) (n_in : nat) (ht : Z) : list ctxin :=
  mapi (fun i x =>
          if (i =? n_in)%nat then set_script_sig script_code x
          else
            let y := set_script_sig [] x in
            if hash_none ht || hash_single ht then set_sequence 0 y else y) vin.

Definition tmp_vout (vout : list ctxout) (n_in : nat) (ht : Z) : list ctxout :=
  if hash_none ht then []
  else if hash_single ht then
    (* resize(nOut+1) of a vector with more than nOut elements, the first nOut set null *)
    map (fun _ => null_txout) (firstn n_in vout) ++ firstn 1 (skipn n_in vout)
  else vout.

(* txTmp; None = "return 1" *)
Definition tx_tmp (script_code : bytes) (tx : ctransaction) (n_in : nat) (ht : Z)
  : option ctransaction :=
  if (length (ct_vin tx) <=? n_in)%nat then None
  else if hash_single ht && (length (ct_vout tx) <=? n_in)%nat then None
  else
    let vin1 := blanked_inputs script_code (ct_vin tx) n_in ht in
    let vin2 := if anyone_can_pay ht then firstn 1 (skipn n_in vin1) else vin1 in
    Some {| ct_version := ct_version tx; ct_vin := vin2; ct_vout := tmp_vout (ct_vout tx) n_in ht;
            ct_locktime := ct_locktime tx |}.

(* the byte string that is double-SHA-256 hashed; nHashType is an int, written as 4 bytes *)
Definition preimage (script_code : bytes) (tx : ctransaction) (n_in : nat) (ht : Z) : option bytes :=
  match tx_tmp script_code tx n_in ht with
  | None => None
  | Some t => Some (ser_tx t ++ le32 ht)
  end.

(* uint256 "one" *)
Definition one : bytes := 1 :: repeatz 0 31.

Section WithHash.
Variable hash256 : bytes -> bytes.
Definition signature_hash (script_code : bytes) (tx : ctransaction) (n_in : nat) (ht : Z) : bytes :=
  match preimage script_code tx n_in ht with
  | None => one
  | Some p => hash256 p
  end.
End WithHash.
