(* Spec/Bip37.v — independent transcription of the consensus Merkle root
   (Bitcoin Core consensus/merkle.cpp ComputeMerkleRoot) and of the BIP37 partial
   Merkle tree BUILDER (Bitcoin Core merkleblock.cpp CPartialMerkleTree:
   CalcTreeWidth, CalcHash, TraverseAndBuild, constructor, BitsToBytes).
   Written from the BIP / Core sources, not from buidl.  Definitions only. *)
From V Require Import Base.Prelude.

Section Spec.
Variable hash256 : bytes -> bytes.

(* ---- ComputeMerkleRoot ----
     while (hashes.size() > 1) {
        if (hashes.size() & 1) hashes.push_back(hashes.back());
        SHA256D64(hashes[0], hashes[0], hashes.size() / 2);   // pairwise double-SHA256
        hashes.resize(hashes.size() / 2); }
     return hashes.empty() ? uint256() : hashes[0];                                  *)
Fixpoint core_level (l : list bytes) : list bytes :=
  match l with
  | a :: b :: r => hash256 (a ++ b) :: core_level r
  | [a] => [hash256 (a ++ a)]
  | [] => []
  end.

Fixpoint core_root_loop (fuel : nat) (l : list bytes) : list bytes :=
  match fuel with
  | O => l
  | S f => if (1 <? length l)%nat then core_root_loop f (core_level l) else l
  end.

Definition consensus_root (l : list bytes) : bytes :=
  hd (repeatz 0 32) (core_root_loop (length l) l).

(* ---- CPartialMerkleTree ---- *)
Variable txids : list bytes.          (* vTxid, internal byte order *)
Variable vmatch : list bool.          (* vMatch *)
Let ntx : nat := length txids.        (* nTransactions *)

(* return (nTransactions+(1 << height)-1) >> height; *)
Definition calc_tree_width (height : nat) : nat := ((ntx + 2 ^ height - 1) / 2 ^ height)%nat.

(* CalcHash(height, pos, vTxid) *)
Fixpoint calc_hash (height pos : nat) : bytes :=
  match height with
  | O => nth pos txids []
  | S h =>
      let left := calc_hash h (pos * 2) in
      let right := if (pos * 2 + 1 <? calc_tree_width h)%nat then calc_hash h (pos * 2 + 1)
                   else left in
      hash256 (left ++ right)
  end.

(* for (p = pos << height; p < (pos+1) << height && p < nTransactions; p++)
       fParentOfMatch |= vMatch[p]; *)
Definition parent_of_match (height pos : nat) : bool :=
  existsb (fun p => (p <? ntx)%nat && nth p vmatch false) (seq (pos * 2 ^ height) (2 ^ height)).

(* TraverseAndBuild(height, pos, vTxid, vMatch) -> (vBits, vHash) appended in order *)
Fixpoint traverse_and_build (height pos : nat) : list bool * list bytes :=
  let pm := parent_of_match height pos in
  match height with
  | O => ([pm], [calc_hash 0 pos])
  | S h =>
      if negb pm then ([pm], [calc_hash height pos])
      else
        let '(b1, h1) := traverse_and_build h (pos * 2) in
        if (pos * 2 + 1 <? calc_tree_width h)%nat then
          let '(b2, h2) := traverse_and_build h (pos * 2 + 1) in
          (pm :: b1 ++ b2, h1 ++ h2)
        else (pm :: b1, h1)
  end.

(* nHeight = 0; while (CalcTreeWidth(nHeight) > 1) nHeight++;   (fuel: 2^ntx >= ntx) *)
Fixpoint calc_height (fuel : nat) (height : nat) : nat :=
  match fuel with
  | O => height
  | S f => if (1 <? calc_tree_width height)%nat then calc_height f (S height) else height
  end.
Definition tree_height : nat := calc_height ntx 0.

Definition build : list bool * list bytes := traverse_and_build tree_height 0.
End Spec.

(* BitsToBytes: ret[p / 8] |= bits[p] << (p % 8), (bits.size()+7)/8 bytes *)
Fixpoint bits_byte (bits : list bool) (w : Z) : Z :=
  match bits with
  | [] => 0
  | b :: r => (if b then w else 0) + bits_byte r (2 * w)
  end.
Fixpoint bits_to_bytes (fuel : nat) (bits : list bool) : bytes :=
  match fuel with
  | O => []
  | S f =>
      match bits with
      | [] => []
      | _ => bits_byte (firstn 8 bits) 1 :: bits_to_bytes f (skipn 8 bits)
      end
  end.

(* the partial merkle tree of a merkleblock message: (total, hashes, flag bytes) *)
Definition bip37_proof (hash256 : bytes -> bytes) (txids : list bytes) (vmatch : list bool)
  : Z * list bytes * bytes :=
  let '(bits, hashes) := build hash256 txids vmatch in
  (zlen txids, hashes, bits_to_bytes (length bits) bits).
