(* Spec/P2P.v — byte layouts of the Bitcoin peer-to-peer protocol, transcribed from the
   protocol documentation and Bitcoin Core (serialize.h WriteCompactSize / ReadCompactSize;
   protocol.h CAddress / CService: the port of a network address is in NETWORK byte order;
   net_processing version / getheaders / getdata(inv); BIP157 getcfilters / getcfheaders /
   getcfcheckpt), independently of buidl/network.py.  Encoders are plain layouts on
   well-formed values; decoders are STRICT (a short stream or a non-canonical CompactSize is
   an error).  Definitions only. *)
From V Require Import Base.Prelude Base.Ints.

(* exactly n bytes or an error *)
Definition take (n : nat) (s : bytes) : result (bytes * bytes) :=
  if (length s <? n)%nat then Err else Ok (firstn n s, skipn n s).

(* a wire-supplied count of bytes: checked against what is there before it becomes a nat *)
Definition takez (n : Z) (s : bytes) : result (bytes * bytes) :=
  if (n <? 0) || (zlen s <? n) then Err
  else Ok (firstn (Z.to_nat n) s, skipn (Z.to_nat n) s).

(* ---------------- CompactSize ---------------- *)

(* WriteCompactSize on 0 <= n < 2^64 *)
Definition cs_bytes (n : Z) : bytes :=
  if n <? 253 then [n]
  else if n <=? 65535 then 253 :: to_le 2 n
  else if n <=? 4294967295 then 254 :: to_le 4 n
  else 255 :: to_le 8 n.

(* ReadCompactSize (without the MAX_SIZE range check): "non-canonical ReadCompactSize()" and
   end of stream are errors *)
Definition read_cs (s : bytes) : result (Z * bytes) :=
  match s with
  | [] => Err
  | c :: r =>
      if c <? 253 then Ok (c, r)
      else if c =? 253 then
        '(b, r') <- take 2 r ;; if from_le b <? 253 then Err else Ok (from_le b, r')
      else if c =? 254 then
        '(b, r') <- take 4 r ;; if from_le b <? 65536 then Err else Ok (from_le b, r')
      else if c =? 255 then
        '(b, r') <- take 8 r ;; if from_le b <? 4294967296 then Err else Ok (from_le b, r')
      else Err
  end.

(* ---------------- version ---------------- *)

(* CAddress without the time field, as inside "version": services, 16-byte IP, port *)
Record net_addr := { na_services : Z; na_ip : bytes; na_port : Z }.

Definition net_addr_wf (a : net_addr) : Prop :=
  0 <= na_services a < 18446744073709551616 /\ length (na_ip a) = 16%nat /\ 0 <= na_port a < 65536.

(* services uint64 little-endian, IP 16 bytes, PORT BIG-ENDIAN (network byte order) *)
Definition net_addr_bytes (a : net_addr) : bytes :=
  to_le 8 (na_services a) ++ na_ip a ++ to_be 2 (na_port a).

Definition net_addr_decode (s : bytes) : result (net_addr * bytes) :=
  '(sv, s1) <- take 8 s ;;
  '(ip, s2) <- take 16 s1 ;;
  '(pt, s3) <- take 2 s2 ;;
  Ok ({| na_services := from_le sv; na_ip := ip; na_port := from_be pt |}, s3).

Record p2p_version := {
  pv_version : Z; pv_services : Z; pv_timestamp : Z;
  pv_addr_recv : net_addr; pv_addr_from : net_addr;
  pv_nonce : bytes;            (* uint64, kept as its 8 wire bytes *)
  pv_user_agent : bytes; pv_start_height : Z; pv_relay : bool }.

Definition p2p_version_wf (v : p2p_version) : Prop :=
  0 <= pv_version v < 4294967296 /\ 0 <= pv_services v < 18446744073709551616 /\
  0 <= pv_timestamp v < 18446744073709551616 /\
  net_addr_wf (pv_addr_recv v) /\ net_addr_wf (pv_addr_from v) /\
  length (pv_nonce v) = 8%nat /\ zlen (pv_user_agent v) < 18446744073709551616 /\
  0 <= pv_start_height v < 4294967296.

Definition p2p_version_bytes (v : p2p_version) : bytes :=
  to_le 4 (pv_version v) ++ to_le 8 (pv_services v) ++ to_le 8 (pv_timestamp v)
  ++ net_addr_bytes (pv_addr_recv v) ++ net_addr_bytes (pv_addr_from v)
  ++ pv_nonce v ++ cs_bytes (zlen (pv_user_agent v)) ++ pv_user_agent v
  ++ to_le 4 (pv_start_height v) ++ [if pv_relay v then 1 else 0].

(* protocol version >= 70001: every field present *)
Definition p2p_version_decode (s : bytes) : result (p2p_version * bytes) :=
  '(v, s1) <- take 4 s ;;
  '(sv, s2) <- take 8 s1 ;;
  '(ts, s3) <- take 8 s2 ;;
  '(ar, s4) <- net_addr_decode s3 ;;
  '(af, s5) <- net_addr_decode s4 ;;
  '(nonce, s6) <- take 8 s5 ;;
  '(ual, s7) <- read_cs s6 ;;
  '(ua, s8) <- takez ual s7 ;;
  '(sh, s9) <- take 4 s8 ;;
  match s9 with
  | [] => Err
  | r :: s10 =>
      Ok ({| pv_version := from_le v; pv_services := from_le sv; pv_timestamp := from_le ts;
             pv_addr_recv := ar; pv_addr_from := af; pv_nonce := nonce; pv_user_agent := ua;
             pv_start_height := from_le sh; pv_relay := negb (r =? 0) |}, s10)
  end.

(* ---------------- getheaders ---------------- *)

(* version, CompactSize count of locator hashes, the hashes (internal byte order = reversed
   display order), hash_stop *)
Definition p2p_getheaders_bytes (version : Z) (locator : list bytes) (stop : bytes) : bytes :=
  to_le 4 version ++ cs_bytes (zlen locator) ++ concat (map (@rev Z) locator) ++ rev stop.

Fixpoint take_hashes (n : nat) (s : bytes) : result (list bytes * bytes) :=
  match n with
  | O => Ok ([], s)
  | S k => '(h, s1) <- take 32 s ;; '(hs, s2) <- take_hashes k s1 ;; Ok (rev h :: hs, s2)
  end.

Definition p2p_getheaders_decode (s : bytes) : result (Z * list bytes * bytes * bytes) :=
  '(v, s1) <- take 4 s ;;
  '(n, s2) <- read_cs s1 ;;
  if zlen s2 <? 32 * n then Err
  else
    '(loc, s3) <- take_hashes (Z.to_nat n) s2 ;;
    '(stop, s4) <- take 32 s3 ;;
    Ok (from_le v, loc, rev stop, s4).

(* ---------------- getdata (inventory vector) ---------------- *)

Definition inv_bytes (it : Z * bytes) : bytes := to_le 4 (fst it) ++ rev (snd it).

Definition p2p_getdata_bytes (items : list (Z * bytes)) : bytes :=
  cs_bytes (zlen items) ++ concat (map inv_bytes items).

Fixpoint take_invs (n : nat) (s : bytes) : result (list (Z * bytes) * bytes) :=
  match n with
  | O => Ok ([], s)
  | S k =>
      '(t, s1) <- take 4 s ;; '(h, s2) <- take 32 s1 ;;
      '(r, s3) <- take_invs k s2 ;; Ok ((from_le t, rev h) :: r, s3)
  end.

Definition p2p_getdata_decode (s : bytes) : result (list (Z * bytes) * bytes) :=
  '(n, s1) <- read_cs s ;;
  if zlen s1 <? 36 * n then Err else take_invs (Z.to_nat n) s1.

(* ---------------- BIP157 requests ---------------- *)

(* getcfilters and getcfheaders: filter_type (1), start_height (uint32 LE), stop_hash (32) *)
Definition p2p_getcfilters_bytes (ftype height : Z) (stop : bytes) : bytes :=
  [ftype] ++ to_le 4 height ++ rev stop.

Definition p2p_getcfilters_decode (s : bytes) : result (Z * Z * bytes * bytes) :=
  '(t, s1) <- take 1 s ;; '(h, s2) <- take 4 s1 ;; '(st, s3) <- take 32 s2 ;;
  Ok (from_le t, from_le h, rev st, s3).

(* getcfcheckpt: filter_type (1), stop_hash (32) *)
Definition p2p_getcfcheckpt_bytes (ftype : Z) (stop : bytes) : bytes := [ftype] ++ rev stop.

Definition p2p_getcfcheckpt_decode (s : bytes) : result (Z * bytes * bytes) :=
  '(t, s1) <- take 1 s ;; '(st, s2) <- take 32 s1 ;; Ok (from_le t, rev st, s2).
