(* Spec/Bip341.v — the signature message of BIP341 (taproot) with the BIP342 extension,
   transcribed from the BIP texts.

   SigMsg(hash_type, ext_flag) is the concatenation of:
     Control:            hash_type (1)
     Transaction data:   nVersion (4), nLockTime (4)
                         if hash_type & 0x80 does not equal SIGHASH_ANYONECANPAY:
                           sha_prevouts (32)      SHA256 of the serialization of all input outpoints
                           sha_amounts (32)       SHA256 of all spent output amounts (8 bytes each)
                           sha_scriptpubkeys (32) SHA256 of all spent outputs' scriptPubKeys,
                                                  serialized as script inside CTxOut
                           sha_sequences (32)     SHA256 of the serialization of all input nSequence
                         if hash_type & 3 does not equal SIGHASH_NONE or SIGHASH_SINGLE:
                           sha_outputs (32)       SHA256 of all outputs in CTxOut format
     Data about this input:
                         spend_type (1) = (ext_flag * 2) + annex_present
                         if hash_type & 0x80 equals SIGHASH_ANYONECANPAY:
                           outpoint (36), amount (8), scriptPubKey (as script inside CTxOut), nSequence (4)
                         else  input_index (4)
                         if an annex is present: sha_annex (32) = SHA256 of (compact_size(size of
                           annex) || annex), the annex including its mandatory 0x50 prefix
     Data about this output:
                         if hash_type & 3 equals SIGHASH_SINGLE:
                           sha_single_output (32) SHA256 of the corresponding output in CTxOut format

   hash_type must be one of 0x00 0x01 0x02 0x03 0x81 0x82 0x83, and SIGHASH_SINGLE needs an output
   with the index of the input: otherwise validation fails (there is no message: None).
   Key path: the message is hash_TapSighash(0x00 || SigMsg(hash_type, 0)).
   Script path (BIP342): hash_TapSighash(0x00 || SigMsg(hash_type, 1) || ext) with
     ext = tapleaf_hash (32) || key_version (1) = 0x00 || codesep_pos (4),
     codesep_pos = 0xffffffff when no OP_CODESEPARATOR was executed (the only case here; the
     position of an executed OP_CODESEPARATOR is OUT OF SCOPE).
   tapleaf_hash = hash_TapLeaf(v || compact_size(size of s) || s) for leaf version v, script s.

   Witness stack rules (BIP341 "Script validation rules"): with at least two witness elements, a
   last element whose first byte is 0x50 is the annex and is removed; if then exactly one element
   is left it is a key path spend; with at least two left, the last is the control block c
   (length 33 + 32m, 0 <= m <= 128, p = c[1:33] must be the x coordinate of a curve point), the
   second-to-last is the script s, and the leaf version is c[0] & 0xfe.
   Definitions only. *)
From V Require Import Base.Prelude Base.Ints Spec.TxData.

Definition valid_hash_type (ht : Z) : bool :=
  (ht =? 0) || (ht =? 1) || (ht =? 2) || (ht =? 3) || (ht =? 129) || (ht =? 130) || (ht =? 131).

Definition anyonecanpay (ht : Z) : bool := Z.land ht 128 =? SIGHASH_ANYONECANPAY.
Definition out_none (ht : Z) : bool := Z.land ht 3 =? SIGHASH_NONE.
Definition out_single (ht : Z) : bool := Z.land ht 3 =? SIGHASH_SINGLE.

(* the annex of a witness stack, and the stack without it *)
Definition split_annex (w : list bytes) : option bytes * list bytes :=
  match rev w with
  | (b :: a) :: ((_ :: _) as r) => if b =? 80 then (Some (b :: a), rev r) else (None, w)
  | _ => (None, w)
  end.

(* script path data of a witness stack (after the annex is removed): leaf version, script,
   control block.  [lift_ok p] says that p is the x coordinate of a curve point. *)
Section ScriptPath.
Variable lift_ok : bytes -> bool.
Definition control_block_ok (c : bytes) : bool :=
  let n := zlen c in
  (33 <=? n) && (n <=? 33 + 32 * 128) && ((n - 33) mod 32 =? 0) &&
  lift_ok (firstn 32 (skipn 1 c)).
Definition script_path (stack : list bytes) : option (Z * bytes * bytes) :=
  match rev stack with
  | c :: s :: _ =>
      if control_block_ok c then Some (Z.land (nth 0 c 0) 254, s, c) else None
  | _ => None
  end.
End ScriptPath.

Section WithHash.
Variable sha256 : bytes -> bytes.
Variable hash_tapsighash : bytes -> bytes.   (* hash_TapSighash *)
Variable hash_tapleaf : bytes -> bytes.      (* hash_TapLeaf *)

Definition sha_prevouts (tx : ctransaction) : bytes :=
  sha256 (flat_map (fun i => ser_outpoint (ci_prevout i)) (ct_vin tx)).
Definition sha_amounts (spent : list coin) : bytes :=
  sha256 (flat_map (fun c => le64 (cn_value c)) spent).
Definition sha_scriptpubkeys (spent : list coin) : bytes :=
  sha256 (flat_map (fun c => ser_script (cn_script c)) spent).
Definition sha_sequences (tx : ctransaction) : bytes :=
  sha256 (flat_map (fun i => le32 (ci_sequence i)) (ct_vin tx)).
Definition sha_outputs (tx : ctransaction) : bytes :=
  sha256 (flat_map ser_txout (ct_vout tx)).

(* SigMsg(hash_type, ext_flag) for input n_in; [spent] are the outputs spent by the inputs, in
   order; [annex] the annex of this input, if any *)
Definition sig_msg (ht : Z) (ext_flag : Z) (tx : ctransaction) (spent : list coin) (n_in : nat)
  (annex : option bytes) : option bytes :=
  if negb (valid_hash_type ht) then None
  else if negb (length spent =? length (ct_vin tx))%nat then None
  else
    match nth_error (ct_vin tx) n_in, nth_error spent n_in with
    | Some txin, Some coin =>
        let tx_data :=
          le32 (ct_version tx) ++ le32 (ct_locktime tx) ++
          (if negb (anyonecanpay ht)
           then sha_prevouts tx ++ sha_amounts spent ++ sha_scriptpubkeys spent ++ sha_sequences tx
           else []) ++
          (if negb (out_none ht) && negb (out_single ht) then sha_outputs tx else []) in
        let annex_present := match annex with Some _ => 1 | None => 0 end in
        let input_data :=
          [ext_flag * 2 + annex_present] ++
          (if anyonecanpay ht
           then ser_outpoint (ci_prevout txin) ++ le64 (cn_value coin) ++
                ser_script (cn_script coin) ++ le32 (ci_sequence txin)
           else le32 (Z.of_nat n_in)) ++
          (match annex with Some a => sha256 (compact_size (zlen a) ++ a) | None => [] end) in
        if out_single ht then
          match nth_error (ct_vout tx) n_in with
          | Some o => Some ([ht] ++ tx_data ++ input_data ++ sha256 (ser_txout o))
          | None => None                 (* SIGHASH_SINGLE without a corresponding output *)
          end
        else Some ([ht] ++ tx_data ++ input_data)
    | _, _ => None
    end.

Definition tapleaf_hash (leaf_version : Z) (script : bytes) : bytes :=
  hash_tapleaf ([leaf_version] ++ compact_size (zlen script) ++ script).

(* BIP342 extension *)
Definition ext342 (leaf_version : Z) (script : bytes) : bytes :=
  tapleaf_hash leaf_version script ++ [0] ++ le32 4294967295.

(* the byte string given to hash_TapSighash; [leaf] = None for the key path *)
Definition message (ht : Z) (tx : ctransaction) (spent : list coin) (n_in : nat)
  (annex : option bytes) (leaf : option (Z * bytes)) : option bytes :=
  match leaf with
  | None => option_map (fun m => [0] ++ m) (sig_msg ht 0 tx spent n_in annex)
  | Some (v, s) => option_map (fun m => [0] ++ m ++ ext342 v s) (sig_msg ht 1 tx spent n_in annex)
  end.

Definition digest (ht : Z) (tx : ctransaction) (spent : list coin) (n_in : nat)
  (annex : option bytes) (leaf : option (Z * bytes)) : option bytes :=
  option_map hash_tapsighash (message ht tx spent n_in annex leaf).
End WithHash.
