(* Spec/PsbtHonest.v — C11: a DECISION PROCEDURE for "this PSBT is an honest spend of the m-of-n
   wallet whose cosigner xpubs are the map" (the premise of C11_honest_psbt_summarised), written
   declaratively: it does not run validate / describe, it checks the wallet relation field by field.
   Definitions only.  Proofs/PsbtHonestP.v proves [honest_psbt_b = true -> ] the Prop-level premises.
   The dispatcher evaluates it on every generated PSBT (honest ones — including those built by the
   implementation's own create_multisig_psbt — must satisfy it; tampered ones must not). *)
From V Require Import Base.Prelude Base.Ints Model.Helper Model.Script Model.PsbtDescribe.

(* exactly OP_m <n keys of 33/65 bytes> OP_n OP_CHECKMULTISIG, 1 <= m <= n <= 16 *)
Definition key_len_ok (k : bytes) : bool := (zlen k =? 33) || (zlen k =? 65).
Definition multisig_script (m : Z) (keys : list bytes) : list cmd :=
  Op (80 + m) :: map Push keys ++ [Op (80 + zlen keys); Op 174].
Fixpoint pushes_of (cs : list cmd) : option (list bytes) :=
  match cs with
  | [] => Some []
  | Push b :: r => match pushes_of r with Some l => Some (b :: l) | None => None end
  | Op _ :: _ => None
  end.
(* the keys of a standard m-of-n script, if it is one *)
Definition std_keys (m n : Z) (sc : list cmd) : option (list bytes) :=
  match sc with
  | Op _ :: r =>
      match pushes_of (removelast (removelast r)) with
      | Some keys =>
          if cmds_eqb sc (multisig_script m keys) && (zlen keys =? n) && forallb key_len_ok keys &&
             (1 <=? m) && (m <=? n) && (n <=? 16)
          then Some keys else None
      | None => None
      end
  | _ => None
  end.

Fixpoint nodup_b (l : list bytes) : bool :=
  match l with
  | [] => true
  | x :: r => negb (existsb (beq x) r) && nodup_b r
  end.

Definition is_none {A} (o : option A) : bool := match o with Some _ => false | None => true end.

Section HonestB.
  Variable hash160 sha256 : bytes -> bytes.
  Variable xpub : Type.
  Variable derive : xpub -> list Z -> option bytes.

  (* the scriptPubKey shown by the attached UTXO records, when they are those of the outpoint *)
  Definition shown_spk (i : pin) : option (list cmd) :=
    match i_prev_tx i with
    | Some pt =>
        if beq (i_txid i) (pt_hash pt) then
          match nthz (pt_outs pt) (i_index i) with
          | Some u =>
              match i_prev_out i with
              | Some po => if (u_amount po =? u_amount u) && cmds_eqb (u_spk po) (u_spk u)
                           then Some (u_spk u) else None
              | None => Some (u_spk u)
              end
          | None => None
          end
        else None
    | None => match i_prev_out i with Some po => Some (u_spk po) | None => None end
    end.

  (* the script the spent output commits to: P2SH (redeem script, no witness UTXO) or P2WSH *)
  Definition committed_in (i : pin) (spk : list cmd) : option (list cmd) :=
    match i_witness i, i_redeem i with
    | None, Some sc =>
        match ser_cmds sc with
        | Ok ser => if is_none (i_prev_out i) && cmds_eqb spk (p2sh_script (hash160 ser))
                    then Some sc else None
        | Err => None
        end
    | Some sc, None =>
        match ser_cmds sc with
        | Ok ser => if cmds_eqb spk (p2wsh_script (sha256 ser)) then Some sc else None
        | Err => None
        end
    | _, _ => None
    end.

  (* the named key is found in the map and derived from that xpub at the trimmed (non-empty) path *)
  Definition derives_b (hm : hdmap xpub) (np : named_pub) : bool :=
    match lookup_xfp xpub hm (np_xfp np) with
    | Some (xp, depth) =>
        match ltrim (np_path np) depth with
        | Ok (z :: t) => match derive xp (z :: t) with Some s => beq s (np_sec np) | None => false end
        | _ => false
        end
    | None => false
    end.

  Definition pubs_ok (hm : hdmap xpub) (sc : list cmd) (pubs : list named_pub) : bool :=
    forallb (fun np => has_key sc (np_key np) && derives_b hm np) pubs.

  Definition honest_in_b (hm : hdmap xpub) (m n : Z) (i : pin) : bool :=
    match shown_spk i with
    | Some spk =>
        match committed_in i spk with
        | Some sc => is_some (std_keys m n sc) && (zlen (i_pubs i) =? zlen hm) && pubs_ok hm sc (i_pubs i)
        | None => false
        end
    | None => false
    end.

  (* the script a change output commits to: P2SH, P2WSH or P2SH-P2WSH *)
  Definition committed_out (o : pout) : option (list cmd) :=
    match o_witness o, o_redeem o with
    | None, Some sc =>
        match ser_cmds sc with
        | Ok ser => if cmds_eqb (o_spk o) (p2sh_script (hash160 ser)) then Some sc else None
        | Err => None
        end
    | Some sc, None =>
        match ser_cmds sc with
        | Ok ser => if cmds_eqb (o_spk o) (p2wsh_script (sha256 ser)) then Some sc else None
        | Err => None
        end
    | Some sc, Some rs =>
        match ser_cmds sc with
        | Ok ser =>
            match ser_cmds (p2wsh_script (sha256 ser)) with
            | Ok rser => if cmds_eqb rs (p2wsh_script (sha256 ser)) &&
                            cmds_eqb (o_spk o) (p2sh_script (hash160 rser))
                         then Some sc else None
            | Err => None
            end
        | Err => None
        end
    | None, None => None
    end.

  Definition honest_out_b (hm : hdmap xpub) (m n : Z) (o : pout) : bool :=
    if is_nil (o_pubs o) then
      is_none (o_redeem o) && is_none (o_witness o) && addressable (o_spk o)
    else
      match committed_out o with
      | Some sc => is_some (std_keys m n sc) && (zlen (o_pubs o) =? n) &&
                   nodup_b (map np_xfp (o_pubs o)) && pubs_ok hm sc (o_pubs o)
      | None => false
      end.

  Definition ancestors_b (hs : list (hdpub xpub)) (np : named_pub) : bool :=
    forallb (fun h =>
               negb (beq (h_xfp h) (np_xfp np) && is_prefix (h_path h) (np_path np)) ||
               match derive (h_xpub h) (skipn (length (h_path h)) (np_path np)) with
               | Some s => beq s (np_sec np)
               | None => false
               end) hs.

  Fixpoint values_of (ins : list pin) : option (list Z) :=
    match ins with
    | [] => Some []
    | i :: r => match i_value i, values_of r with
                | Some v, Some vs => Some (v :: vs)
                | _, _ => None
                end
    end.

  (* hm0 = the hdpubkey_map argument ([] = take the PSBT's global xpubs) *)
  Definition honest_psbt_b (hm0 : hdmap xpub) (p : psbt xpub) (m : Z) : bool :=
    let hm := match hm0 with [] => map_of_hd_pubs xpub (p_hd_pubs p) | _ => hm0 end in
    let n := zlen hm in
    negb (is_nil hm) && negb (is_nil (p_ins p)) &&
    forallb (honest_in_b hm m n) (p_ins p) &&
    forallb (honest_out_b hm m n) (p_outs p) &&
    (length (filter (fun o => negb (is_nil (o_pubs o))) (p_outs p)) <=? 1)%nat &&
    forallb (ancestors_b (p_hd_pubs p)) (flat_map i_pubs (p_ins p) ++ flat_map o_pubs (p_outs p)) &&
    match values_of (p_ins p) with
    | Some vs => negb (sumz vs =? 0)
    | None => false
    end.
End HonestB.
