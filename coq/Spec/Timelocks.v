(* Spec/Timelocks.v — what BIP65 (nLockTime), BIP68 (relative lock time in nSequence) and BIP112
   say about the two 32-bit fields, written with arithmetic (no bit operations) and NOT from the
   Python code.

   BIP65 / nLockTime: a value below 500000000 is a block height, otherwise a UNIX time; two lock
   times can be compared only when they are of the same kind.
   BIP68 / nSequence (for 0 <= n < 2^32):
     bit 31 (disable flag) set       -> the field has no relative-lock-time meaning;
     otherwise bit 22 (type flag) set -> time based: (n mod 2^16) units of 512 seconds,
               bit 22 clear           -> block based: (n mod 2^16) blocks.
   BIP112: two sequence values are comparable when both are block based or both time based; the
   comparison is on the masked 16-bit values. *)
From V Require Import Base.Prelude.

Definition LOCKTIME_THRESHOLD_65 : Z := 500000000.
Inductive lt_kind : Type := Height | Time.
Definition locktime_kind (n : Z) : lt_kind := if n <? LOCKTIME_THRESHOLD_65 then Height else Time.
Definition same_kind (a b : lt_kind) : bool :=
  match a, b with Height, Height => true | Time, Time => true | _, _ => false end.

Inductive seq_meaning : Type :=
| NoRelativeLock                (* disable flag set *)
| Blocks (n : Z)                (* n blocks *)
| Seconds (n : Z).              (* n seconds (a multiple of 512) *)

Definition bit (n k : Z) : bool := Z.odd (n / 2 ^ k).

Definition bip68 (n : Z) : seq_meaning :=
  if bit n 31 then NoRelativeLock
  else if bit n 22 then Seconds (512 * (n mod 65536))
  else Blocks (n mod 65536).

Definition bip112_comparable (a b : Z) : bool :=
  match bip68 a, bip68 b with
  | Blocks _, Blocks _ => true
  | Seconds _, Seconds _ => true
  | _, _ => false
  end.
(* the masked value compared by CHECKSEQUENCEVERIFY *)
Definition bip68_value (n : Z) : Z := n mod 65536.
