(* Spec/Rfc6979Seq.v — RFC 6979 §3.2 step h written WITHOUT a loop, as a statement about the sequence of
   HMAC-DRBG states: the nonce is the FIRST candidate of the sequence that lies in [1, q-1].  Definitions only.

     state_0           = (K, V) after steps b..g
     T_i               = HMAC_{K_i}(V_i)                            (h.2, one block since hlen = qlen)
     candidate_i       = bits2int(T_i)                              (h.3)
     state_{i+1}       = (K', HMAC_{K'}(T_i))  with  K' = HMAC_{K_i}(T_i || 0x00)
     k                 = candidate_i  for the least i with 1 <= candidate_i <= q - 1

   This is independent of the recursion shape of both the model (Model/Pecc.v det_k_loop) and the
   loop transcription (Spec/Rfc6979.v step_h); Proofs/EcdsaDeepP.v proves all three agree for every
   HMAC function and every fuel. *)
From V Require Import Base.Prelude Base.Ints Spec.Rfc6979.

Section Seq.
Variable q : Z.
Variable hmac : bytes -> bytes -> bytes.

Definition h_next (st : bytes * bytes) : bytes * bytes :=
  let '(K, V) := st in
  let T := hmac K V in
  let K' := hmac K (T ++ [0]) in
  (K', hmac K' T).

Fixpoint h_state (i : nat) (st : bytes * bytes) : bytes * bytes :=
  match i with O => st | S j => h_state j (h_next st) end.

Definition h_cand (i : nat) (st : bytes * bytes) : Z :=
  let '(K, V) := h_state i st in bits2int (hmac K V).

Definition acceptable (k : Z) : Prop := 1 <= k <= q - 1.

(* candidate i is the first acceptable one *)
Definition first_acceptable (st : bytes * bytes) (i : nat) (k : Z) : Prop :=
  h_cand i st = k /\ acceptable k /\ forall j, (j < i)%nat -> ~ acceptable (h_cand j st).

(* steps b..g: the state the candidates are drawn from *)
Definition init_state (xo ho : bytes) : bytes * bytes :=
  let V0 := repeatz 1 32 in
  let K0 := repeatz 0 32 in
  let K1 := hmac K0 (V0 ++ [0] ++ xo ++ ho) in
  let V1 := hmac K1 V0 in
  let K2 := hmac K1 (V1 ++ [1] ++ xo ++ ho) in
  (K2, hmac K2 V1).

(* executable form: look at candidates i, i+1, ... (cnt of them); returns (index, value) of the first acceptable.
   The index is the number of rejected candidates, i.e. the implementation performs 5 + 3 * index HMAC calls. *)
Fixpoint seq_search (cnt i : nat) (st : bytes * bytes) : option (nat * Z) :=
  match cnt with
  | O => None
  | S c =>
      let k := h_cand i st in
      if (1 <=? k) && (k <=? q - 1) then Some (i, k) else seq_search c (S i) st
  end.

Definition rfc6979_seq (fuel : nat) (x : Z) (h1 : bytes) : option (nat * Z) :=
  seq_search fuel 0 (init_state (int2octets x) (bits2octets q h1)).

End Seq.
