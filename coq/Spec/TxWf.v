(* Spec/TxWf.v — what C04 quantifies over: well-formedness of scripts / inputs / outputs /
   transactions built through the API (boolean, so that examples compute), the one
   normalisation of the wire format (an empty push is opcode 0), witness stripping.
   Definitions only. *)
From V Require Import Base.Prelude Base.Ints Model.Helper Model.Script Model.Tx.

(* ---- well-formedness: what the wire format can represent ---- *)
Definition op_wfb (o : Z) : bool := (o =? 0) || ((79 <=? o) && (o <=? 255)).
(* opcodes {0} u [79,255]; pushes of 0..520 bytes *)
Definition cmd_wfb (c : cmd) : bool :=
  match c with Op o => op_wfb o | Push b => zlen b <=? 520 end.
(* the same without the empty push (which the wire cannot tell from opcode 0) *)
Definition cmd_strictb (c : cmd) : bool :=
  match c with Op o => op_wfb o | Push b => (1 <=? zlen b) && (zlen b <=? 520) end.
Definition cmds_wfb (cs : list cmd) : bool := forallb cmd_wfb cs.
Definition cmds_strictb (cs : list cmd) : bool := forallb cmd_strictb cs.

(* the one normalisation of the wire format: an empty push is opcode 0 *)
Definition canon_cmd (c : cmd) : cmd := match c with Push [] => Op 0 | _ => c end.
Definition canon_cmds (cs : list cmd) : list cmd := map canon_cmd cs.

(* what makes raw_serialize raise *)
Definition cmd_bad (c : cmd) : Prop :=
  match c with Op o => o < 0 \/ 255 < o | Push b => 520 < zlen b end.


(* ================= well-formedness (boolean, so that examples compute) ================= *)
Definition u32b (n : Z) : bool := (0 <=? n) && (n <? 4294967296).
Definition u64b (n : Z) : bool := (0 <=? n) && (n <? 18446744073709551616).
(* a length / count that fits a compact-size integer *)
Definition lenb {A} (l : list A) : bool := zlen l <? 18446744073709551616.
(* a byte string that BytesIO.read can be asked for (n <= sys.maxsize) *)
Definition len63b {A} (l : list A) : bool := zlen l <? 9223372036854775808.

(* upper bound of the serialised size of a command list *)
Definition cmd_size (c : cmd) : Z := match c with Op _ => 1 | Push b => zlen b + 3 end.
Fixpoint cmds_size (cs : list cmd) : Z :=
  match cs with [] => 0 | c :: r => cmd_size c + cmds_size r end.

(* a script built through the API: no .raw, representable commands, length fits a varint *)
Definition script_wfb (s : script) : bool :=
  match s_raw s with
  | Some _ => false
  | None => cmds_wfb (s_cmds s) && (cmds_size (s_cmds s) <? 9223372036854775808)
  end.
Definition script_strictb (s : script) : bool := script_wfb s && cmds_strictb (s_cmds s).

Definition txin_wfb (i : txin) : bool :=
  (length (i_prev_tx i) =? 32)%nat && u32b (i_prev_index i) && u32b (i_sequence i) &&
  script_wfb (i_script i) && lenb (i_witness i) && forallb (fun it => len63b it) (i_witness i).
Definition txout_wfb (o : txout) : bool := u64b (o_amount o) && script_wfb (o_script o).

Definition no_witness (i : txin) : bool := match i_witness i with [] => true | _ => false end.

Definition tx_wfb (t : tx) : bool :=
  u32b (t_version t) && u32b (t_locktime t) &&
  forallb txin_wfb (t_ins t) && forallb txout_wfb (t_outs t) &&
  lenb (t_ins t) && lenb (t_outs t) &&
  (t_segwit t || forallb no_witness (t_ins t)).

(* no empty pushes anywhere: then the round trip is the identity *)
Definition tx_strictb (t : tx) : bool :=
  tx_wfb t && forallb (fun i => cmds_strictb (s_cmds (i_script i))) (t_ins t) &&
  forallb (fun o => cmds_strictb (s_cmds (o_script o))) (t_outs t).

(* ---- normalisation (empty push = opcode 0) and witness stripping ---- *)
Definition canon_script (s : script) : script := mk_script (canon_cmds (s_cmds s)).
Definition canon_in (i : txin) : txin :=
  {| i_prev_tx := i_prev_tx i; i_prev_index := i_prev_index i; i_script := canon_script (i_script i);
     i_sequence := i_sequence i; i_witness := i_witness i |}.
Definition canon_out (o : txout) : txout :=
  {| o_amount := o_amount o; o_script := canon_script (o_script o) |}.
Definition canon_tx (t : tx) : tx :=
  {| t_version := t_version t; t_ins := map canon_in (t_ins t); t_outs := map canon_out (t_outs t);
     t_locktime := t_locktime t; t_segwit := t_segwit t |}.

Definition strip_in (i : txin) : txin :=
  {| i_prev_tx := i_prev_tx i; i_prev_index := i_prev_index i; i_script := i_script i;
     i_sequence := i_sequence i; i_witness := [] |}.
(* the non-witness data of a transaction *)
Definition strip_tx (t : tx) : tx :=
  {| t_version := t_version t; t_ins := map strip_in (t_ins t); t_outs := t_outs t;
     t_locktime := t_locktime t; t_segwit := false |}.
Definition nonwitness_eq (a b : tx) : Prop := strip_tx a = strip_tx b.


(* replace the witness stacks (input k gets the k-th stack of [ws], or none) and the flag *)
Fixpoint set_wits (ins : list txin) (ws : list (list bytes)) : list txin :=
  match ins with
  | [] => []
  | i :: r =>
      {| i_prev_tx := i_prev_tx i; i_prev_index := i_prev_index i; i_script := i_script i;
         i_sequence := i_sequence i; i_witness := hd [] ws |} :: set_wits r (tl ws)
  end.
Definition with_witness (t : tx) (ws : list (list bytes)) (sw : bool) : tx :=
  {| t_version := t_version t; t_ins := set_wits (t_ins t) ws; t_outs := t_outs t;
     t_locktime := t_locktime t; t_segwit := sw |}.

