(* Spec/Siphash.v — SipHash-2-4 (Aumasson, Bernstein 2012) transcribed from the paper:
   64-bit words, ARX SipRound, 2 compression rounds per 8-byte little-endian block,
   final block carrying the message length in its top byte, v2 ^= 0xff, 4 finalisation
   rounds, output v0^v1^v2^v3.  Independent of Model/Siphash.v. *)
From V Require Import Base.Prelude Base.Ints.

Definition W64 : Z := 18446744073709551616.   (* 2^64 *)

Definition add64 (a b : Z) : Z := (a + b) mod W64.
Definition rotl64 (x : Z) (n : Z) : Z :=
  Z.lor (Z.shiftl x n mod W64) (Z.shiftr x (64 - n)).

Definition word4 : Type := (Z * Z * Z * Z)%type.

Definition sipround (v : word4) : word4 :=
  let '(v0, v1, v2, v3) := v in
  let v0 := add64 v0 v1 in
  let v1 := rotl64 v1 13 in
  let v1 := Z.lxor v1 v0 in
  let v0 := rotl64 v0 32 in
  let v2 := add64 v2 v3 in
  let v3 := rotl64 v3 16 in
  let v3 := Z.lxor v3 v2 in
  let v0 := add64 v0 v3 in
  let v3 := rotl64 v3 21 in
  let v3 := Z.lxor v3 v0 in
  let v2 := add64 v2 v1 in
  let v1 := rotl64 v1 17 in
  let v1 := Z.lxor v1 v2 in
  let v2 := rotl64 v2 32 in
  (v0, v1, v2, v3).

(* c = 2 compression rounds around one message word *)
Definition compress (v : word4) (m : Z) : word4 :=
  let '(v0, v1, v2, v3) := v in
  let '(w0, w1, w2, w3) := sipround (sipround (v0, v1, v2, Z.lxor v3 m)) in
  (Z.lxor w0 m, w1, w2, w3).

Definition sip_key_init (key : bytes) : word4 :=
  let k0 := from_le (firstn 8 key) in
  let k1 := from_le (firstn 8 (skipn 8 key)) in
  (Z.lxor k0 8317987319222330741,      (* "somepseu" *)
   Z.lxor k1 7237128888997146477,      (* "dorandom" *)
   Z.lxor k0 7816392313619706465,      (* "lygenera" *)
   Z.lxor k1 8387220255154660723).     (* "tedbytes" *)

(* all complete 8-byte words of the message, then the last word:
   remaining (< 8) bytes little-endian, zero padded, length mod 256 in the top byte *)
Fixpoint sip_absorb (fuel : nat) (v : word4) (msg : bytes) (total : Z) : word4 :=
  match fuel with
  | O => compress v (from_le msg + (total mod 256) * 72057594037927936)   (* 2^56 *)
  | S f => sip_absorb f (compress v (from_le (firstn 8 msg))) (skipn 8 msg) total
  end.

Definition siphash24 (key msg : bytes) : Z :=
  let v := sip_absorb (Nat.div (length msg) 8) (sip_key_init key) msg (zlen msg) in
  let '(v0, v1, v2, v3) := v in
  let '(w0, w1, w2, w3) := sipround (sipround (sipround (sipround (v0, v1, Z.lxor v2 255, v3)))) in
  Z.lxor (Z.lxor (Z.lxor w0 w1) w2) w3.
