(* Spec/ConsensusLimits.v — the RESOURCE LIMITS of Bitcoin Core's script evaluation, which
   Spec/Consensus.v leaves out (it answers OutOfScope for a push > 520 bytes and a script
   > 10000 bytes and does not count op codes or stack items).  Transcribed from
   script/interpreter.cpp EvalScript — NOT from the Python code:

     if (script.size() > MAX_SCRIPT_SIZE)                         -> SCRIPT_ERR_SCRIPT_SIZE   (10000)
     for every op code read, executed or not:
       if (vchPushValue.size() > MAX_SCRIPT_ELEMENT_SIZE)         -> SCRIPT_ERR_PUSH_SIZE     (520)
       if (opcode > OP_16 && ++nOpCount > MAX_OPS_PER_SCRIPT)     -> SCRIPT_ERR_OP_COUNT      (201)
       ... the op code ...
       if (stack.size() + altstack.size() > MAX_STACK_SIZE)       -> SCRIPT_ERR_STACK_SIZE    (1000)

   [run_lim] is [Consensus.run] with these four tests added (a violated limit is a script
   failure, [SFail]); everything else is literally the same.  Proofs/LimitsP.v shows that the tests
   cannot fire on scripts within explicit static bounds (so that [run] IS consensus there) and
   exhibits scripts beyond each bound which consensus rejects and the library accepts. *)
From V Require Import Base.Prelude Base.Ints Model.Script Spec.Consensus.

Definition MAX_SCRIPT_ELEMENT_SIZE : Z := 520.
Definition MAX_OPS_PER_SCRIPT : Z := 201.
Definition MAX_STACK_SIZE : Z := 1000.
Definition MAX_SCRIPT_SIZE : Z := 10000.
Definition OP_16 : Z := 96.

Definition stack_size_ok (st : cstate) : bool := zlen (fst st) + zlen (snd st) <=? MAX_STACK_SIZE.

Section Lim.
  Variables ripemd160 sha1 sha256 : bytes -> bytes.
  Variable c : ctx.
  Variable excl_witness : bool.

  Fixpoint run_lim (cmds : list cmd) (vf : list bool) (st : cstate) (nops : Z)
    : sres (list bool * cstate) :=
    match cmds with
    | [] => SOk (vf, st)
    | cm :: rest =>
        let fexec := forallb (fun b => b) vf in
        (* the test at the end of every iteration *)
        let next vf' st' n' := if stack_size_ok st' then run_lim rest vf' st' n' else SFail in
        match cm with
        | Push b =>
            if MAX_SCRIPT_ELEMENT_SIZE <? zlen b then SFail
            else if fexec then
              let st' := (b :: fst st, snd st) in
              if excl_witness && witness_shape (fst st') then SOOS else next vf st' nops
            else next vf st nops
        | Op o =>
            let nops' := if OP_16 <? o then nops + 1 else nops in
            if MAX_OPS_PER_SCRIPT <? nops' then SFail
            else if negb (in_set o) then SOOS
            else if (o =? 99) || (o =? 100) then
              if fexec then
                match fst st with
                | [] => SFail
                | v :: s =>
                    let fvalue := xorb (cast_to_bool v) (o =? 100) in
                    next (fvalue :: vf) (s, snd st) nops'
                end
              else next (false :: vf) st nops'
            else if o =? 103 then
              match vf with
              | [] => SFail
              | b :: vf' => next (negb b :: vf') st nops'
              end
            else if o =? 104 then
              match vf with
              | [] => SFail
              | _ :: vf' => next vf' st nops'
              end
            else if fexec then
              match exec_op ripemd160 sha1 sha256 c o st with
              | SOk st' => next vf st' nops'
              | SFail => SFail
              | SOOS => SOOS
              end
            else next vf st nops'
        end
    end.

  (* EvalScript with the limits + the final test *)
  Definition eval_script_lim (cmds : list cmd) : verdict :=
    if MAX_SCRIPT_SIZE <? script_size cmds then Reject
    else match run_lim cmds [] ([], []) 0 with
         | SOOS => OutOfScope
         | SFail => Reject
         | SOk (_ :: _, _) => Reject
         | SOk ([], ([], _)) => Reject
         | SOk ([], (v :: _, _)) => if cast_to_bool v then Accept else Reject
         end.
End Lim.

(* ------------------------------------------------------------------ static bounds *)

Definition counted (cm : cmd) : Z := match cm with Op o => if OP_16 <? o then 1 else 0 | Push _ => 0 end.
Definition count_ops (cmds : list cmd) : Z := fold_right (fun cm acc => counted cm + acc) 0 cmds.
Definition push_small (cm : cmd) : bool :=
  match cm with Push b => zlen b <=? MAX_SCRIPT_ELEMENT_SIZE | Op _ => true end.

(* a script that cannot reach any of the four limits: at most 10000 bytes, pushes of at most 520
   bytes, at most 201 op codes above OP_16, and at most 333 commands (no op code of the
   implemented set adds more than three stack items) *)
Definition within_limits (cmds : list cmd) : bool :=
  (script_size cmds <=? MAX_SCRIPT_SIZE) && forallb push_small cmds
  && (count_ops cmds <=? MAX_OPS_PER_SCRIPT) && (3 * zlen cmds <=? MAX_STACK_SIZE).
