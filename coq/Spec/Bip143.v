(* Spec/Bip143.v — transaction digest algorithm of BIP143 (version 0 witness programs),
   transcribed from the BIP text:

     Double SHA256 of the serialization of:
       1. nVersion of the transaction (4-byte little endian)
       2. hashPrevouts (32-byte hash)          3. hashSequence (32-byte hash)
       4. outpoint (32-byte hash + 4-byte little endian)
       5. scriptCode of the input (serialized as scripts inside CTxOuts)
       6. value of the output spent by this input (8-byte little endian)
       7. nSequence of the input (4-byte little endian)
       8. hashOutputs (32-byte hash)           9. nLocktime (4-byte little endian)
      10. sighash type of the signature (4-byte little endian)

     hashPrevouts: if the ANYONECANPAY flag is not set, the double SHA256 of the serialization of
       all input outpoints; otherwise a uint256 of 0x0000......0000.
     hashSequence: if none of the ANYONECANPAY, SINGLE, NONE sighash type is set, the double SHA256
       of the serialization of nSequence of all inputs; otherwise a uint256 of 0x0000......0000.
     hashOutputs: if the sighash type is neither SINGLE nor NONE, the double SHA256 of the
       serialization of all output amount (8-byte little endian) with scriptPubKey (serialized as
       scripts inside CTxOuts); if sighash type is SINGLE and the input index is smaller than the
       number of outputs, the double SHA256 of the output amount with scriptPubKey of the same
       index as the input; otherwise a uint256 of 0x0000......0000.

     scriptCode: for P2WPKH witness program, 0x1976a914{20-byte-pubkey-hash}88ac; for P2WSH witness
       program, the witnessScript serialized as scripts inside CTxOut (when it contains no
       OP_CODESEPARATOR; the OP_CODESEPARATOR rule is OUT OF SCOPE here).

   SINGLE / NONE are tested on the low 5 bits (nHashType & 0x1f), as in the reference
   implementation.  Definitions only. *)
From V Require Import Base.Prelude Base.Ints Spec.TxData.

Definition is_single (ht : Z) : bool := Z.land ht 31 =? SIGHASH_SINGLE.
Definition is_none (ht : Z) : bool := Z.land ht 31 =? SIGHASH_NONE.
Definition is_anyonecanpay (ht : Z) : bool := negb (Z.land ht SIGHASH_ANYONECANPAY =? 0).

(* scriptCode of a P2WPKH program with the given 20-byte key hash, WITHOUT the length byte 0x19
   (item 5 adds it when the script is serialised) *)
Definition p2wpkh_script_code (h : bytes) : bytes := [118; 169; 20] ++ h ++ [136; 172].

Section WithHash.
Variable hash256 : bytes -> bytes.

Definition hash_prevouts (tx : ctransaction) (ht : Z) : bytes :=
  if negb (is_anyonecanpay ht)
  then hash256 (flat_map (fun i => ser_outpoint (ci_prevout i)) (ct_vin tx))
  else zero_hash.

Definition hash_sequence (tx : ctransaction) (ht : Z) : bytes :=
  if negb (is_anyonecanpay ht) && negb (is_single ht) && negb (is_none ht)
  then hash256 (flat_map (fun i => le32 (ci_sequence i)) (ct_vin tx))
  else zero_hash.

Definition hash_outputs (tx : ctransaction) (n_in : nat) (ht : Z) : bytes :=
  if negb (is_single ht) && negb (is_none ht)
  then hash256 (flat_map ser_txout (ct_vout tx))
  else if is_single ht then
    match nth_error (ct_vout tx) n_in with
    | Some o => hash256 (ser_txout o)
    | None => zero_hash
    end
  else zero_hash.

(* None: there is no input n_in *)
Definition preimage (script_code : bytes) (amount : Z) (tx : ctransaction) (n_in : nat) (ht : Z)
  : option bytes :=
  match nth_error (ct_vin tx) n_in with
  | None => None
  | Some txin =>
      Some (le32 (ct_version tx) ++
            hash_prevouts tx ht ++
            hash_sequence tx ht ++
            ser_outpoint (ci_prevout txin) ++
            ser_script script_code ++
            le64 amount ++
            le32 (ci_sequence txin) ++
            hash_outputs tx n_in ht ++
            le32 (ct_locktime tx) ++
            le32 ht)
  end.

Definition digest (script_code : bytes) (amount : Z) (tx : ctransaction) (n_in : nat) (ht : Z)
  : option bytes :=
  option_map hash256 (preimage script_code amount tx n_in ht).
End WithHash.
