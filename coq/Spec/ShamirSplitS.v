(* Spec/ShamirSplitS.v — the deterministic tail of ShareSet.split_secret for k >= 2: the shares
   as a function of the k-2 random strings sd (at x = 0 .. k-3), the digest share ds (at
   x = 254) and the secret (at x = 255).  split_secret draws sd and the random part of ds and
   then computes exactly this (Proofs/ShamirSecrecyP.v split_secret_with); the correspondence
   harness runs it against ShareSet.split_secret with randbits and ShareSet.digest replaced.
   Definitions only. *)
From V Require Import Base.Prelude Base.Ints Model.Mnemonic Model.Shamir.

Local Open Scope Z_scope.

(* the part of split_secret (k >= 2) after the random strings and the digest share are fixed *)
Definition split_with (sd : list (Z * bytes)) (ds secret : bytes) (k n : Z)
  : result (list (Z * bytes)) :=
  let base := sd ++ [(254, ds); (255, secret)] in
  more <- mapM (fun i => y <- interpolate i base ;; Ok (i, y))
               (zrange (k - 2) (Z.to_nat (n - (k - 2)))) ;;
  Ok (sd ++ more).

Definition pt_ok (nb : nat) (b : bytes) : Prop := length b = nb /\ bytes_ok b.

(* the k-2 random shares: indices 0 .. k-3, byte strings of the right length *)
Definition sd_ok (sd : list (Z * bytes)) (k : Z) (nb : nat) : Prop :=
  map fst sd = zrange 0 (Z.to_nat (k - 2)) /\ Forall (fun p => pt_ok nb (snd p)) sd.

