(* Spec/Consensus.v — Bitcoin consensus semantics of script evaluation for the op code set
   that buidl's interpreter implements, transcribed from Bitcoin Core's
   script/interpreter.cpp (EvalScript, CScriptNum, CastToBool, CheckLockTime, CheckSequence)
   and BIP65 / BIP112 / BIP68 — NOT from the Python code.

   Rules: legacy (SigVersion::BASE) consensus rules with CHECKLOCKTIMEVERIFY and
   CHECKSEQUENCEVERIFY active; the policy-only flags (MINIMALDATA, MINIMALIF, DISCOURAGE_*,
   CLEANSTACK, ...) are off.

   Three-valued: [OutOfScope] marks inputs that property C07 excludes:
     * an op code outside the implemented set (signature op codes, OP_CODESEPARATOR, reserved,
       disabled and unknown op codes, an integer command 1..78) — wherever it occurs;
     * an arithmetic operand longer than 4 bytes (Core fails with a script-number overflow;
       the property restricts arithmetic to operands of at most 4 bytes);
     * a CLTV / CSV operand above 2^32-1 (the property's operand range is [-1, 2^32-1]);
     * a push of more than 520 bytes, a script of more than 10000 bytes (resource limits;
       with at most 40 operations the op-count and stack-size limits cannot be reached);
     * when the library's evaluate is used with its default flags (allow_p2sh / allow_witness),
       the byte patterns it then treats as P2SH / witness programs: with [excl_witness] a data
       push that leaves the stack as [<empty>, <20|32 bytes>] or [<01>, <32 bytes>]; with
       [excl_p2sh] any script that has OP_HASH160, a 20-byte push and OP_EQUAL as a subsequence
       (a static over-approximation of "the remaining commands are HASH160 <20 bytes> EQUAL").
       With both parameters false nothing is excluded on account of its shape.

   Stacks are lists with the TOP FIRST.  A script is a list of [cmd] (Model/Script.v): [Push b]
   is a data push of b, [Op n] the op code n (OP_0 is [Op 0]). *)
From V Require Import Base.Prelude Base.Ints Model.Script.

Inductive verdict : Type := Accept | Reject | OutOfScope.

Inductive sres (A : Type) : Type :=
| SOk (a : A)
| SFail            (* script error: the script is invalid *)
| SOOS.            (* outside the scope of the property *)
Arguments SOk {A} a.
Arguments SFail {A}.
Arguments SOOS {A}.

(* ------------------------------------------------------------------ CScriptNum, CastToBool *)

(* CScriptNum::set_vch: little-endian value, the 0x80 bit of the last byte is the sign *)
Definition sn_value (v : bytes) : Z :=
  match v with
  | [] => 0
  | _ =>
      let r := from_le v in
      if 128 <=? last v 0
      then - (r - 128 * pow256 (length v - 1))      (* result & ~(0x80 << 8*(size-1)), negated *)
      else r
  end.

(* CScriptNum(vch, fRequireMinimal = false, nMaxNumSize): None = scriptnum_error (overflow) *)
Definition scriptnum (maxsize : nat) (v : bytes) : option Z :=
  if (maxsize <? length v)%nat then None else Some (sn_value v).

(* CScriptNum::serialize *)
Fixpoint sn_digits (fuel : nat) (a : Z) : bytes :=
  match fuel with
  | O => []
  | S f => if a =? 0 then [] else Z.land a 255 :: sn_digits f (Z.shiftr a 8)
  end.
Definition sn_serialize (value : Z) : bytes :=
  if value =? 0 then []
  else
    let neg := value <? 0 in
    let a := Z.abs value in
    let d := sn_digits (S (Z.to_nat (Z.log2 a))) a in
    if 128 <=? last d 0 then d ++ [if neg then 128 else 0]
    else if neg then removelast d ++ [last d 0 + 128]
    else d.

(* CastToBool: false iff all bytes are zero, where the last one may also be 0x80 *)
Fixpoint cast_to_bool (v : bytes) : bool :=
  match v with
  | [] => false
  | [b] => negb ((b =? 0) || (b =? 128))
  | b :: r => if b =? 0 then cast_to_bool r else true
  end.

(* CScriptNum minimal-encoding test (fRequireMinimal) *)
Definition sn_minimal (v : bytes) : bool :=
  match rev v with
  | [] => true
  | l :: r =>
      if Z.land l 127 =? 0
      then match r with
           | [] => false
           | p :: _ => negb (Z.land p 128 =? 0)
           end
      else true
  end.

Definition vch_true : bytes := [1].
Definition vch_false : bytes := [].
Definition of_bool (b : bool) : bytes := if b then vch_true else vch_false.
Definition bnum (b : bool) : Z := if b then 1 else 0.

(* ------------------------------------------------------------------ transaction context *)

Record ctx := { c_locktime : Z; c_sequence : Z; c_version : Z }.

Definition LOCKTIME_THRESHOLD : Z := 500000000.
Definition SEQUENCE_FINAL : Z := 4294967295.
Definition SEQUENCE_LOCKTIME_DISABLE_FLAG : Z := 2147483648.
Definition SEQUENCE_LOCKTIME_TYPE_FLAG : Z := 4194304.
Definition SEQUENCE_LOCKTIME_MASK : Z := 65535.

(* GenericTransactionSignatureChecker::CheckLockTime (BIP65) *)
Definition check_locktime (c : ctx) (n : Z) : bool :=
  let tx := c_locktime c in
  if negb (((tx <? LOCKTIME_THRESHOLD) && (n <? LOCKTIME_THRESHOLD))
           || ((tx >=? LOCKTIME_THRESHOLD) && (n >=? LOCKTIME_THRESHOLD))) then false
  else if n >? tx then false
  else if c_sequence c =? SEQUENCE_FINAL then false
  else true.

(* GenericTransactionSignatureChecker::CheckSequence (BIP112) *)
Definition check_sequence (c : ctx) (n : Z) : bool :=
  let txseq := c_sequence c in
  if c_version c <? 2 then false
  else if negb (Z.land txseq SEQUENCE_LOCKTIME_DISABLE_FLAG =? 0) then false
  else
    let mask := Z.lor SEQUENCE_LOCKTIME_TYPE_FLAG SEQUENCE_LOCKTIME_MASK in
    let a := Z.land txseq mask in
    let b := Z.land n mask in
    if negb (((a <? SEQUENCE_LOCKTIME_TYPE_FLAG) && (b <? SEQUENCE_LOCKTIME_TYPE_FLAG))
             || ((a >=? SEQUENCE_LOCKTIME_TYPE_FLAG) && (b >=? SEQUENCE_LOCKTIME_TYPE_FLAG)))
    then false
    else if b >? a then false
    else true.

(* ------------------------------------------------------------------ one executed op code *)

Definition cstate : Type := (list bytes * list bytes)%type.      (* stack, alt stack *)

Definition operand_max : Z := 4294967295.

Section Exec.
  Variables ripemd160 sha1 sha256 : bytes -> bytes.
  Variable c : ctx.
  Variable excl_witness : bool.

  Definition un_num (f : Z -> Z) (st : cstate) : sres cstate :=
    match fst st with
    | [] => SFail
    | v :: s => match scriptnum 4 v with
                | None => SOOS
                | Some bn => SOk (sn_serialize (f bn) :: s, snd st)
                end
    end.

  (* bn1 = stacktop(-2), bn2 = stacktop(-1) *)
  Definition bin_num (f : Z -> Z -> Z) (st : cstate) : sres cstate :=
    match fst st with
    | v2 :: v1 :: s =>
        match scriptnum 4 v1, scriptnum 4 v2 with
        | Some bn1, Some bn2 => SOk (sn_serialize (f bn1 bn2) :: s, snd st)
        | _, _ => SOOS
        end
    | _ => SFail
    end.

  (* OP_VERIFY applied to the state *)
  Definition verify (st : cstate) : sres cstate :=
    match fst st with
    | [] => SFail
    | v :: s => if cast_to_bool v then SOk (s, snd st) else SFail
    end.

  Definition then_verify (r : sres cstate) : sres cstate :=
    match r with SOk st => verify st | SFail => SFail | SOOS => SOOS end.

  Definition hash_op (h : bytes -> bytes) (st : cstate) : sres cstate :=
    match fst st with [] => SFail | v :: s => SOk (h v :: s, snd st) end.

  (* op codes of the implemented set other than IF / NOTIF / ELSE / ENDIF *)
  Definition exec_op (o : Z) (st : cstate) : sres cstate :=
    let '(s, alt) := st in
    if o =? 0 then SOk ([] :: s, alt)                                   (* OP_0 *)
    else if o =? 79 then SOk (sn_serialize (-1) :: s, alt)              (* OP_1NEGATE *)
    else if (81 <=? o) && (o <=? 96) then SOk (sn_serialize (o - 80) :: s, alt)   (* OP_1..OP_16 *)
    else if (o =? 97) || (o =? 176) || ((179 <=? o) && (o <=? 185)) then SOk st   (* NOPs *)
    else if o =? 105 then verify st                                      (* OP_VERIFY *)
    else if o =? 106 then SFail                                          (* OP_RETURN *)
    else if o =? 107 then                                                (* OP_TOALTSTACK *)
      match s with [] => SFail | v :: r => SOk (r, v :: alt) end
    else if o =? 108 then                                                (* OP_FROMALTSTACK *)
      match alt with [] => SFail | v :: r => SOk (v :: s, r) end
    else if o =? 109 then                                                (* OP_2DROP *)
      match s with _ :: _ :: r => SOk (r, alt) | _ => SFail end
    else if o =? 110 then                                                (* OP_2DUP *)
      match s with x2 :: x1 :: r => SOk (x2 :: x1 :: x2 :: x1 :: r, alt) | _ => SFail end
    else if o =? 111 then                                                (* OP_3DUP *)
      match s with
      | x3 :: x2 :: x1 :: r => SOk (x3 :: x2 :: x1 :: x3 :: x2 :: x1 :: r, alt)
      | _ => SFail end
    else if o =? 112 then                          (* OP_2OVER  (x1 x2 x3 x4 -- x1 x2 x3 x4 x1 x2) *)
      match s with
      | x4 :: x3 :: x2 :: x1 :: r => SOk (x2 :: x1 :: x4 :: x3 :: x2 :: x1 :: r, alt)
      | _ => SFail end
    else if o =? 113 then                          (* OP_2ROT  (x1 x2 x3 x4 x5 x6 -- x3 x4 x5 x6 x1 x2) *)
      match s with
      | x6 :: x5 :: x4 :: x3 :: x2 :: x1 :: r => SOk (x2 :: x1 :: x6 :: x5 :: x4 :: x3 :: r, alt)
      | _ => SFail end
    else if o =? 114 then                          (* OP_2SWAP (x1 x2 x3 x4 -- x3 x4 x1 x2) *)
      match s with
      | x4 :: x3 :: x2 :: x1 :: r => SOk (x2 :: x1 :: x4 :: x3 :: r, alt)
      | _ => SFail end
    else if o =? 115 then                                                (* OP_IFDUP *)
      match s with
      | [] => SFail
      | v :: r => if cast_to_bool v then SOk (v :: v :: r, alt) else SOk (v :: r, alt)
      end
    else if o =? 116 then SOk (sn_serialize (zlen s) :: s, alt)          (* OP_DEPTH *)
    else if o =? 117 then match s with [] => SFail | _ :: r => SOk (r, alt) end      (* OP_DROP *)
    else if o =? 118 then match s with [] => SFail | v :: r => SOk (v :: v :: r, alt) end  (* OP_DUP *)
    else if o =? 119 then                                                (* OP_NIP *)
      match s with x2 :: _ :: r => SOk (x2 :: r, alt) | _ => SFail end
    else if o =? 120 then                                                (* OP_OVER *)
      match s with x2 :: x1 :: r => SOk (x1 :: x2 :: x1 :: r, alt) | _ => SFail end
    else if (o =? 121) || (o =? 122) then                                (* OP_PICK / OP_ROLL *)
      match s with
      | vn :: ((_ :: _) as r) =>
          match scriptnum 4 vn with
          | None => SOOS
          | Some n =>
              if (n <? 0) || (n >=? zlen r) then SFail
              else
                let k := Z.to_nat n in
                let vch := nth k r [] in
                if o =? 122 then SOk (vch :: firstn k r ++ skipn (S k) r, alt)
                else SOk (vch :: r, alt)
          end
      | _ => SFail
      end
    else if o =? 123 then                          (* OP_ROT (x1 x2 x3 -- x2 x3 x1) *)
      match s with x3 :: x2 :: x1 :: r => SOk (x1 :: x3 :: x2 :: r, alt) | _ => SFail end
    else if o =? 124 then                                                (* OP_SWAP *)
      match s with x2 :: x1 :: r => SOk (x1 :: x2 :: r, alt) | _ => SFail end
    else if o =? 125 then                          (* OP_TUCK (x1 x2 -- x2 x1 x2) *)
      match s with x2 :: x1 :: r => SOk (x2 :: x1 :: x2 :: r, alt) | _ => SFail end
    else if o =? 130 then                                                (* OP_SIZE *)
      match s with [] => SFail | v :: r => SOk (sn_serialize (zlen v) :: v :: r, alt) end
    else if o =? 135 then                                                (* OP_EQUAL *)
      match s with x2 :: x1 :: r => SOk (of_bool (beq x1 x2) :: r, alt) | _ => SFail end
    else if o =? 136 then                                                (* OP_EQUALVERIFY *)
      match s with
      | x2 :: x1 :: r => if beq x1 x2 then SOk (r, alt) else SFail
      | _ => SFail end
    else if o =? 139 then un_num (fun bn => bn + 1) st                   (* OP_1ADD *)
    else if o =? 140 then un_num (fun bn => bn - 1) st                   (* OP_1SUB *)
    else if o =? 143 then un_num (fun bn => - bn) st                     (* OP_NEGATE *)
    else if o =? 144 then un_num Z.abs st                                (* OP_ABS *)
    else if o =? 145 then un_num (fun bn => bnum (bn =? 0)) st           (* OP_NOT *)
    else if o =? 146 then un_num (fun bn => bnum (negb (bn =? 0))) st    (* OP_0NOTEQUAL *)
    else if o =? 147 then bin_num (fun bn1 bn2 => bn1 + bn2) st          (* OP_ADD *)
    else if o =? 148 then bin_num (fun bn1 bn2 => bn1 - bn2) st          (* OP_SUB *)
    else if o =? 154 then bin_num (fun bn1 bn2 => bnum (negb (bn1 =? 0) && negb (bn2 =? 0))) st
    else if o =? 155 then bin_num (fun bn1 bn2 => bnum (negb (bn1 =? 0) || negb (bn2 =? 0))) st
    else if o =? 156 then bin_num (fun bn1 bn2 => bnum (bn1 =? bn2)) st  (* OP_NUMEQUAL *)
    else if o =? 157 then then_verify (bin_num (fun bn1 bn2 => bnum (bn1 =? bn2)) st)
    else if o =? 158 then bin_num (fun bn1 bn2 => bnum (negb (bn1 =? bn2))) st
    else if o =? 159 then bin_num (fun bn1 bn2 => bnum (bn1 <? bn2)) st  (* OP_LESSTHAN *)
    else if o =? 160 then bin_num (fun bn1 bn2 => bnum (bn1 >? bn2)) st
    else if o =? 161 then bin_num (fun bn1 bn2 => bnum (bn1 <=? bn2)) st
    else if o =? 162 then bin_num (fun bn1 bn2 => bnum (bn1 >=? bn2)) st
    else if o =? 163 then bin_num (fun bn1 bn2 => if bn1 <? bn2 then bn1 else bn2) st   (* OP_MIN *)
    else if o =? 164 then bin_num (fun bn1 bn2 => if bn1 >? bn2 then bn1 else bn2) st   (* OP_MAX *)
    else if o =? 165 then                          (* OP_WITHIN (x min max -- out) *)
      match s with
      | v3 :: v2 :: v1 :: r =>
          match scriptnum 4 v1, scriptnum 4 v2, scriptnum 4 v3 with
          | Some bn1, Some bn2, Some bn3 =>
              SOk (of_bool ((bn2 <=? bn1) && (bn1 <? bn3)) :: r, alt)
          | _, _, _ => SOOS
          end
      | _ => SFail
      end
    else if o =? 166 then hash_op ripemd160 st
    else if o =? 167 then hash_op sha1 st
    else if o =? 168 then hash_op sha256 st
    else if o =? 169 then hash_op (fun x => ripemd160 (sha256 x)) st     (* OP_HASH160 *)
    else if o =? 170 then hash_op (fun x => sha256 (sha256 x)) st        (* OP_HASH256 *)
    else if o =? 177 then                                                (* OP_CHECKLOCKTIMEVERIFY *)
      match s with
      | [] => SFail
      | v :: _ =>
          match scriptnum 5 v with
          | None => SFail                                    (* script number overflow *)
          | Some n =>
              if n <? 0 then SFail
              else if n >? operand_max then SOOS
              else if check_locktime c n then SOk st else SFail
          end
      end
    else if o =? 178 then                                                (* OP_CHECKSEQUENCEVERIFY *)
      match s with
      | [] => SFail
      | v :: _ =>
          match scriptnum 5 v with
          | None => SFail
          | Some n =>
              if n <? 0 then SFail
              else if n >? operand_max then SOOS
              else if negb (Z.land n SEQUENCE_LOCKTIME_DISABLE_FLAG =? 0) then SOk st
              else if check_sequence c n then SOk st else SFail
          end
      end
    else SOOS.

  (* the op codes [exec_op] handles, plus the four conditional op codes *)
  Definition in_set (o : Z) : bool :=
    (o =? 0) || (o =? 79) || ((81 <=? o) && (o <=? 97)) || (o =? 99) || (o =? 100) || (o =? 103)
    || (o =? 104) || ((105 <=? o) && (o <=? 125)) || (o =? 130) || (o =? 135) || (o =? 136)
    || (o =? 139) || (o =? 140) || ((143 <=? o) && (o <=? 148)) || ((154 <=? o) && (o <=? 170))
    || ((176 <=? o) && (o <=? 185)).

  (* the stack shapes the library treats as witness programs after a data push *)
  Definition witness_shape (s : list bytes) : bool :=
    match s with
    | [x; []] => (length x =? 20)%nat || (length x =? 32)%nat
    | [x; [1]] => (length x =? 32)%nat
    | _ => false
    end.

  (* EvalScript main loop.  [vf] is vfExec (innermost condition first); fExec = all true. *)
  Fixpoint run (cmds : list cmd) (vf : list bool) (st : cstate) : sres (list bool * cstate) :=
    match cmds with
    | [] => SOk (vf, st)
    | cm :: rest =>
        let fexec := forallb (fun b => b) vf in
        match cm with
        | Push b =>
            if 520 <? zlen b then SOOS
            else if fexec then
              let st' := (b :: fst st, snd st) in
              if excl_witness && witness_shape (fst st') then SOOS else run rest vf st'
            else run rest vf st
        | Op o =>
            if negb (in_set o) then SOOS
            else if (o =? 99) || (o =? 100) then                       (* OP_IF / OP_NOTIF *)
              if fexec then
                match fst st with
                | [] => SFail
                | v :: s =>
                    let fvalue := xorb (cast_to_bool v) (o =? 100) in
                    run rest (fvalue :: vf) (s, snd st)
                end
              else run rest (false :: vf) st
            else if o =? 103 then                                      (* OP_ELSE *)
              match vf with
              | [] => SFail
              | b :: vf' => run rest (negb b :: vf') st
              end
            else if o =? 104 then                                      (* OP_ENDIF *)
              match vf with
              | [] => SFail
              | _ :: vf' => run rest vf' st
              end
            else if fexec then
              match exec_op o st with
              | SOk st' => run rest vf st'
              | SFail => SFail
              | SOOS => SOOS
              end
            else run rest vf st
        end
    end.

  (* EvalScript + the final test of VerifyScript on a single script *)
  Definition eval_script (cmds : list cmd) : verdict :=
    match run cmds [] ([], []) with
    | SOOS => OutOfScope
    | SFail => Reject
    | SOk (_ :: _, _) => Reject                      (* unbalanced conditional *)
    | SOk ([], ([], _)) => Reject                    (* empty stack *)
    | SOk ([], (v :: _, _)) => if cast_to_bool v then Accept else Reject
    end.
End Exec.

(* ------------------------------------------------------------------ static exclusions *)

(* OP_HASH160, a 20-byte push and OP_EQUAL occur in this order (not necessarily adjacent) *)
Fixpoint p2sh_stage (stage : nat) (cmds : list cmd) : bool :=
  match cmds with
  | [] => false
  | cm :: rest =>
      match stage, cm with
      | O, Op 169 => p2sh_stage 1 rest
      | 1%nat, Push h => if (length h =? 20)%nat then p2sh_stage 2 rest else p2sh_stage stage rest
      | 2%nat, Op 135 => true
      | _, _ => p2sh_stage stage rest
      end
  end.
Definition mentions_p2sh (cmds : list cmd) : bool := p2sh_stage 0 cmds.

(* serialized size of the script *)
Definition cmd_size (cm : cmd) : Z :=
  match cm with
  | Op _ => 1
  | Push b => let l := zlen b in
              if l <=? 75 then 1 + l else if l <? 256 then 2 + l else if l <? 65536 then 3 + l else 5 + l
  end.
Definition script_size (cmds : list cmd) : Z := fold_right (fun cm acc => cmd_size cm + acc) 0 cmds.

Definition consensus_verdict (ripemd160 sha1 sha256 : bytes -> bytes) (c : ctx)
  (excl_p2sh excl_witness : bool) (cmds : list cmd) : verdict :=
  if excl_p2sh && mentions_p2sh cmds then OutOfScope
  else if 10000 <? script_size cmds then OutOfScope
  else eval_script ripemd160 sha1 sha256 c excl_witness cmds.
