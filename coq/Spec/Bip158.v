(* Spec/Bip158.v — BIP158 "Compact Block Filters for Light Clients", transcribed from the
   pseudo-code of the BIP (hash_to_range, hashed_set_construct, golomb_encode / golomb_decode,
   gcs_compress, construct_gcs, gcs_match) with an explicit STREAMING bit writer and bit reader
   (most significant bit of every byte first, last byte zero padded — the BitStreamWriter /
   BitStreamReader of the reference implementation), the CompactSize count N in front.
   SipHash is the standard of Spec/Siphash.v.  Independent of Model/Gcs.v and Model/CFilter.v:
   no list of bits is ever built, nothing is packed through a big integer, the sort is an
   insertion sort, shifts are divisions. *)
From V Require Import Base.Prelude Base.Ints.
From V Require Spec.Siphash.

Definition P158 : nat := 19.           (* basic filter: P = 19 *)
Definition M158 : Z := 784931.         (* basic filter: M = 784931 *)

(* ---------------- bit stream writer ---------------- *)
(* finished bytes (most recent first), the bits of the unfinished byte (right aligned), their number (< 8) *)
Definition bitw : Type := (bytes * Z * nat)%type.
Definition bw_empty : bitw := ([], 0, 0%nat).

Definition bw_bit (w : bitw) (b : bool) : bitw :=
  let '(done, buf, n) := w in
  let buf' := 2 * buf + (if b then 1 else 0) in
  if Nat.eqb n 7 then (buf' :: done, 0, 0%nat) else (done, buf', S n).

(* the unfinished byte is padded with zero bits *)
Definition bw_flush (w : bitw) : bytes :=
  let '(done, buf, n) := w in
  match n with
  | O => rev done
  | _ => rev (buf * 2 ^ Z.of_nat (8 - n) :: done)
  end.

(* q one-bits, then a zero bit *)
Fixpoint bw_unary (q : nat) (w : bitw) : bitw :=
  match q with
  | O => bw_bit w false
  | S k => bw_unary k (bw_bit w true)
  end.

(* write_bits_big_endian(stream, x, p): the p low bits of x, most significant first *)
Fixpoint bw_bits_be (p : nat) (x : Z) (w : bitw) : bitw :=
  match p with
  | O => w
  | S k => bw_bits_be k x (bw_bit w (Z.odd (x / 2 ^ Z.of_nat k)))
  end.

(* golomb_encode(stream, x, P): q = x >> P in unary, then the P low bits *)
Definition golomb_encode (w : bitw) (x : Z) (p : nat) : bitw :=
  bw_bits_be p x (bw_unary (Z.to_nat (x / 2 ^ Z.of_nat p)) w).

(* gcs_compress(sorted_set, P): deltas between successive values *)
Fixpoint gcs_compress (sorted : list Z) (last : Z) (w : bitw) : bitw :=
  match sorted with
  | [] => w
  | x :: r => gcs_compress r x (golomb_encode w (x - last) P158)
  end.

(* ---------------- set construction ---------------- *)
(* hash_to_range(item, F, k) = (siphash(k, item) * F) >> 64 *)
Definition hash_to_range (k item : bytes) (F : Z) : Z :=
  (Spec.Siphash.siphash24 k item * F) / 18446744073709551616.

(* hashed_set_construct(raw_items, k, M): N counts every item, F = N * M *)
Definition hashed_set (k : bytes) (items : list bytes) : list Z :=
  let F := zlen items * M158 in map (fun it => hash_to_range k it F) items.

Fixpoint insert_asc (x : Z) (l : list Z) : list Z :=
  match l with
  | [] => [x]
  | y :: r => if x <=? y then x :: l else y :: insert_asc x r
  end.
Definition sort_asc (l : list Z) : list Z := fold_right insert_asc [] l.

(* construct_gcs(L, k, P, M) *)
Definition construct_gcs (k : bytes) (items : list bytes) : bytes :=
  bw_flush (gcs_compress (sort_asc (hashed_set k items)) 0 bw_empty).

(* CompactSize *)
Definition compact_size (n : Z) : bytes :=
  if n <? 253 then [n]
  else if n <=? 65535 then 253 :: to_le 2 n
  else if n <=? 4294967295 then 254 :: to_le 4 n
  else 255 :: to_le 8 n.

(* the serialised filter: N as CompactSize, then the compressed set *)
Definition filter_bytes (k : bytes) (items : list bytes) : bytes :=
  compact_size (zlen items) ++ construct_gcs k items.

(* ---------------- bit stream reader ---------------- *)
(* remaining bytes, number of bits already taken from the first of them (< 8) *)
Definition bitr : Type := (bytes * nat)%type.

Definition read_bit (r : bitr) : option (bool * bitr) :=
  let '(s, k) := r in
  match s with
  | [] => None
  | b :: t => Some (Z.odd (b / 2 ^ Z.of_nat (7 - k)), if Nat.eqb k 7 then (t, 0%nat) else (s, S k))
  end.

(* while read_bit(stream) == 1: q++   (fuel: a stream of n bytes holds at most 8n one-bits) *)
Fixpoint read_unary (fuel : nat) (r : bitr) (q : Z) : option (Z * bitr) :=
  match fuel with
  | O => None
  | S f =>
      match read_bit r with
      | None => None
      | Some (true, r') => read_unary f r' (q + 1)
      | Some (false, r') => Some (q, r')
      end
  end.

(* read_bits_big_endian(stream, p) *)
Fixpoint read_bits_be (p : nat) (r : bitr) (acc : Z) : option (Z * bitr) :=
  match p with
  | O => Some (acc, r)
  | S k =>
      match read_bit r with
      | None => None
      | Some (b, r') => read_bits_be k r' (2 * acc + (if b then 1 else 0))
      end
  end.

(* golomb_decode(stream, P): x = (q << P) + r *)
Definition golomb_decode (r : bitr) (p : nat) : option (Z * bitr) :=
  match read_unary (S (8 * length (fst r))) r 0 with
  | None => None
  | Some (q, r1) =>
      match read_bits_be p r1 0 with
      | None => None
      | Some (x, r2) => Some (q * 2 ^ Z.of_nat p + x, r2)
      end
  end.

(* gcs_match(key, compressed_set, target, P, N, M): walk the stream, stop at the first value
   that is not below the target; None = the stream ends inside a value that is needed *)
Fixpoint match_loop (n : nat) (r : bitr) (last target : Z) : option bool :=
  match n with
  | O => Some false
  | S k =>
      match golomb_decode r P158 with
      | None => None
      | Some (delta, r') =>
          let item := last + delta in
          if item =? target then Some true
          else if target <? item then Some false
          else match_loop k r' item target
      end
  end.

Definition gcs_match (key compressed_set target : bytes) (N : Z) : option bool :=
  let F := N * M158 in
  match_loop (Z.to_nat N) (compressed_set, 0%nat) 0 (hash_to_range key target F).

(* decompression of the whole set (the inverse of gcs_compress) *)
Fixpoint decompress_loop (n : nat) (r : bitr) (last : Z) : option (list Z) :=
  match n with
  | O => Some []
  | S k =>
      match golomb_decode r P158 with
      | None => None
      | Some (delta, r') =>
          match decompress_loop k r' (last + delta) with
          | None => None
          | Some l => Some ((last + delta) :: l)
          end
      end
  end.
Definition gcs_decompress (compressed_set : bytes) (N : Z) : option (list Z) :=
  decompress_loop (Z.to_nat N) (compressed_set, 0%nat) 0.
