(* Spec/CoreDescChecksum.v — Bitcoin Core's descriptor checksum, transcribed from
   src/script/descriptor.cpp (PolyMod, DescriptorChecksum) independently of the
   Python code: own literals for the two character sets and the five generator
   constants, C++ integer semantics made explicit (uint64_t arithmetic is taken
   modulo 2^64, `uint8_t c0 = c >> 35` truncates to 8 bits).

     uint64_t PolyMod(uint64_t c, int val) {
         uint8_t c0 = c >> 35;
         c = ((c & 0x7ffffffff) << 5) ^ val;
         if (c0 & 1) c ^= 0xf5dee51989;
         if (c0 & 2) c ^= 0xa9fdca3312;
         if (c0 & 4) c ^= 0x1bab10e32d;
         if (c0 & 8) c ^= 0x3706b1677a;
         if (c0 & 16) c ^= 0x644d626ffd;
         return c;
     }

     std::string DescriptorChecksum(const Span<const char>& span) {
         static std::string INPUT_CHARSET =          // three lines of 32, 32 and 31 characters
             <<0123456789()[],'/*abcdefgh@:$%{}>>
             <<IJKLMNOPQRSTUVWXYZ&+-.;<=>?!^_|~>>
             <<ijklmnopqrstuvwxyzABCDEFGH`#>> double-quote backslash space
         static std::string CHECKSUM_CHARSET = <<qpzry9x8gf2tvdw0s3jn54khce6mua7l>>;
         uint64_t c = 1; int cls = 0; int clscount = 0;
         for (auto ch : span) {
             auto pos = INPUT_CHARSET.find(ch);
             if (pos == std::string::npos) return <<>>;
             c = PolyMod(c, pos & 31);
             cls = cls * 3 + (pos >> 5);
             if (++clscount == 3) { c = PolyMod(c, cls); cls = 0; clscount = 0; }
         }
         if (clscount > 0) c = PolyMod(c, cls);
         for (int j = 0; j < 8; ++j) c = PolyMod(c, 0);
         c ^= 1;
         std::string ret(8, ' ');
         for (int j = 0; j < 8; ++j) ret[j] = CHECKSUM_CHARSET[(c >> (5 * (7 - j))) & 31];
         return ret;
     }

   The empty string is Core's result for a character outside INPUT_CHARSET. *)
From Coq Require Import String.
From V Require Import Base.Prelude Base.Disp.
Open Scope Z_scope.

Definition u64 (x : Z) : Z := x mod 18446744073709551616.
Definition u8 (x : Z) : Z := x mod 256.

Definition core_input_charset : list Z :=
  s2z "0123456789()[],'/*abcdefgh@:$%{}" ++
  s2z "IJKLMNOPQRSTUVWXYZ&+-.;<=>?!^_|~" ++
  s2z "ijklmnopqrstuvwxyzABCDEFGH`#""\ ".

Definition core_checksum_charset : list Z := s2z "qpzry9x8gf2tvdw0s3jn54khce6mua7l".

Definition bit_set (x k : Z) : bool := negb (Z.land x k =? 0).

Definition PolyMod (c val : Z) : Z :=
  let c0 := u8 (Z.shiftr c 35) in
  let c := Z.lxor (u64 (Z.shiftl (Z.land c 34359738367 (* 0x7ffffffff *)) 5)) val in
  let c := if bit_set c0 1 then Z.lxor c 1056006543753 (* 0xf5dee51989 *) else c in
  let c := if bit_set c0 2 then Z.lxor c 730107360018 (* 0xa9fdca3312 *) else c in
  let c := if bit_set c0 4 then Z.lxor c 118834127661 (* 0x1bab10e32d *) else c in
  let c := if bit_set c0 8 then Z.lxor c 236335490938 (* 0x3706b1677a *) else c in
  let c := if bit_set c0 16 then Z.lxor c 430795026429 (* 0x644d626ffd *) else c in
  c.

(* std::string::find(char): index of the first occurrence *)
Fixpoint index_of (i : Z) (l : list Z) (ch : Z) : option Z :=
  match l with
  | [] => None
  | x :: r => if x =? ch then Some i else index_of (i + 1) r ch
  end.

(* the for loop over the span; None = the early return of the empty string *)
Fixpoint core_loop (span : list Z) (c cls clscount : Z) : option (Z * Z * Z) :=
  match span with
  | [] => Some (c, cls, clscount)
  | ch :: rest =>
      match index_of 0 core_input_charset ch with
      | None => None
      | Some pos =>
          let c := PolyMod c (Z.land pos 31) in
          let cls := cls * 3 + Z.shiftr pos 5 in
          let clscount := clscount + 1 in
          if clscount =? 3 then core_loop rest (PolyMod c cls) 0 0
          else core_loop rest c cls clscount
      end
  end.

Definition core_descriptor_checksum (span : list Z) : list Z :=
  match core_loop span 1 0 0 with
  | None => []
  | Some (c, cls, clscount) =>
      let c := if clscount >? 0 then PolyMod c cls else c in
      let c := PolyMod (PolyMod (PolyMod (PolyMod (PolyMod (PolyMod (PolyMod (PolyMod c 0) 0) 0) 0) 0) 0) 0) 0 in
      let c := Z.lxor c 1 in
      map (fun j => nth (Z.to_nat (Z.land (Z.shiftr c (5 * (7 - j))) 31)) core_checksum_charset 32)
          [0; 1; 2; 3; 4; 5; 6; 7]
  end.
