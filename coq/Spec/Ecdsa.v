(* Spec/Ecdsa.v — textbook ECDSA validity (SEC 1 v2 §4.1.4, FIPS 186-4 §6.4), written
   with the abstract group operations [mulT]/[addT] of Proofs/GroupHyp.v and an inverse
   characterised by its defining equation (not by Fermat exponentiation, which is what the
   implementation uses).  Definitions only.

     valid signature (r, s) on the digest z under the public point Q:
       1. r and s are integers in [1, n-1]
       2. w = s^-1 mod n,  u1 = z w mod n,  u2 = r w mod n
       3. R = u1 G + u2 Q;  R is not the point at infinity
       4. x(R) mod n = r                                                              *)
From V Require Import Base.Prelude Base.Ints Model.Pecc Proofs.GroupHyp.

Section Ecdsa.
Variable C : curve.
Let n := cn C.

(* w is THE inverse of s modulo n *)
Definition is_inv (s w : Z) : Prop := 0 <= w < n /\ (s * w) mod n = 1.

Definition ecdsa_point (Q : point) (z r w : Z) : point :=
  addT C (mulT C ((z * w) mod n) (G C)) (mulT C ((r * w) mod n) Q).

Definition ecdsa_ok (Q : point) (z r s : Z) : Prop :=
  1 <= r < n /\ 1 <= s < n /\
  exists w, is_inv s w /\
    match ecdsa_point Q z r w with
    | None => False
    | Some (x, _) => x mod n = r
    end.

(* Executable version used as the judge in the harness: the inverse comes from the
   extended Euclidean algorithm and is CHECKED, so [ecdsa_okb = true -> ecdsa_ok]
   needs no fact about the algorithm (lemma ecdsa_okb_sound in Proofs/EcdsaP.v). *)
Fixpoint egcd (fuel : nat) (a b : Z) (x0 x1 : Z) : Z :=
  (* invariant: a = x0 * s (mod n), b = x1 * s (mod n); returns the coefficient of gcd *)
  match fuel with
  | O => x0
  | S f => if b =? 0 then x0 else egcd f b (a mod b) x1 (x0 - (a / b) * x1)
  end.
Definition euclid_inv (s : Z) : Z := (egcd 600 (s mod n) n 1 0) mod n.

Definition ecdsa_okb (Q : point) (z r s : Z) : bool :=
  (1 <=? r) && (r <? n) && (1 <=? s) && (s <? n) &&
  let w := euclid_inv s in
  ((s * w) mod n =? 1) &&
  match ecdsa_point Q z r w with
  | None => false
  | Some (x, _) => x mod n =? r
  end.

End Ecdsa.
