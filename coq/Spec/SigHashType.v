(* Spec/SigHashType.v — which hash type a signature carries, transcribed from the standards.

   ECDSA signatures in scripts (original rules, BIP143): the signature on the stack is the DER
   encoding followed by ONE byte, the hash type; the digest is computed for that byte.  An empty
   signature is never valid.

   BIP341 ("Taproot key path spending signature validation", the same rule is used by BIP342 for
   OP_CHECKSIG / OP_CHECKSIGVERIFY / OP_CHECKSIGADD in tapscript):
     * If the sig is 64 bytes long, return Verify(q, hash_TapSighash(0x00 || SigMsg(0x00, ..)), sig),
       i.e. the hash type is SIGHASH_DEFAULT (0x00).
     * If the sig is 65 bytes long, return sig[64] != 0x00 and
       Verify(q, hash_TapSighash(0x00 || SigMsg(sig[64], ..)), sig[0:64]).
     * Otherwise, fail.
   (BIP342: an EMPTY signature is not an error, it just counts as "not signed".)
   SigMsg itself is defined only for the hash types 0x00 0x01 0x02 0x03 0x81 0x82 0x83
   (Spec/Bip341.v valid_hash_type).  Definitions only. *)
From V Require Import Base.Prelude Base.Ints.

(* the hash types for which SigMsg is defined, other than SIGHASH_DEFAULT (which has no byte) *)
Definition taproot_explicit_hash_type (ht : Z) : bool :=
  (ht =? 1) || (ht =? 2) || (ht =? 3) || (ht =? 129) || (ht =? 130) || (ht =? 131).

(* None = the signature is invalid whatever the key; Some (sig64, hash_type) otherwise.  The two
   clauses "sig[64] != 0x00" and "SigMsg is defined for hash_type" are merged: a 65-byte signature
   is well-formed iff its last byte is one of 01 02 03 81 82 83 *)
Definition taproot_sig_hash_type (sg : bytes) : option (bytes * Z) :=
  if (length sg =? 64)%nat then Some (sg, 0)
  else if (length sg =? 65)%nat then
    let ht := last sg 0 in
    if taproot_explicit_hash_type ht then Some (removelast sg, ht) else None
  else None.

(* None for the empty signature *)
Definition ecdsa_sig_hash_type (sg : bytes) : option (bytes * Z) :=
  match sg with
  | [] => None
  | _ => Some (removelast sg, last sg 0)
  end.
