(* Spec/TxData.v — the consensus data model used by the three signature-hash specifications
   (Spec/Legacy.v, Spec/Bip143.v, Spec/Bip341.v): CTransaction / CTxIn / COutPoint / CTxOut with
   scripts as raw byte strings, and the wire serialisation of their parts (CompactSize, uint32,
   int64, "script inside a CTxOut").  Written from the Bitcoin protocol documentation and the
   BIP texts, independently of buidl (no Model import).  Definitions only. *)
From V Require Import Base.Prelude Base.Ints.

Record outpoint := { op_hash : bytes;      (* 32 bytes, in the byte order of the wire *)
                     op_n : Z }.           (* uint32 *)
Record ctxin := { ci_prevout : outpoint; ci_script_sig : bytes; ci_sequence : Z (* uint32 *) }.
Record ctxout := { co_value : Z (* int64 *); co_script : bytes }.
Record ctransaction := {
  ct_version : Z;            (* int32 *)
  ct_vin : list ctxin;
  ct_vout : list ctxout;
  ct_locktime : Z }.         (* uint32 *)

(* the output being spent by an input: amount and scriptPubKey *)
Record coin := { cn_value : Z; cn_script : bytes }.

(* CompactSize *)
Definition compact_size (n : Z) : bytes :=
  if n <? 253 then [n]
  else if n <=? 65535 then 253 :: to_le 2 n
  else if n <=? 4294967295 then 254 :: to_le 4 n
  else 255 :: to_le 8 n.

(* fixed-width little-endian integers; to_le reduces modulo 2^(8 len), i.e. two's complement
   for the signed types (the int64 value -1 is ff ff ff ff ff ff ff ff) *)
Definition le32 (n : Z) : bytes := to_le 4 n.
Definition le64 (n : Z) : bytes := to_le 8 n.

(* a script serialised "as inside a CTxOut": CompactSize length, then the bytes *)
Definition ser_script (s : bytes) : bytes := compact_size (zlen s) ++ s.

Definition ser_outpoint (o : outpoint) : bytes := op_hash o ++ le32 (op_n o).
Definition ser_txin (i : ctxin) : bytes :=
  ser_outpoint (ci_prevout i) ++ ser_script (ci_script_sig i) ++ le32 (ci_sequence i).
Definition ser_txout (o : ctxout) : bytes := le64 (co_value o) ++ ser_script (co_script o).

Definition ser_vec {A} (f : A -> bytes) (l : list A) : bytes :=
  compact_size (zlen l) ++ flat_map f l.

(* the transaction without witness data *)
Definition ser_tx (t : ctransaction) : bytes :=
  le32 (ct_version t) ++ ser_vec ser_txin (ct_vin t) ++ ser_vec ser_txout (ct_vout t) ++
  le32 (ct_locktime t).

(* signature-hash type constants *)
Definition SIGHASH_DEFAULT : Z := 0.
Definition SIGHASH_ALL : Z := 1.
Definition SIGHASH_NONE : Z := 2.
Definition SIGHASH_SINGLE : Z := 3.
Definition SIGHASH_ANYONECANPAY : Z := 128.

(* the seven hash types of the property *)
Definition standard_hash_type (ht : Z) : bool :=
  (ht =? 0) || (ht =? 1) || (ht =? 2) || (ht =? 3) || (ht =? 129) || (ht =? 130) || (ht =? 131).

Definition zero_hash : bytes := repeatz 0 32.

(* map with the position of the element *)
Fixpoint mapi_from {A B} (f : nat -> A -> B) (i : nat) (l : list A) : list B :=
  match l with
  | [] => []
  | x :: r => f i x :: mapi_from f (S i) r
  end.
Definition mapi {A B} (f : nat -> A -> B) (l : list A) : list B := mapi_from f 0 l.
