(* Spec/Bip340.v — BIP340 (Schnorr signatures for secp256k1), transcribed from the BIP text:
   "Default Signing", "Verification", lift_x, tagged hashes.  Byte level: public keys,
   messages, auxiliary randomness and signatures are byte strings.  Point arithmetic is
   the abstract group ([mulT]/[addT]/[negT] of Proofs/GroupHyp.v); the protocol logic is
   written independently of Model/Pecc.v.  SHA-256 is a parameter.  Definitions only.

   BIP text, notation:  bytes(x) 32-byte big-endian; bytes(P) = bytes(x(P)); int(x) the
   big-endian integer; hash_tag(x) = SHA256(SHA256(tag) || SHA256(tag) || x);
   lift_x(x): fail if x >= p; c = x^3 + 7 mod p; y = c^((p+1)/4) mod p; fail if
   c <> y^2 mod p; return the point (x, y) if y is even, (x, p - y) otherwise.
   (The curve constant 7 is [cb C]; BIP340's curve has a = 0.) *)
From Coq Require Import String.
From V Require Import Base.Prelude Base.Ints Base.Disp Model.Pecc Proofs.GroupHyp.

Section Bip340.
Variable C : curve.
Variable sha256 : bytes -> bytes.
Let p := cp C.
Let n := cn C.

Definition hash_tag (tag x : bytes) : bytes := sha256 (sha256 tag ++ sha256 tag ++ x).
Definition t_aux : bytes := s2z "BIP0340/aux".
Definition t_nonce : bytes := s2z "BIP0340/nonce".
Definition t_challenge : bytes := s2z "BIP0340/challenge".

Definition int_of (b : bytes) : Z := fold_left (fun acc x => acc * 256 + x) b 0.
Definition bytes32 (x : Z) : bytes := to_be 32 x.
Definition x_of (P : point) : Z := match P with Some (x, _) => x | None => 0 end.
Definition bytesP (P : point) : bytes := bytes32 (x_of P).
Definition is_infinite (P : point) : bool := match P with None => true | Some _ => false end.
Definition has_even_y (P : point) : bool :=
  match P with Some (_, y) => y mod 2 =? 0 | None => false end.
Fixpoint xor (a b : bytes) : bytes :=           (* byte-wise xor of equally long strings *)
  match a, b with
  | x :: a', y :: b' => Z.lxor x y :: xor a' b'
  | _, _ => []
  end.

(* c^((p+1)/4) mod p is Python's/the BIP's modular power; [modpow] is its definition
   (square-and-multiply), shared with the model as the meaning of pow(b, e, m) *)
Definition lift_x (x : Z) : option point :=
  if p <=? x then None
  else
    let c := (x ^ 3 + cb C) mod p in
    let y := modpow c ((p + 1) / 4) p in
    if negb (c =? (y * y) mod p) then None
    else Some (Some (x, if y mod 2 =? 0 then y else p - y)).

(* Verification.  Input: pk (32 bytes), m, sig (64 bytes).  Returns true = success. *)
Definition bip340_verify (pk m sig : bytes) : bool :=
  match lift_x (int_of pk) with                       (* P = lift_x(int(pk)); fail if that fails *)
  | None => false
  | Some P =>
      let r := int_of (firstn 32 sig) in              (* r = int(sig[0:32]); fail if r >= p *)
      let s := int_of (firstn 32 (skipn 32 sig)) in   (* s = int(sig[32:64]); fail if s >= n *)
      if p <=? r then false
      else if n <=? s then false
      else
        let e := int_of (hash_tag t_challenge (bytes32 r ++ bytesP P ++ m)) mod n in
        let R := addT C (mulT C s (G C)) (negT C (mulT C e P)) in   (* R = s*G - e*P *)
        if is_infinite R then false                   (* fail if is_infinite(R) *)
        else if negb (has_even_y R) then false        (* fail if not has_even_y(R) *)
        else x_of R =? r                              (* fail if x(R) <> r *)
  end.

(* Default signing.  Input: secret key d' = int(sk), m (32 bytes), a (32 bytes).
   None = the algorithm fails. *)
Definition bip340_sign (d' : Z) (m a : bytes) : option bytes :=
  if (d' <=? 0) || (n <=? d') then None               (* fail if d' = 0 or d' >= n *)
  else
    let P := mulT C d' (G C) in                       (* P = d'*G *)
    let d := if has_even_y P then d' else n - d' in
    let t := xor (bytes32 d) (hash_tag t_aux a) in    (* t = bytes(d) xor hash_aux(a) *)
    let rand := hash_tag t_nonce (t ++ bytesP P ++ m) in
    let k' := int_of rand mod n in
    if k' =? 0 then None                              (* fail if k' = 0 *)
    else
      let R := mulT C k' (G C) in                     (* R = k'*G *)
      let k := if has_even_y R then k' else n - k' in
      let e := int_of (hash_tag t_challenge (bytesP R ++ bytesP P ++ m)) mod n in
      let sig := bytesP R ++ bytes32 ((k + e * d) mod n) in
      if bip340_verify (bytesP P) m sig then Some sig else None.

(* The nonce k' of Default Signing on its own: the steps of the algorithm up to
   "Let k' = int(rand) mod n" (what PrivateKey.bip340_k returns).  None: d' out of range. *)
Definition bip340_nonce (d' : Z) (m a : bytes) : option Z :=
  if (d' <=? 0) || (n <=? d') then None
  else
    let P := mulT C d' (G C) in
    let d := if has_even_y P then d' else n - d' in
    let t := xor (bytes32 d) (hash_tag t_aux a) in
    Some (int_of (hash_tag t_nonce (t ++ bytesP P ++ m)) mod n).

End Bip340.
