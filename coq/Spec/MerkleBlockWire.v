(* Spec/MerkleBlockWire.v — the "merkleblock" message body as Bitcoin Core serialises it
   (merkleblock.h: CMerkleBlock = CBlockHeader header; CPartialMerkleTree txn;
    CPartialMerkleTree: uint32 nTransactions; std::vector<uint256> vHash;
    std::vector<unsigned char> bytes = BitsToBytes(vBits)), written from the Core sources /
   BIP37, independently of buidl/merkleblock.py (which has a parser but no serialiser).
   Definitions only. *)
From V Require Import Base.Prelude Base.Ints Spec.P2P Spec.Bip37.

(* header80: the 80-byte serialised block header; hashes in internal (wire) byte order *)
Definition merkleblock_bytes (header80 : bytes) (total : Z) (hashes : list bytes) (flags : bytes) : bytes :=
  header80 ++ to_le 4 total ++ cs_bytes (zlen hashes) ++ concat hashes ++ cs_bytes (zlen flags) ++ flags.

(* what a full node answers for a block with transaction ids [txids] (internal order) and
   the filter's match vector: the CPartialMerkleTree constructor, then the layout above *)
Definition merkleblock_of_block (hash256 : bytes -> bytes) (header80 : bytes)
  (txids : list bytes) (vmatch : list bool) : bytes :=
  let '(total, hashes, flags) := bip37_proof hash256 txids vmatch in
  merkleblock_bytes header80 total hashes flags.
