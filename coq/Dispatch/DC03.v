(* Dispatch/DC03.v — entry points of the curve model (Model/Pecc.v, arithmetic and encodings)
   for the correspondence check.  A curve is passed as [p; a; b; n; gx; gy], a point as
   [] (infinity) or [x; y]. *)
From Coq Require Import String.
From V Require Import Base.Prelude Base.Ints Base.Disp Model.Pecc.
Open Scope string_scope.
Open Scope Z_scope.

Definition vpoint (P : point) : val :=
  match P with None => VL [] | Some (x, y) => VL [VI x; VI y] end.

Definition get_curve (v : val) : option curve :=
  match v with
  | VL [VI p; VI a; VI b; VI n; VI gx; VI gy] =>
      Some {| cp := p; ca := a; cb := b; cn := n; cgx := gx; cgy := gy |}
  | _ => None
  end.

(* FieldElement(num, prime) *)
Definition fe_new (C : curve) (a : Z) : result Z := if felem_ok C a then Ok a else Err.

(* Point(FieldElement(x), FieldElement(y), FieldElement(a), FieldElement(b)) from ints *)
Definition get_point (C : curve) (v : val) : option (result point) :=
  match v with
  | VL [] => Some (Ok None)
  | VL [VI x; VI y] => Some (mk_point_int C x y)
  | _ => None
  end.


Definition dispatch (H : oracle) (fn : list Z) (args : list val) : val :=
  match args with
  | cv :: rest =>
    match get_curve cv with
    | None => bad_args
    | Some C =>
      if fn_is "fe_new" fn then
        match rest with [VI a] => vres_i (fe_new C a) | _ => bad_args end
      else if fn_is "fe_add" fn then
        match rest with [VI a; VI b] => vres_i (x <- fe_new C a ;; y <- fe_new C b ;; Ok (fadd C x y)) | _ => bad_args end
      else if fn_is "fe_sub" fn then
        match rest with [VI a; VI b] => vres_i (x <- fe_new C a ;; y <- fe_new C b ;; Ok (fsub C x y)) | _ => bad_args end
      else if fn_is "fe_mul" fn then
        match rest with [VI a; VI b] => vres_i (x <- fe_new C a ;; y <- fe_new C b ;; Ok (fmul C x y)) | _ => bad_args end
      else if fn_is "fe_div" fn then
        match rest with [VI a; VI b] => vres_i (x <- fe_new C a ;; y <- fe_new C b ;; Ok (fdiv C x y)) | _ => bad_args end
      else if fn_is "fe_pow" fn then
        match rest with [VI a; VI e] => vres_i (x <- fe_new C a ;; Ok (fpow C x e)) | _ => bad_args end
      else if fn_is "fe_rmul" fn then
        (* coefficient * FieldElement: (num * coefficient) % prime *)
        match rest with [VI k; VI a] => vres_i (x <- fe_new C a ;; Ok (fmul C x k)) | _ => bad_args end
      else if fn_is "pt_new" fn then
        match rest with [VI x; VI y] => vres vpoint (mk_point_int C x y) | _ => bad_args end
      else if fn_is "pt_add" fn then
        match rest with
        | [vp; vq] =>
            match get_point C vp, get_point C vq with
            | Some rp, Some rq => vres vpoint (P <- rp ;; Q <- rq ;; padd C P Q)
            | _, _ => bad_args
            end
        | _ => bad_args end
      else if fn_is "pt_rmul" fn then
        (* generic Point.__rmul__, coefficient >= 0 only *)
        match rest with
        | [VI k; vp] =>
            match get_point C vp with
            | Some rp => vres vpoint (P <- rp ;; rmul_raw C k P)
            | None => bad_args
            end
        | _ => bad_args end
      else if fn_is "s_rmul" fn then
        match rest with
        | [VI k; vp] =>
            match get_point C vp with
            | Some rp => vres vpoint (P <- rp ;; rmul C k P)
            | None => bad_args
            end
        | _ => bad_args end
      else if fn_is "s_add_int" fn then
        match rest with
        | [vp; VI t] =>
            match get_point C vp with
            | Some rp => vres vpoint (P <- rp ;; padd_int C P t)
            | None => bad_args
            end
        | _ => bad_args end
      else if fn_is "s_even_point" fn then
        match rest with
        | [vp] =>
            match get_point C vp with
            | Some rp => vres vpoint (P <- rp ;; even_point C P)
            | None => bad_args
            end
        | _ => bad_args end
      else if fn_is "s_parity" fn then
        match rest with
        | [vp] =>
            match get_point C vp with
            | Some rp => vres_i (P <- rp ;; parity P)
            | None => bad_args
            end
        | _ => bad_args end
      else if fn_is "s_sqrt" fn then
        match rest with [VI a] => vres_i (x <- fe_new C a ;; fsqrt C x) | _ => bad_args end
      else if fn_is "s_sec" fn then
        match rest with
        | [vp; VI c] =>
            match get_point C vp with
            | Some rp => vres_b (P <- rp ;; sec P (negb (c =? 0)))
            | None => bad_args
            end
        | _ => bad_args end
      else if fn_is "s_xonly" fn then
        match rest with
        | [vp] =>
            match get_point C vp with
            | Some rp => vres_b (P <- rp ;; Ok (xonly P))
            | None => bad_args
            end
        | _ => bad_args end
      else if fn_is "s_parse_sec" fn then
        match rest with [VB b] => vres vpoint (parse_sec C b) | _ => bad_args end
      else if fn_is "s_parse_xonly" fn then
        match rest with [VB b] => vres vpoint (parse_xonly C b) | _ => bad_args end
      else if fn_is "s_parse" fn then
        match rest with [VB b] => vres vpoint (parse_point C b) | _ => bad_args end
      else bad_args
    end
  | _ => bad_args
  end.
