(* Dispatch/DC03.v — entry points of the curve model (Model/Pecc.v, arithmetic and encodings)
   for the correspondence check.  A curve is passed as [p; a; b; n; gx; gy], a point as
   [] (infinity) or [x; y]. *)
From Coq Require Import String.
From V Require Import Base.Prelude Base.Ints Base.Disp Model.Pecc Model.PeccObj.
Open Scope string_scope.
Open Scope Z_scope.

Definition vpoint (P : point) : val :=
  match P with None => VL [] | Some (x, y) => VL [VI x; VI y] end.

Definition get_curve (v : val) : option curve :=
  match v with
  | VL [VI p; VI a; VI b; VI n; VI gx; VI gy] =>
      Some {| cp := p; ca := a; cb := b; cn := n; cgx := gx; cgy := gy |}
  | _ => None
  end.

(* FieldElement(num, prime) *)
Definition fe_new (C : curve) (a : Z) : result Z := if felem_ok C a then Ok a else Err.

(* Point(FieldElement(x), FieldElement(y), FieldElement(a), FieldElement(b)) from ints *)
Definition get_point (C : curve) (v : val) : option (result point) :=
  match v with
  | VL [] => Some (Ok None)
  | VL [VI x; VI y] => Some (mk_point_int C x y)
  | _ => None
  end.


(* ---- object layer (Model/PeccObj.v): a FieldElement is [num; prime], None is [];
        a generic Point is [x; y; a; b] built through the constructors ---- *)
Definition vfe (a : fe) : val := VL [VI (fst a); VI (snd a)].
Definition vofe (a : option fe) : val := match a with Some a => vfe a | None => VL [] end.
Definition vgp (P : gpoint) : val := VL [vofe (gx P); vofe (gy P); vfe (ga P); vfe (gb P)].

Definition get_fe (v : val) : option (result fe) :=
  match v with
  | VL [VI a; VI p] => Some (fe_mk a p)
  | _ => None
  end.
Definition get_ofe (v : val) : option (result (option fe)) :=
  match v with
  | VL [] => Some (Ok None)
  | VL [VI a; VI p] => Some (x <- fe_mk a p ;; Ok (Some x))
  | _ => None
  end.
Definition get_gp (v : val) : option (result gpoint) :=
  match v with
  | VL [vx; vy; va; vb] =>
      match get_ofe vx, get_ofe vy, get_fe va, get_fe vb with
      | Some rx, Some ry, Some ra, Some rb =>
          (* Python evaluates the four FieldElement constructors first, then Point(...) *)
          Some (x <- rx ;; y <- ry ;; a <- ra ;; b <- rb ;; gp_mk x y a b)
      | _, _, _, _ => None
      end
  | _ => None
  end.
Fixpoint get_points (C : curve) (l : list val) : option (result (list point)) :=
  match l with
  | [] => Some (Ok [])
  | v :: r =>
      match get_point C v, get_points C r with
      | Some rp, Some rr => Some (P <- rp ;; R <- rr ;; Ok (P :: R))
      | _, _ => None
      end
  end.

Definition dispatch (H : oracle) (fn : list Z) (args : list val) : val :=
  match args with
  | cv :: rest =>
    match get_curve cv with
    | None => bad_args
    | Some C =>
      if fn_is "fe_new" fn then
        match rest with [VI a] => vres_i (fe_new C a) | _ => bad_args end
      else if fn_is "fe_add" fn then
        match rest with [VI a; VI b] => vres_i (x <- fe_new C a ;; y <- fe_new C b ;; Ok (fadd C x y)) | _ => bad_args end
      else if fn_is "fe_sub" fn then
        match rest with [VI a; VI b] => vres_i (x <- fe_new C a ;; y <- fe_new C b ;; Ok (fsub C x y)) | _ => bad_args end
      else if fn_is "fe_mul" fn then
        match rest with [VI a; VI b] => vres_i (x <- fe_new C a ;; y <- fe_new C b ;; Ok (fmul C x y)) | _ => bad_args end
      else if fn_is "fe_div" fn then
        match rest with [VI a; VI b] => vres_i (x <- fe_new C a ;; y <- fe_new C b ;; Ok (fdiv C x y)) | _ => bad_args end
      else if fn_is "fe_pow" fn then
        match rest with [VI a; VI e] => vres_i (x <- fe_new C a ;; Ok (fpow C x e)) | _ => bad_args end
      else if fn_is "fe_rmul" fn then
        (* coefficient * FieldElement: (num * coefficient) % prime *)
        match rest with [VI k; VI a] => vres_i (x <- fe_new C a ;; Ok (fmul C x k)) | _ => bad_args end
      else if fn_is "pt_new" fn then
        match rest with [VI x; VI y] => vres vpoint (mk_point_int C x y) | _ => bad_args end
      else if fn_is "pt_add" fn then
        match rest with
        | [vp; vq] =>
            match get_point C vp, get_point C vq with
            | Some rp, Some rq => vres vpoint (P <- rp ;; Q <- rq ;; padd C P Q)
            | _, _ => bad_args
            end
        | _ => bad_args end
      else if fn_is "pt_rmul" fn then
        (* generic Point.__rmul__, coefficient >= 0 only *)
        match rest with
        | [VI k; vp] =>
            match get_point C vp with
            | Some rp => vres vpoint (P <- rp ;; rmul_raw C k P)
            | None => bad_args
            end
        | _ => bad_args end
      else if fn_is "s_rmul" fn then
        match rest with
        | [VI k; vp] =>
            match get_point C vp with
            | Some rp => vres vpoint (P <- rp ;; rmul C k P)
            | None => bad_args
            end
        | _ => bad_args end
      else if fn_is "s_add_int" fn then
        match rest with
        | [vp; VI t] =>
            match get_point C vp with
            | Some rp => vres vpoint (P <- rp ;; padd_int C P t)
            | None => bad_args
            end
        | _ => bad_args end
      else if fn_is "s_even_point" fn then
        match rest with
        | [vp] =>
            match get_point C vp with
            | Some rp => vres vpoint (P <- rp ;; even_point C P)
            | None => bad_args
            end
        | _ => bad_args end
      else if fn_is "s_parity" fn then
        match rest with
        | [vp] =>
            match get_point C vp with
            | Some rp => vres_i (P <- rp ;; parity P)
            | None => bad_args
            end
        | _ => bad_args end
      else if fn_is "s_sqrt" fn then
        match rest with [VI a] => vres_i (x <- fe_new C a ;; fsqrt C x) | _ => bad_args end
      else if fn_is "s_sec" fn then
        match rest with
        | [vp; VI c] =>
            match get_point C vp with
            | Some rp => vres_b (P <- rp ;; sec P (negb (c =? 0)))
            | None => bad_args
            end
        | _ => bad_args end
      else if fn_is "s_xonly" fn then
        match rest with
        | [vp] =>
            match get_point C vp with
            | Some rp => vres_b (P <- rp ;; Ok (xonly P))
            | None => bad_args
            end
        | _ => bad_args end
      else if fn_is "s_parse_sec" fn then
        match rest with [VB b] => vres vpoint (parse_sec C b) | _ => bad_args end
      else if fn_is "s_parse_xonly" fn then
        match rest with [VB b] => vres vpoint (parse_xonly C b) | _ => bad_args end
      else if fn_is "s_parse" fn then
        match rest with [VB b] => vres vpoint (parse_point C b) | _ => bad_args end
      else if fn_is "o_fe_eq" fn then
        match rest with
        | [va; vb] =>
            match get_ofe va, get_ofe vb with
            | Some ra, Some rb => vres_bool (a <- ra ;; b <- rb ;; Ok (ofe_eqb a b))
            | _, _ => bad_args
            end
        | _ => bad_args end
      else if fn_is "o_fe_ne" fn then
        match rest with
        | [va; vb] =>
            match get_ofe va, get_ofe vb with
            | Some ra, Some rb => vres_bool (a <- ra ;; b <- rb ;; Ok (ofe_neb a b))
            | _, _ => bad_args
            end
        | _ => bad_args end
      else if fn_is "o_fe_op" fn then
        (* op: 0 +, 1 -, 2 *, 3 / *)
        match rest with
        | [VI op; va; vb] =>
            match get_fe va, get_fe vb with
            | Some ra, Some rb =>
                vres vfe (a <- ra ;; b <- rb ;;
                          if op =? 0 then fe_add a b else if op =? 1 then fe_sub a b
                          else if op =? 2 then fe_mul a b else fe_div a b)
            | _, _ => bad_args
            end
        | _ => bad_args end
      else if fn_is "o_fe_pow" fn then
        match rest with
        | [va; VI e] =>
            match get_fe va with Some ra => vres vfe (a <- ra ;; fe_pow a e) | None => bad_args end
        | _ => bad_args end
      else if fn_is "o_fe_rmul" fn then
        match rest with
        | [VI k; va] =>
            match get_fe va with Some ra => vres vfe (a <- ra ;; fe_rmul k a) | None => bad_args end
        | _ => bad_args end
      else if fn_is "o_pt_new" fn then
        match rest with
        | [vp] => match get_gp vp with Some rp => vres vgp rp | None => bad_args end
        | _ => bad_args end
      else if fn_is "o_pt_eq" fn then
        match rest with
        | [vp; vq] =>
            match get_gp vp, get_gp vq with
            | Some rp, Some rq => vres_bool (P <- rp ;; Q <- rq ;; Ok (gp_eqb P Q))
            | _, _ => bad_args
            end
        | _ => bad_args end
      else if fn_is "o_pt_ne" fn then
        match rest with
        | [vp; vq] =>
            match get_gp vp, get_gp vq with
            | Some rp, Some rq => vres_bool (P <- rp ;; Q <- rq ;; Ok (gp_neb P Q))
            | _, _ => bad_args
            end
        | _ => bad_args end
      else if fn_is "o_pt_add" fn then
        match rest with
        | [vp; vq] =>
            match get_gp vp, get_gp vq with
            | Some rp, Some rq => vres vgp (P <- rp ;; Q <- rq ;; gp_add P Q)
            | _, _ => bad_args
            end
        | _ => bad_args end
      else if fn_is "o_pt_rmul" fn then
        match rest with
        | [VI k; vp] =>
            match get_gp vp with
            | Some rp => vres vgp (P <- rp ;; gp_rmul k P)
            | None => bad_args
            end
        | _ => bad_args end
      else if fn_is "s_eq" fn then
        match rest with
        | [vp; vq] =>
            match get_point C vp, get_point C vq with
            | Some rp, Some rq => vres_bool (P <- rp ;; Q <- rq ;; Ok (s_eqb P Q))
            | _, _ => bad_args
            end
        | _ => bad_args end
      else if fn_is "s_ne" fn then
        match rest with
        | [vp; vq] =>
            match get_point C vp, get_point C vq with
            | Some rp, Some rq => vres_bool (P <- rp ;; Q <- rq ;; Ok (s_neb P Q))
            | _, _ => bad_args
            end
        | _ => bad_args end
      else if fn_is "s_combine" fn then
        match rest with
        | [VL vs] =>
            match get_points C vs with
            | Some rl => vres vpoint (l <- rl ;; combine C l)
            | None => bad_args
            end
        | _ => bad_args end
      else bad_args
    end
  | _ => bad_args
  end.
