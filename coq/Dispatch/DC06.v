(* Dispatch/DC06.v — entry points of the C06 model (input verification).
   The signature checks are the MODEL's own ECDSA / BIP340 verification (Model/Pecc.v on
   secp256k1, DER parser, x-only lift); the digests tx.sig_hash(i, hash_type) are supplied by
   the harness as a table (their correctness is property C05). *)
From Coq Require Import String.
From V Require Import Base.Prelude Base.Ints Base.Disp Model.Helper Model.Script Model.Op
  Model.Interp Model.Pecc Model.Taproot Model.Verify.
Open Scope string_scope.
Open Scope Z_scope.

Definition S := secp256k1.

(* sighash table entries: VL [VI hash_type; VI z] (legacy/BIP143 integer) or
   VL [VI hash_type; VB msg] (BIP341 message); missing = sig_hash raised *)
Fixpoint lookup_z (tbl : list val) (ht : Z) : result Z :=
  match tbl with
  | VL [VI h; VI z] :: r => if h =? ht then Ok z else lookup_z r ht
  | _ :: r => lookup_z r ht
  | [] => Err
  end.
Fixpoint lookup_msg (tbl : list val) (ht : Z) : result bytes :=
  match tbl with
  | VL [VI h; VB m] :: r => if h =? ht then Ok m else lookup_msg r ht
  | _ :: r => lookup_msg r ht
  | [] => Err
  end.

Section Sig.
Variable H : oracle.
Variable tbl : list val.

(* op_checksig: S256Point.parse(sec), Signature.parse(der), sig_hash, point.verify *)
Definition checksig (sec sg : bytes) : result bool :=
  P <- parse_point S sec ;;
  '(r, s) <- der_parse (removelast sg) ;;
  z <- lookup_z tbl (last sg 0) ;;
  ecdsa_verify S P z r s.
Definition ver (sec sg : bytes) : bool :=
  match checksig sec sg with Ok true => true | _ => false end.
Definition sec_ok (sec : bytes) : bool :=
  match parse_point S sec with Ok _ => true | Err => false end.
Definition multisig (secs sigs : list bytes) : result bool := so_multisig_loop sec_ok ver secs sigs.
Definition xonly_ok (pk : bytes) : bool :=
  match parse_xonly S pk with Ok _ => true | Err => false end.
Definition schnorr (pk sg : bytes) (ht : Z) : result bool :=
  P <- parse_xonly S pk ;;
  '(r, s) <- schnorr_parse S sg ;;
  m <- lookup_msg tbl ht ;;
  schnorr_verify S (o_sha256 H) P m r s.

Definition the_sigops : sigops :=
  {| so_checksig := checksig; so_multisig := multisig; so_xonly_ok := xonly_ok;
     so_schnorr := schnorr |}.
End Sig.

Fixpoint vals_cmds (l : list val) : option (list cmd) :=
  match l with
  | [] => Some []
  | VI o :: r => match vals_cmds r with Some t => Some (Op o :: t) | None => None end
  | VB b :: r => match vals_cmds r with Some t => Some (Push b :: t) | None => None end
  | _ => None
  end.

Definition vout (o : outcome) : val :=
  match o with OTrue => VI 1 | OFalse => VI 0 | OSpecial => VI 2 end.

Definition dispatch (H : oracle) (fn : list Z) (args : list val) : val :=
  if fn_is "verify_input" fn then
    (* script_sig cmds, script_pubkey cmds, witness items, [locktime; sequence; version], sighash table *)
    match args with
    | [VL ss; VL pk; VL wit; VL [VI lt; VI sq; VI ver_]; VL tbl; _] =>
        match vals_cmds ss, vals_cmds pk, vals_bytes wit with
        | Some ss', Some pk', Some wit' =>
            vout (verify_input S (o_ripemd160 H) (o_sha1 H) (o_sha256 H) (o_hash160 H) (o_hash256 H)
                    (the_sigops H tbl)
                    {| t_locktime := lt; t_sequence := sq; t_version := ver_ |} wit' ss' pk')
        | _, _, _ => bad_args
        end
    | _ => bad_args
    end
  else if fn_is "match_sigs" fn then
    (* abstract matching: ver given as a 0/1 matrix rows = keys, cols = sigs (indices as 1-byte strings) *)
    match args with
    | [VL keys; VL sigs; VL rows] =>
        match vals_bytes keys, vals_bytes sigs with
        | Some ks, Some sg =>
            let verf (k s : bytes) : bool :=
              match nth_error rows (Z.to_nat (hd 0 k)) with
              | Some (VL row) => match nth_error row (Z.to_nat (hd 0 s)) with
                                 | Some (VI 1) => true | _ => false end
              | _ => false
              end in
            vbool (match_sigs verf sg ks)
        | _, _ => bad_args
        end
    | _ => bad_args
    end
  else bad_args.
