(* Dispatch/DC16.v — entry points of the C16 model (descriptor.py) for the
   correspondence check.  The functions of other library modules the descriptor
   code calls (is_valid_bip32_path, HDPublicKey.parse / child / sec) are passed in
   as finite tables computed by the implementation's own code, so that exactly the
   descriptor logic is compared. *)
From Coq Require Import String.
From V Require Import Base.Prelude Base.Disp Model.Descriptor Model.DescriptorText
  Spec.CoreDescChecksum.
Open Scope string_scope.
Open Scope Z_scope.

(* tables *)
Fixpoint tbl_flag (t : list val) (k : list Z) : bool :=
  match t with
  | VL [VB k'; VI f] :: r => if beq k k' then negb (f =? 0) else tbl_flag r k
  | _ :: r => tbl_flag r k
  | [] => false
  end.

Fixpoint tbl_hdparse (t : list val) (k : list Z) : result (list Z * Z) :=
  match t with
  | VL [VB k'; VL [VB xp; VI net]] :: r => if beq k k' then Ok (xp, net) else tbl_hdparse r k
  | VL [VB k'; VL []] :: r => if beq k k' then Err else tbl_hdparse r k
  | _ :: r => tbl_hdparse r k
  | [] => Err
  end.

Fixpoint tbl_child (t : list val) (k : list Z) (i : Z) : bool :=
  match t with
  | VL [VB k'; VI i'; VI f] :: r => if beq k k' && (i =? i') then negb (f =? 0) else tbl_child r k i
  | _ :: r => tbl_child r k i
  | [] => false
  end.

Fixpoint tbl_derive (t : list val) (k : list Z) (a o : Z) : result bytes :=
  match t with
  | VL [VB k'; VI a'; VI o'; VL [VB sec]] :: r =>
      if beq k k' && (a =? a') && (o =? o') then Ok sec else tbl_derive r k a o
  | VL [VB k'; VI a'; VI o'; VL []] :: r =>
      if beq k k' && (a =? a') && (o =? o') then Err else tbl_derive r k a o
  | _ :: r => tbl_derive r k a o
  | [] => Err
  end.

Fixpoint recs_of (l : list val) : option (list keyrec) :=
  match l with
  | [] => Some []
  | VL [VB xfp; VB path; VB xpub; VI idx] :: r =>
      match recs_of r with
      | Some t => Some ({| kr_xfp := xfp; kr_path := path; kr_xpub := xpub; kr_idx := idx |} :: t)
      | None => None
      end
  | _ => None
  end.

Definition vrec (kr : keyrec) : val := VL [VB (kr_xfp kr); VB (kr_path kr); VB (kr_xpub kr); VI (kr_idx kr)].
Definition vdesc (d : desc) : val :=
  VL [VI (d_m d); VL (map vrec (d_recs d)); VB (d_text d); VB (d_checksum d); VI (d_net d); VB (desc_repr d)].

Definition dispatch (H : oracle) (fn : list Z) (args : list val) : val :=
  if fn_is "poly_mod" fn then
    match args with [VI c; VI v] => VI (poly_mod c v) | _ => bad_args end
  else if fn_is "checksum" fn then
    match args with [VB t] => vres_b (desc_checksum t) | _ => bad_args end
  else if fn_is "core_checksum" fn then
    match args with [VB t] => VB (core_descriptor_checksum t) | _ => bad_args end
  else if fn_is "core_polymod" fn then
    match args with [VI c; VI v] => VI (PolyMod c v) | _ => bad_args end
  else if fn_is "xfp_ok" fn then
    match args with [VB t] => vbool (xfp_ok t) | _ => bad_args end
  else if fn_is "render" fn then
    match args with
    | [VI m; VL recs] =>
        match recs_of recs with Some rs => VB (render_text m rs) | None => bad_args end
    | _ => bad_args end
  else if fn_is "construct" fn then
    match args with
    | [VI m; VL recs; VB cs; VI srt; VL paths; VL xpubs] =>
        match recs_of recs with
        | Some rs => vres vdesc (construct (tbl_flag paths) (tbl_hdparse xpubs) m rs cs (negb (srt =? 0)))
        | None => bad_args
        end
    | _ => bad_args end
  else if fn_is "parse_struct" fn then
    match args with
    | [VI m; VL fields; VB cs; VL paths; VL xpubs; VL children] =>
        match recs_of fields with
        | Some fs => vres vdesc (parse_struct (tbl_flag paths) (tbl_hdparse xpubs) (tbl_child children) m fs cs)
        | None => bad_args
        end
    | _ => bad_args end
  else if fn_is "get_address" fn then
    match args with
    | [VI m; VI net; VL recs; VI offset; VI chg; VI srt; VL derivs] =>
        match recs_of recs with
        | Some rs =>
            let d := {| d_m := m; d_recs := rs; d_text := []; d_checksum := []; d_net := net |} in
            vres (fun ws => VL [VB ws; VB (o_sha256 H ws); VI net])
                 (witness_script (tbl_derive derivs) d offset (negb (chg =? 0)) (negb (srt =? 0)))
        | None => bad_args
        end
    | _ => bad_args end
  else if fn_is "sort_keys" fn then
    match args with
    | [VL ks] => match vals_bytes ks with Some l => vbl (sort_by (fun k => k) l) | None => bad_args end
    | _ => bad_args end
  else if fn_is "dec" fn then
    match args with [VI z] => VB (dec z) | _ => bad_args end
  (* ---- text layer (Model/DescriptorText.v) ---- *)
  else if fn_is "py_int" fn then
    match args with [VB t] => vres_i (py_int t) | _ => bad_args end
  else if fn_is "split_on" fn then
    match args with [VI sep; VB t] => vbl (split_on sep t) | _ => bad_args end
  else if fn_is "join_on" fn then
    match args with
    | [VI sep; VL l] => match vals_bytes l with Some ls => VB (join_on sep ls) | None => bad_args end
    | _ => bad_args end
  else if fn_is "re_key_record" fn then
    match args with
    | [VB t] => vopt (fun g => match g with (xfp, p, x) => VL [VB xfp; VB p; VB x] end) (re_key_record t)
    | _ => bad_args end
  else if fn_is "parse_partial" fn then
    match args with
    | [VB t; VL paths; VL xpubs] =>
        vres (fun g => match g with (xfp, p, x, net) => VL [VB xfp; VB p; VB x; VI net] end)
             (parse_partial_text (tbl_flag paths) (tbl_hdparse xpubs) t)
    | _ => bad_args end
  else if fn_is "parse_full" fn then
    match args with
    | [VB t; VL paths; VL xpubs; VL children] =>
        vres (fun g => VL [vrec (fst g); VI (snd g)])
             (parse_full_text (tbl_flag paths) (tbl_hdparse xpubs) (tbl_child children) t)
    | _ => bad_args end
  else if fn_is "parse_any" fn then
    match args with
    | [VB t; VL paths; VL xpubs; VL children] =>
        vres (fun g => match g with (xfp, p, x, net, oi) => VL [VB xfp; VB p; VB x; VI net; vopt VI oi] end)
             (parse_any_text (tbl_flag paths) (tbl_hdparse xpubs) (tbl_child children) t)
    | _ => bad_args end
  else if fn_is "parse_text" fn then
    match args with
    | [VB t; VL js; VL paths; VL xpubs; VL children] =>
        let json := fun _ : list Z => match js with [VB j] => Ok j | _ => Err end in
        vres vdesc (parse_text (tbl_flag paths) (tbl_hdparse xpubs) (tbl_child children) json t)
    | _ => bad_args end
  else if fn_is "outer_groups" fn then
    match args with
    | [VB t] => vopt (fun g => match g with (ds, krs, cs) => VL [VB ds; VB krs; VB cs] end) (outer_groups t)
    | _ => bad_args end
  else if fn_is "unescape" fn then
    match args with [VB t] => VB (unescape t) | _ => bad_args end
  else if fn_is "strip" fn then
    match args with [VB t] => VB (strip t) | _ => bad_args end
  else if fn_is "path_valid" fn then
    match args with [VB t] => vbool (is_valid_path t) | _ => bad_args end
  else if fn_is "m_of_n" fn then
    match args with
    | [VI m; VL recs] =>
        match recs_of recs with
        | Some rs => let d := {| d_m := m; d_recs := rs; d_text := []; d_checksum := []; d_net := 0 |} in
                     VL [VI (quorum_n d); VB (m_of_n d)]
        | None => bad_args
        end
    | _ => bad_args end
  else bad_args.
