(* Dispatch/DC07.v — entry points of the C07 model (Model/Op.v, Model/Interp.v) and of the
   consensus spec (Spec/Consensus.v) for the correspondence check.
   Wire format: a command list is a list of ints (op codes) and byte strings (pushes); stacks are
   lists of byte strings in PYTHON order (top last) — reversed here, the Coq side is top first. *)
From Coq Require Import String.
From V Require Import Base.Prelude Base.Ints Base.Disp Model.Script Model.Op Model.Interp
  Model.OpMode Model.Timelock Model.OpNum Spec.Consensus Spec.ConsensusLimits Spec.Timelocks.
Open Scope string_scope.
Open Scope Z_scope.

Fixpoint vals_cmds (l : list val) : option (list cmd) :=
  match l with
  | [] => Some []
  | VI o :: r => match vals_cmds r with Some t => Some (Op o :: t) | None => None end
  | VB b :: r => match vals_cmds r with Some t => Some (Push b :: t) | None => None end
  | _ => None
  end.
Definition vcmd (cm : cmd) : val := match cm with Op o => VI o | Push b => VB b end.
Definition vstack (s : list bytes) : val := vbl (rev s).

Definition table (H : oracle) : Z -> option opfn :=
  op_code_functions (o_ripemd160 H) (o_sha1 H) (o_sha256 H) (o_hash160 H) (o_hash256 H) no_sigops.

Definition voutcome (o : outcome) : val :=
  match o with OTrue => VI 1 | OFalse => VI 0 | OSpecial => VI 2 end.
Definition vverdict (v : verdict) : val :=
  match v with Accept => VI 1 | Reject => VI 0 | OutOfScope => VI 2 end.

(* ---- failure-mode model (Model/OpMode.v): 0 = returns False, 11 KeyError, 12 IndexError, 13 ValueError,
   14 = signature op code (not modelled) *)
Definition mtable (H : oracle) : Z -> option mopfn :=
  m_functions (o_ripemd160 H) (o_sha1 H) (o_sha256 H) (o_hash160 H) (o_hash256 H).
Definition vexn (e : exn) : val :=
  match e with EKey => VI 11 | EIndex => VI 12 | EValue => VI 13 | ESigOp => VI 14 end.
Definition vxoutcome (x : xoutcome) : val :=
  match x with XTrue => VI 1 | XFalse => VI 0 | XSpecial => VI 2 | XRaise e => vexn e end.
Definition vopt (o : option Z) : val := match o with Some z => VI z | None => VL [] end.
Definition vmeaning (m : seq_meaning) : val :=
  match m with NoRelativeLock => VL [VI 0] | Blocks k => VL [VI 1; VI k] | Seconds k => VL [VI 2; VI k] end.
Definition u32 (n : Z) : bool := (0 <=? n) && (n <=? 4294967295).

Definition dispatch (H : oracle) (fn : list Z) (args : list val) : val :=
  if fn_is "encode_num" fn then
    match args with [VI n] => VB (encode_num n) | _ => bad_args end
  else if fn_is "decode_num" fn then
    match args with [VB e] => VI (decode_num e) | _ => bad_args end
  else if fn_is "op" fn then
    (* one op code other than IF/NOTIF, called the way Script.evaluate calls it *)
    match args with
    | [VI o; VL st; VL alt; VI lt; VI sq; VI ver] =>
        match vals_bytes st, vals_bytes alt with
        | Some s, Some a =>
            let c := {| t_locktime := lt; t_sequence := sq; t_version := ver |} in
            match Interp.exec_op (table H) c o [] (rev s) (rev a) with
            | Ok (_, s', a') => VL [vstack s'; vstack a']
            | Err => VErr
            end
        | _, _ => bad_args
        end
    | _ => bad_args end
  else if fn_is "op_if" fn then
    match args with
    | [VI neg; VL st; VL items] =>
        match vals_bytes st, vals_cmds items with
        | Some s, Some its =>
            match op_if_gen (negb (neg =? 0)) (rev s) its with
            | Ok (s', its') => VL [vstack s'; VL (map vcmd its')]
            | Err => VErr
            end
        | _, _ => bad_args
        end
    | _ => bad_args end
  else if fn_is "evaluate" fn then
    match args with
    | [VL cmds; VI lt; VI sq; VI ver; VI ap; VI aw] =>
        match vals_cmds cmds with
        | Some cs =>
            voutcome (evaluate (table H) {| t_locktime := lt; t_sequence := sq; t_version := ver |}
                        (negb (ap =? 0)) (negb (aw =? 0)) cs)
        | None => bad_args
        end
    | _ => bad_args end
  (* ---- the consensus spec *)
  else if fn_is "spec_op" fn then
    match args with
    | [VI o; VL st; VL alt; VI lt; VI sq; VI ver] =>
        match vals_bytes st, vals_bytes alt with
        | Some s, Some a =>
            let c := {| c_locktime := lt; c_sequence := sq; c_version := ver |} in
            match Consensus.exec_op (o_ripemd160 H) (o_sha1 H) (o_sha256 H) c o (rev s, rev a) with
            | SOk (s', a') => VL [vstack s'; vstack a']
            | SFail => VErr
            | SOOS => VI 2
            end
        | _, _ => bad_args
        end
    | _ => bad_args end
  else if fn_is "spec_eval" fn then
    match args with
    | [VL cmds; VI lt; VI sq; VI ver; VI ap; VI aw] =>
        match vals_cmds cmds with
        | Some cs =>
            vverdict (consensus_verdict (o_ripemd160 H) (o_sha1 H) (o_sha256 H)
                        {| c_locktime := lt; c_sequence := sq; c_version := ver |}
                        (negb (ap =? 0)) (negb (aw =? 0)) cs)
        | None => bad_args
        end
    | _ => bad_args end
  else if fn_is "spec_num" fn then
    (* CScriptNum value (any size), its re-serialisation, CastToBool, minimal-encoding test *)
    match args with
    | [VB e] => VL [VI (sn_value e); VB (sn_serialize (sn_value e)); vbool (cast_to_bool e);
                    vbool (sn_minimal e)]
    | _ => bad_args end
  (* ---- failure mode *)
  else if fn_is "op_mode" fn then
    match args with
    | [VI o; VL st; VL alt; VI lt; VI sq; VI ver] =>
        match vals_bytes st, vals_bytes alt with
        | Some s, Some a =>
            let c := {| t_locktime := lt; t_sequence := sq; t_version := ver |} in
            match m_exec_op (mtable H) c o [] (rev s) (rev a) with
            | MOk (_, s', a') => VL [vstack s'; vstack a']
            | MFalse => VI 0
            | MRaise e => vexn e
            end
        | _, _ => bad_args
        end
    | _ => bad_args end
  else if fn_is "op_if_mode" fn then
    match args with
    | [VI neg; VL st; VL items] =>
        match vals_bytes st, vals_cmds items with
        | Some s, Some its =>
            match m_if_gen (negb (neg =? 0)) (rev s) its with
            | MOk (s', its') => VL [vstack s'; VL (map vcmd its')]
            | MFalse => VI 0
            | MRaise e => vexn e
            end
        | _, _ => bad_args
        end
    | _ => bad_args end
  else if fn_is "evaluate_mode" fn then
    match args with
    | [VL cmds; VI lt; VI sq; VI ver; VI ap; VI aw] =>
        match vals_cmds cmds with
        | Some cs =>
            vxoutcome (m_evaluate (mtable H) {| t_locktime := lt; t_sequence := sq; t_version := ver |}
                         (negb (ap =? 0)) (negb (aw =? 0)) cs)
        | None => bad_args
        end
    | _ => bad_args end
  (* ---- consensus with its resource limits; second component: the static bounds hold *)
  else if fn_is "spec_eval_lim" fn then
    match args with
    | [VL cmds; VI lt; VI sq; VI ver; VI ap; VI aw] =>
        match vals_cmds cmds with
        | Some cs =>
            let c := {| c_locktime := lt; c_sequence := sq; c_version := ver |} in
            VL [ (if negb (ap =? 0) && mentions_p2sh cs then VI 2
                  else vverdict (eval_script_lim (o_ripemd160 H) (o_sha1 H) (o_sha256 H) c (negb (aw =? 0)) cs));
                 vbool (within_limits cs) ]
        | None => bad_args
        end
    | _ => bad_args end
  (* ---- the classes of buidl/timelock.py *)
  else if fn_is "timelock" fn then
    match args with
    | [VI a; VI b] =>
        VL [ vres_i (lt_new a); vres_i (sq_new a);
             if u32 a && u32 b then
               VL [ vres_b (lt_serialize a); vres_b (sq_serialize a);
                    vbool (lt_comparable a b); vres_bool (lt_lt a b); vbool (lt_lt_int a b);
                    vopt (lt_block_height a); vopt (lt_mtp a);
                    vbool (sq_relative a); vbool (sq_relative_time a); vbool (sq_relative_block a);
                    vbool (sq_is_max a); vbool (sq_is_rbf_able a);
                    vopt (sq_relative_blocks a); vopt (sq_relative_seconds a);
                    vbool (sq_comparable a b); vres_bool (sq_lt a b); vbool (sq_lt_int a b) ]
             else VL [] ]
    | _ => bad_args end
  else if fn_is "timelock_ctor" fn then
    match args with
    | [VI n] => VL [ vres_i (sq_from_relative_time n); vres_i (sq_from_relative_blocks n);
                     vres_i lt_default; vres_i sq_default ]
    | _ => bad_args end
  else if fn_is "timelock_parse" fn then
    match args with
    | [VB s] => VL [ vres_i (lt_parse s); vres_i (sq_parse s) ]
    | _ => bad_args end
  else if fn_is "op_num" fn then
    match args with
    | [VI n] => VL [ vres_i (number_to_op_code n); vres_b (number_to_op_code_byte n);
                     vres_i (op_code_to_number n); vres vcmd (encode_minimal_num n) ]
    | _ => bad_args end
  else if fn_is "spec_bip68" fn then
    match args with
    | [VI a; VI b] =>
        VL [ vmeaning (bip68 a); vbool (bip112_comparable a b); vbool (bip68_value a <? bip68_value b);
             vbool (same_kind (locktime_kind a) (locktime_kind b)) ]
    | _ => bad_args end
  else if fn_is "spec_serialize" fn then
    match args with [VI n] => VB (sn_serialize n) | _ => bad_args end
  else bad_args.
