(* Dispatch/DC07.v — entry points of the C07 model (Model/Op.v, Model/Interp.v) and of the
   consensus spec (Spec/Consensus.v) for the correspondence check.
   Wire format: a command list is a list of ints (op codes) and byte strings (pushes); stacks are
   lists of byte strings in PYTHON order (top last) — reversed here, the Coq side is top first. *)
From Coq Require Import String.
From V Require Import Base.Prelude Base.Ints Base.Disp Model.Script Model.Op Model.Interp
  Spec.Consensus.
Open Scope string_scope.
Open Scope Z_scope.

Fixpoint vals_cmds (l : list val) : option (list cmd) :=
  match l with
  | [] => Some []
  | VI o :: r => match vals_cmds r with Some t => Some (Op o :: t) | None => None end
  | VB b :: r => match vals_cmds r with Some t => Some (Push b :: t) | None => None end
  | _ => None
  end.
Definition vcmd (cm : cmd) : val := match cm with Op o => VI o | Push b => VB b end.
Definition vstack (s : list bytes) : val := vbl (rev s).

Definition table (H : oracle) : Z -> option opfn :=
  op_code_functions (o_ripemd160 H) (o_sha1 H) (o_sha256 H) (o_hash160 H) (o_hash256 H) no_sigops.

Definition voutcome (o : outcome) : val :=
  match o with OTrue => VI 1 | OFalse => VI 0 | OSpecial => VI 2 end.
Definition vverdict (v : verdict) : val :=
  match v with Accept => VI 1 | Reject => VI 0 | OutOfScope => VI 2 end.

Definition dispatch (H : oracle) (fn : list Z) (args : list val) : val :=
  if fn_is "encode_num" fn then
    match args with [VI n] => VB (encode_num n) | _ => bad_args end
  else if fn_is "decode_num" fn then
    match args with [VB e] => VI (decode_num e) | _ => bad_args end
  else if fn_is "op" fn then
    (* one op code other than IF/NOTIF, called the way Script.evaluate calls it *)
    match args with
    | [VI o; VL st; VL alt; VI lt; VI sq; VI ver] =>
        match vals_bytes st, vals_bytes alt with
        | Some s, Some a =>
            let c := {| t_locktime := lt; t_sequence := sq; t_version := ver |} in
            match Interp.exec_op (table H) c o [] (rev s) (rev a) with
            | Ok (_, s', a') => VL [vstack s'; vstack a']
            | Err => VErr
            end
        | _, _ => bad_args
        end
    | _ => bad_args end
  else if fn_is "op_if" fn then
    match args with
    | [VI neg; VL st; VL items] =>
        match vals_bytes st, vals_cmds items with
        | Some s, Some its =>
            match op_if_gen (negb (neg =? 0)) (rev s) its with
            | Ok (s', its') => VL [vstack s'; VL (map vcmd its')]
            | Err => VErr
            end
        | _, _ => bad_args
        end
    | _ => bad_args end
  else if fn_is "evaluate" fn then
    match args with
    | [VL cmds; VI lt; VI sq; VI ver; VI ap; VI aw] =>
        match vals_cmds cmds with
        | Some cs =>
            voutcome (evaluate (table H) {| t_locktime := lt; t_sequence := sq; t_version := ver |}
                        (negb (ap =? 0)) (negb (aw =? 0)) cs)
        | None => bad_args
        end
    | _ => bad_args end
  (* ---- the consensus spec *)
  else if fn_is "spec_op" fn then
    match args with
    | [VI o; VL st; VL alt; VI lt; VI sq; VI ver] =>
        match vals_bytes st, vals_bytes alt with
        | Some s, Some a =>
            let c := {| c_locktime := lt; c_sequence := sq; c_version := ver |} in
            match Consensus.exec_op (o_ripemd160 H) (o_sha1 H) (o_sha256 H) c o (rev s, rev a) with
            | SOk (s', a') => VL [vstack s'; vstack a']
            | SFail => VErr
            | SOOS => VI 2
            end
        | _, _ => bad_args
        end
    | _ => bad_args end
  else if fn_is "spec_eval" fn then
    match args with
    | [VL cmds; VI lt; VI sq; VI ver; VI ap; VI aw] =>
        match vals_cmds cmds with
        | Some cs =>
            vverdict (consensus_verdict (o_ripemd160 H) (o_sha1 H) (o_sha256 H)
                        {| c_locktime := lt; c_sequence := sq; c_version := ver |}
                        (negb (ap =? 0)) (negb (aw =? 0)) cs)
        | None => bad_args
        end
    | _ => bad_args end
  else if fn_is "spec_num" fn then
    (* CScriptNum value (any size), its re-serialisation, CastToBool, minimal-encoding test *)
    match args with
    | [VB e] => VL [VI (sn_value e); VB (sn_serialize (sn_value e)); vbool (cast_to_bool e);
                    vbool (sn_minimal e)]
    | _ => bad_args end
  else if fn_is "spec_serialize" fn then
    match args with [VI n] => VB (sn_serialize n) | _ => bad_args end
  else bad_args.
