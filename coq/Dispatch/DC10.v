(* Dispatch/DC10.v — entry points of the C10 model (PSBT codec and workflow).
   Value encoding (shared with harness/props/c10.py):
     command  VI opcode | VB data              script  VL [VL cmds; VL [] | VL [VB raw]]
     txin     VL [VB prev_tx; VI prev_index; script; VI sequence; VL witness_items]
     txout    VL [VI amount; script]
     tx       VL [VI version; VL ins; VL outs; VI locktime; VI segwit]
     opt x    VL [] | VL [x]                   dict    VL [ VL [VB key; value] ... ] sorted by key
     in       VL [opt tx; opt txout; dict sigs; opt VI hash_type; opt redeem; opt witness_script;
                  dict named(raw_path); opt script_sig; opt (VL items); dict extra]
     out      VL [opt redeem; opt witness_script; dict named; dict extra]
     hd       VL [VB raw_serialize; VB raw_path]
     psbt     VL [tx; VL ins; VL outs; dict hd; dict extra]
     net      VI 0 (None) | 1 (mainnet) | 2 (testnet)
     oracle table (validate / parse): VL [ VL [z_legacy; z_segwit; verify_input] per input ],
       each entry VI or E (the implementation's Tx.sig_hash_legacy / sig_hash_bip143 /
       verify_input on that input). *)
From Coq Require Import String.
From V Require Import Base.Prelude Base.Ints Base.Disp Model.Helper Model.Script Model.Tx
  Model.Pecc Model.Psbt Model.PsbtSign Model.PsbtState Model.Base64 Model.PsbtB64 Model.PsbtUpdate Model.PsbtSignHd.
Open Scope string_scope.
Open Scope Z_scope.

(* ---- decoders ---- *)
Fixpoint dec_list {A} (f : val -> option A) (l : list val) : option (list A) :=
  match l with
  | [] => Some []
  | v :: r => match f v, dec_list f r with Some a, Some t => Some (a :: t) | _, _ => None end
  end.
Definition dec_opt {A} (f : val -> option A) (v : val) : option (option A) :=
  match v with
  | VL [] => Some None
  | VL [x] => match f x with Some a => Some (Some a) | None => None end
  | _ => None
  end.
Definition dec_dict {A} (f : val -> option A) (v : val) : option (dict A) :=
  match v with
  | VL l => dec_list (fun e => match e with
                               | VL [VB k; x] => match f x with Some a => Some (k, a) | None => None end
                               | _ => None end) l
  | _ => None
  end.
Definition dec_bytes (v : val) : option bytes := match v with VB b => Some b | _ => None end.
Definition dec_int (v : val) : option Z := match v with VI z => Some z | _ => None end.
Definition dec_items (v : val) : option (list bytes) :=
  match v with VL l => vals_bytes l | _ => None end.

Definition dec_cmd (v : val) : option cmd :=
  match v with VI o => Some (Op o) | VB b => Some (Push b) | _ => None end.
Definition dec_script (v : val) : option script :=
  match v with
  | VL [VL cs; VL []] =>
      match dec_list dec_cmd cs with Some c => Some {| s_cmds := c; s_raw := None |} | None => None end
  | VL [VL cs; VL [VB raw]] =>
      match dec_list dec_cmd cs with Some c => Some {| s_cmds := c; s_raw := Some raw |} | None => None end
  | _ => None
  end.
Definition dec_txin (v : val) : option txin :=
  match v with
  | VL [VB pt; VI pi; sc; VI sq; VL w] =>
      match dec_script sc, vals_bytes w with
      | Some s, Some items =>
          Some {| i_prev_tx := pt; i_prev_index := pi; i_script := s; i_sequence := sq;
                  i_witness := items |}
      | _, _ => None
      end
  | _ => None
  end.
Definition dec_txout (v : val) : option txout :=
  match v with
  | VL [VI am; sc] =>
      match dec_script sc with Some s => Some {| o_amount := am; o_script := s |} | None => None end
  | _ => None
  end.
Definition dec_tx (v : val) : option tx :=
  match v with
  | VL [VI ver; VL ins; VL outs; VI lt; VI sw] =>
      match dec_list dec_txin ins, dec_list dec_txout outs with
      | Some i, Some o =>
          Some {| t_version := ver; t_ins := i; t_outs := o; t_locktime := lt;
                  t_segwit := negb (sw =? 0) |}
      | _, _ => None
      end
  | _ => None
  end.

Definition dec_in (v : val) : option psbt_in :=
  match v with
  | VL [ptx; pout; sigs; ht; rs; ws; named; ss; wit; extra] =>
      match dec_opt dec_tx ptx, dec_opt dec_txout pout, dec_dict dec_bytes sigs, dec_opt dec_int ht,
            dec_opt dec_script rs with
      | Some a, Some b, Some c, Some d, Some e =>
          match dec_opt dec_script ws, dec_dict dec_bytes named, dec_opt dec_script ss,
                dec_opt dec_items wit, dec_dict dec_bytes extra with
          | Some f, Some g, Some h, Some i, Some j =>
              Some {| pi_prev_tx := a; pi_prev_out := b; pi_sigs := c; pi_hash_type := d;
                      pi_redeem := e; pi_wscript := f; pi_named := g; pi_script_sig := h;
                      pi_witness := i; pi_extra := j |}
          | _, _, _, _, _ => None
          end
      | _, _, _, _, _ => None
      end
  | _ => None
  end.
Definition dec_out (v : val) : option psbt_out :=
  match v with
  | VL [rs; ws; named; extra] =>
      match dec_opt dec_script rs, dec_opt dec_script ws, dec_dict dec_bytes named,
            dec_dict dec_bytes extra with
      | Some a, Some b, Some c, Some d =>
          Some {| po_redeem := a; po_wscript := b; po_named := c; po_extra := d |}
      | _, _, _, _ => None
      end
  | _ => None
  end.
Definition dec_hd (v : val) : option hd_pub :=
  match v with VL [VB k; VB p] => Some {| hd_key := k; hd_path := p |} | _ => None end.
Definition dec_psbt (v : val) : option psbt :=
  match v with
  | VL [t; VL ins; VL outs; hd; extra] =>
      match dec_tx t, dec_list dec_in ins, dec_list dec_out outs, dec_dict dec_hd hd,
            dec_dict dec_bytes extra with
      | Some a, Some b, Some c, Some d, Some e =>
          Some {| p_tx := a; p_ins := b; p_outs := c; p_hd := d; p_extra := e |}
      | _, _, _, _, _ => None
      end
  | _ => None
  end.
Definition dec_net (z : Z) : option net :=
  if z =? 1 then Some Mainnet else if z =? 2 then Some Testnet else None.

(* ---- encoders ---- *)
Definition enc_opt {A} (f : A -> val) (o : option A) : val :=
  match o with Some a => VL [f a] | None => VL [] end.
Definition enc_dict {A} (f : A -> val) (m : dict A) : val :=
  VL (map (fun e => VL [VB (fst e); f (snd e)]) m).
Definition enc_cmd (c : cmd) : val := match c with Op o => VI o | Push b => VB b end.
Definition enc_script (s : script) : val :=
  VL [VL (map enc_cmd (s_cmds s)); match s_raw s with None => VL [] | Some r => VL [VB r] end].
Definition enc_txin (i : txin) : val :=
  VL [VB (i_prev_tx i); VI (i_prev_index i); enc_script (i_script i); VI (i_sequence i);
      vbl (i_witness i)].
Definition enc_txout (o : txout) : val := VL [VI (o_amount o); enc_script (o_script o)].
Definition enc_tx (t : tx) : val :=
  VL [VI (t_version t); VL (map enc_txin (t_ins t)); VL (map enc_txout (t_outs t));
      VI (t_locktime t); vbool (t_segwit t)].
Definition enc_in (st : psbt_in) : val :=
  VL [enc_opt enc_tx (pi_prev_tx st); enc_opt enc_txout (pi_prev_out st);
      enc_dict VB (pi_sigs st); enc_opt VI (pi_hash_type st); enc_opt enc_script (pi_redeem st);
      enc_opt enc_script (pi_wscript st); enc_dict VB (pi_named st);
      enc_opt enc_script (pi_script_sig st); enc_opt vbl (pi_witness st);
      enc_dict VB (pi_extra st)].
Definition enc_out (st : psbt_out) : val :=
  VL [enc_opt enc_script (po_redeem st); enc_opt enc_script (po_wscript st);
      enc_dict VB (po_named st); enc_dict VB (po_extra st)].
Definition enc_hd (h : hd_pub) : val := VL [VB (hd_key h); VB (hd_path h)].
Definition enc_psbt (p : psbt) : val :=
  VL [enc_tx (p_tx p); VL (map enc_in (p_ins p)); VL (map enc_out (p_outs p));
      enc_dict enc_hd (p_hd p); enc_dict VB (p_extra p)].
Definition enc_net (n : option net) : val :=
  VI (match n with None => 0 | Some Mainnet => 1 | Some Testnet => 2 end).

(* ---- oracle instances ---- *)
Definition K := secp256k1.

Definition sec_ok (b : bytes) : bool :=
  match parse_sec K b with Ok (Some _) => true | _ => false end.

(* S256Point.parse(sec) and Signature.parse(der) both succeed *)
Definition sig_parse_ok (sec der : bytes) : bool :=
  match parse_point K sec, der_parse der with Ok _, Ok _ => true | _, _ => false end.
Definition ecdsa_ok (sec : bytes) (z : Z) (der : bytes) : bool :=
  match parse_point K sec, der_parse der with
  | Ok P, Ok (r, s) => match ecdsa_verify K P z r s with Ok b => b | Err => false end
  | _, _ => false
  end.

Definition tbl_get (tbl : list val) (i : Z) (col : nat) : val :=
  match nthz tbl i with
  | Some (VL row) => nth col row VErr
  | _ => VErr
  end.
Definition tbl_z (tbl : list val) (i : Z) (col : nat) : result Z :=
  match tbl_get tbl i col with VI z => Ok z | _ => Err end.
Definition tbl_b (tbl : list val) (i : Z) (col : nat) : result bool :=
  match tbl_get tbl i col with VI z => Ok (negb (z =? 0)) | _ => Err end.

(* HDPublicKey.child / NamedHDPublicKey.verify_descendent *)
Definition hd_child (H : oracle) (chain : bytes) (P : point) (index : Z) : result (bytes * point) :=
  if 2147483648 <=? index then Err
  else
    s <- Pecc.sec P true ;;
    let h := o_hmac_sha512 H chain (s ++ to_be 4 index) in
    P' <- padd_int K P (from_be (firstn 32 h)) ;;
    Ok (skipn 32 h, P').
Fixpoint descend (H : oracle) (fuel : nat) (chain : bytes) (P : point) (rem : bytes) : result point :=
  match fuel with
  | O => Err
  | S f =>
      match rem with
      | [] => Ok P
      | _ => '(c', P') <- hd_child H chain P (from_le (firstn 4 rem)) ;;
             descend H f c' P' (skipn 4 rem)
      end
  end.
Definition descends (H : oracle) (h : hd_pub) (sec raw_path : bytes) : bool :=
  let k := hd_key h in
  match parse_sec K (skipn 45 k), parse_point K sec with
  | Ok P, Ok Q =>
      let rem := skipn (length (hd_path h)) raw_path in
      match descend H (S (length rem)) (firstn 32 (skipn 13 k)) P rem with
      | Ok R => match R, Q with
                | Some (x1, y1), Some (x2, y2) => (x1 =? x2) && (y1 =? y2)
                | None, None => true
                | _, _ => false
                end
      | Err => false
      end
  | _, _ => false
  end.

Section Inst.
Variable H : oracle.
Variable tbl : list val.

Definition m_validate : psbt -> result unit :=
  validate (o_hash160 H) (o_sha256 H) (o_hash256 H) sig_parse_ok ecdsa_ok
    (fun _ i _ => tbl_z tbl i 0) (fun _ i _ _ => tbl_z tbl i 1)
    (fun _ i _ _ => tbl_b tbl i 2) (descends H).
Definition m_parse : bytes -> result (psbt * option net) :=
  psbt_parse (o_hash160 H) (o_sha256 H) (o_hash256 H) sec_ok sig_parse_ok ecdsa_ok
    (fun _ i _ => tbl_z tbl i 0) (fun _ i _ _ => tbl_z tbl i 1)
    (fun _ i _ _ => tbl_b tbl i 2) (descends H).
End Inst.

(* ---- additions of the deepening pass: Signer, validate as a state transformer, base64 ---- *)
(* signature table of the Signer: VL [ VL [VB sec; VL [ VL [segwit sig | E; legacy sig | E] per input ]] ] *)
Fixpoint sig_tbl_find (tbl : list val) (sec : bytes) : list val :=
  match tbl with
  | [] => []
  | VL [VB k; VL rows] :: r => if beq k sec then rows else sig_tbl_find r sec
  | _ :: r => sig_tbl_find r sec
  end.
Definition tbl_sig (tbl : list val) (sec : bytes) (i : Z) (col : nat) : result bytes :=
  match tbl_get (sig_tbl_find tbl sec) i col with VB b => Ok b | _ => Err end.
Definition m_sign_keys (tbl : list val) : list bytes -> psbt -> result (psbt * bool) :=
  sign_keys (fun sec _ i _ _ => tbl_sig tbl sec i 0) (fun sec _ i _ => tbl_sig tbl sec i 1).

Definition m_validate_state (H : oracle) (tbl : list val) : psbt -> result unit * tx :=
  validate_state (o_hash160 H) (o_sha256 H) (o_hash256 H) sig_parse_ok ecdsa_ok
    (fun _ i _ => tbl_z tbl i 0) (fun _ i _ _ => tbl_z tbl i 1)
    (fun _ i _ _ => tbl_b tbl i 2) (descends H).
Definition m_parse_base64 (H : oracle) (tbl : list val) : bool -> list Z -> result (psbt * option net) :=
  psbt_parse_base64 (o_hash160 H) (o_sha256 H) (o_hash256 H) sec_ok sig_parse_ok ecdsa_ok
    (fun _ i _ => tbl_z tbl i 0) (fun _ i _ _ => tbl_z tbl i 1)
    (fun _ i _ _ => tbl_b tbl i 2) (descends H).
Definition dec_pair (v : val) : option (bytes * bytes) :=
  match v with VL [VB a; VB b] => Some (a, b) | _ => None end.

(* PSBT.sign(hd_priv): derivation table VL [ VL [VB raw_path; VB sec | E] ] *)
Fixpoint derive_find (tbl : list val) (path : bytes) : result bytes :=
  match tbl with
  | [] => Err
  | VL [VB p; VB s] :: r => if beq p path then Ok s else derive_find r path
  | VL [VB p; _] :: r => if beq p path then Err else derive_find r path
  | _ :: r => derive_find r path
  end.
Definition m_sign_hd (dtbl stbl : list val) : bytes -> psbt -> result (psbt * bool) :=
  sign_hd (fun sec _ i _ _ => tbl_sig stbl sec i 0) (fun sec _ i _ => tbl_sig stbl sec i 1) (derive_find dtbl).

Definition vunit (r : result unit) : val := match r with Ok _ => VI 1 | Err => VErr end.

Definition dispatch (H : oracle) (fn : list Z) (args : list val) : val :=
  if fn_is "kv_parse" fn then
    match args with
    | [VB s] => vres (fun '(m, r) => VL [enc_dict VB m; VB r]) (kv_parse s)
    | _ => bad_args end
  else if fn_is "kv_serialize" fn then
    match args with
    | [d] => match dec_dict dec_bytes d with Some m => vres_b (kv_serialize m) | None => bad_args end
    | _ => bad_args end
  else if fn_is "in_parse" fn then
    match args with
    | [VB s; ti; VI n] =>
        match dec_txin ti with
        | Some t => vres (fun '(st, r) => VL [enc_in st; VB r])
                         (in_parse (o_hash160 H) (o_sha256 H) (o_hash256 H) sec_ok (dec_net n) t s)
        | None => bad_args end
    | _ => bad_args end
  else if fn_is "out_parse" fn then
    match args with
    | [VB s; to; VI n] =>
        match dec_txout to with
        | Some t => vres (fun '(st, r) => VL [enc_out st; VB r])
                         (out_parse (o_hash160 H) (o_sha256 H) sec_ok (dec_net n) t s)
        | None => bad_args end
    | _ => bad_args end
  else if fn_is "in_serialize" fn then
    match args with
    | [v] => match dec_in v with Some st => vres_b (in_serialize st) | None => bad_args end
    | _ => bad_args end
  else if fn_is "out_serialize" fn then
    match args with
    | [v] => match dec_out v with Some st => vres_b (out_serialize st) | None => bad_args end
    | _ => bad_args end
  else if fn_is "parse" fn then
    match args with
    | [VB s; VL tbl] => vres (fun '(p, n) => VL [enc_psbt p; enc_net n]) (m_parse H tbl s)
    | _ => bad_args end
  else if fn_is "serialize" fn then
    match args with
    | [v] => match dec_psbt v with Some p => vres_b (psbt_serialize p) | None => bad_args end
    | _ => bad_args end
  else if fn_is "validate" fn then
    match args with
    | [v; VL tbl] => match dec_psbt v with Some p => vunit (m_validate H tbl p) | None => bad_args end
    | _ => bad_args end
  else if fn_is "in_validate" fn then
    match args with
    | [v; ti] =>
        match dec_in v, dec_txin ti with
        | Some st, Some t => vunit (in_validate (o_hash160 H) (o_sha256 H) (o_hash256 H) st t)
        | _, _ => bad_args end
    | _ => bad_args end
  else if fn_is "out_validate" fn then
    match args with
    | [v; to] =>
        match dec_out v, dec_txout to with
        | Some st, Some t => vunit (out_validate (o_hash160 H) (o_sha256 H) st t)
        | _, _ => bad_args end
    | _ => bad_args end
  else if fn_is "combine" fn then
    match args with
    | [a; b] =>
        match dec_psbt a, dec_psbt b with
        | Some pa, Some pb => vres enc_psbt (combine (o_hash256 H) pa pb)
        | _, _ => bad_args end
    | _ => bad_args end
  else if fn_is "finalize" fn then
    match args with
    | [v] => match dec_psbt v with Some p => vres enc_psbt (finalize p) | None => bad_args end
    | _ => bad_args end
  else if fn_is "in_finalize" fn then
    match args with
    | [v; ti] =>
        match dec_in v, dec_txin ti with
        | Some st, Some t => vres enc_in (in_finalize st t)
        | _, _ => bad_args end
    | _ => bad_args end
  else if fn_is "assemble_tx" fn then
    match args with
    | [v] => match dec_psbt v with Some p => vres enc_tx (assemble_tx p) | None => bad_args end
    | _ => bad_args end
  else if fn_is "sign_keys" fn then
    match args with
    | [v; VL secs; VL tbl] =>
        match dec_psbt v, vals_bytes secs with
        | Some p, Some ks => vres (fun '(q, b) => VL [enc_psbt q; vbool b]) (m_sign_keys tbl ks p)
        | _, _ => bad_args end
    | _ => bad_args end
  else if fn_is "validate_state" fn then
    match args with
    | [v; VL tbl] =>
        match dec_psbt v with
        | Some p => let '(r, t) := m_validate_state H tbl p in
                    VL [VI (match r with Ok _ => 1 | Err => 0 end); enc_tx t]
        | None => bad_args end
    | _ => bad_args end
  else if fn_is "b64_encode" fn then
    match args with
    | [VB b] => VB (b64_encode b)
    | _ => bad_args end
  else if fn_is "b64_decode" fn then
    match args with
    | [VB s; VI is_str] => vres_b (if is_str =? 0 then b64_decode_bytes s else b64_decode_str s)
    | _ => bad_args end
  else if fn_is "parse_base64" fn then
    match args with
    | [VB s; VI is_str; VL tbl] =>
        vres (fun '(p, n) => VL [enc_psbt p; enc_net n]) (m_parse_base64 H tbl (negb (is_str =? 0)) s)
    | _ => bad_args end
  else if fn_is "in_update" fn then
    match args with
    | [v; ti; txl; pk; rl; wl] =>
        match dec_in v, dec_txin ti, dec_dict dec_tx txl with
        | Some st, Some t, Some l1 =>
            match dec_dict dec_pair pk, dec_dict dec_script rl, dec_dict dec_script wl with
            | Some l2, Some l3, Some l4 => vres enc_in (in_update l1 l2 l3 l4 st t)
            | _, _, _ => bad_args end
        | _, _, _ => bad_args end
    | _ => bad_args end
  else if fn_is "out_update" fn then
    match args with
    | [v; to; pk; rl; wl] =>
        match dec_out v, dec_txout to with
        | Some st, Some t =>
            match dec_dict dec_pair pk, dec_dict dec_script rl, dec_dict dec_script wl with
            | Some l2, Some l3, Some l4 => vres enc_out (out_update l2 l3 l4 st t)
            | _, _, _ => bad_args end
        | _, _ => bad_args end
    | _ => bad_args end
  else if fn_is "update" fn then
    match args with
    | [v; txl; pk; rl; wl] =>
        match dec_psbt v, dec_dict dec_tx txl with
        | Some p, Some l1 =>
            match dec_dict dec_pair pk, dec_dict dec_script rl, dec_dict dec_script wl with
            | Some l2, Some l3, Some l4 => vres enc_psbt (psbt_update l1 l2 l3 l4 p)
            | _, _, _ => bad_args end
        | _, _ => bad_args end
    | _ => bad_args end
  else if fn_is "sign_hd" fn then
    match args with
    | [v; VB fp; VL dtbl; VL stbl] =>
        match dec_psbt v with
        | Some p => vres (fun '(q, b) => VL [enc_psbt q; vbool b]) (m_sign_hd dtbl stbl fp p)
        | None => bad_args end
    | _ => bad_args end
  else bad_args.
