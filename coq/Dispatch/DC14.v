(* Dispatch/DC14.v — entry points of the C14 model (BIP39 + PBKDF2 + seed) for the
   correspondence check.  Texts arrive either as bytes (code points < 256) or as a list
   of integer code points. *)
From Coq Require Import String.
From V Require Import Base.Prelude Base.Ints Base.Disp Model.Mnemonic Model.Pbkdf2 Spec.Pbkdf2S
  Generated.Wordlists Model.Pbkdf2Obj Model.MnemonicApi Spec.Bip39S.
From V Require Model.Pecc Model.Hd Model.HdStr Model.MnemonicHd.
Open Scope string_scope.
Open Scope Z_scope.

Definition arg_text (v : val) : option (list Z) :=
  match v with VB b => Some b | VL l => vals_ints l | _ => None end.

Definition wl_of (which : Z) : list (list Z) := if which =? 0 then bip39_words else slip39_words.

(* alg: 0 HMAC-SHA512, 1 HMAC-SHA256, 2 HMAC-SHA1 *)
Definition prf_of (H : oracle) (alg : Z) : bytes -> bytes -> bytes :=
  if alg =? 0 then o_hmac_sha512 H else if alg =? 1 then o_hmac_sha256 H else (fun k m => H 6 [k; m]).
Definition hlen_of (alg : Z) : Z := if alg =? 0 then 64 else if alg =? 1 then 32 else 20.

Definition small (z : Z) : bool := z <? 1000000.

(* optional bytes argument: () = None *)
Definition vopt_b (v : val) : option (option bytes) :=
  match v with VL [] => Some None | VB b => Some (Some b) | _ => None end.

(* one call on a PBKDF2 object: (0 n) read, (1 n) hexread, (2) close *)
Definition get_pop (v : val) : option pop :=
  match v with
  | VL [VI 0; VI n] => if small n then Some (PRead n) else None
  | VL [VI 1; VI n] => if small n then Some (PHexRead n) else None
  | VL [VI 2] => Some PClose
  | _ => None
  end.
Fixpoint get_pops (l : list val) : option (list pop) :=
  match l with
  | [] => Some []
  | v :: r => match get_pop v, get_pops r with Some p, Some t => Some (p :: t) | _, _ => None end
  end.

(* HDPrivateKey fields and the two strings *)
Definition vhd (p : Hd.hdpriv * list Z * list Z) : val :=
  let '(k, xprv, xpub) := p in
  VL [VI (Hd.sk k); VB (Hd.sk_cc k); VI (Hd.sk_depth k); VB (Hd.sk_pfp k); VI (Hd.sk_num k);
      VI (Hd.sk_net k); VB (Hd.sk_ver k); VB (Hd.sk_pubver k); VB xprv; VB xpub].

Definition dispatch (H : oracle) (fn : list Z) (args : list val) : val :=
  if fn_is "split" fn then
    match args with
    | [t] => match arg_text t with Some s => VL (map vil (split_ws s)) | None => bad_args end
    | _ => bad_args end
  else if fn_is "wl_index" fn then
    match args with
    | [VI w; t] => match arg_text t with Some s => vres_i (wl_index (wl_of w) s) | None => bad_args end
    | _ => bad_args end
  else if fn_is "wl_word" fn then
    match args with [VI w; VI i] => vres_b (wl_word (wl_of w) i) | _ => bad_args end
  else if fn_is "wl_normalize" fn then
    match args with
    | [VI w; t] => match arg_text t with Some s => vres_b (wl_normalize (wl_of w) s) | None => bad_args end
    | _ => bad_args end
  else if fn_is "bytes_to_indices" fn then
    match args with
    | [VB b; VI nb] => vres vil (bytes_to_indices (o_sha256 H) b nb)
    | _ => bad_args end
  else if fn_is "bytes_to_mnemonic" fn then
    match args with
    | [VB b; VI nb] => vres_b (bytes_to_mnemonic (o_sha256 H) bip39_words b nb)
    | _ => bad_args end
  else if fn_is "mnemonic_to_bytes" fn then
    match args with
    | [t] => match arg_text t with
             | Some s => vres_b (mnemonic_to_bytes (o_sha256 H) bip39_words s)
             | None => bad_args end
    | _ => bad_args end
  else if fn_is "secure_mnemonic" fn then
    match args with
    | [VI nb; VI extra; VI rnd; VI t] =>
        if small nb then vres_b (secure_mnemonic (o_sha256 H) bip39_words nb extra rnd t) else bad_args
    | _ => bad_args end
  else if fn_is "pbkdf2_reads" fn then
    match args with
    | [VI alg; VB pw; VB salt; VI c; VL ns] =>
        match vals_ints ns with
        | Some l =>
            if small c && forallb small l then
              vres vbl (st <- pb_init pw salt c ;; pb_reads (prf_of H alg) st l)
            else bad_args
        | None => bad_args end
    | _ => bad_args end
  else if fn_is "pbkdf2_spec" fn then
    match args with
    | [VI alg; VB pw; VB salt; VI c; VI dk] =>
        if small c && small dk then vres_b (pbkdf2 (prf_of H alg) (hlen_of alg) pw salt c dk) else bad_args
    | _ => bad_args end
  else if fn_is "kdf" fn then
    match args with
    | [VB msg; VB salt] => vres_b (hmac_sha512_kdf (o_hmac_sha512 H) msg salt)
    | _ => bad_args end
  else if fn_is "from_seed" fn then
    match args with
    | [VB seed] => vres (fun p => VL [VI (fst p); VB (snd p)]) (from_seed (o_hmac_sha512 H) seed)
    | _ => bad_args end
  else if fn_is "from_mnemonic" fn then
    match args with
    | [t; VB pw] =>
        match arg_text t with
        | Some s => vres (fun p => VL [VB (fst (fst p)); VI (snd (fst p)); VB (snd p)])
                         (from_mnemonic (o_sha256 H) (o_hmac_sha512 H) bip39_words s pw)
        | None => bad_args end
    | _ => bad_args end
  else if fn_is "spec_indices" fn then
    match args with
    | [VB e] => if entropy_size_ok e then VL (map VI (bip39_indices (o_sha256 H) e)) else VErr
    | _ => bad_args end
  else if fn_is "spec_sentence" fn then
    match args with
    | [VB e] => if entropy_size_ok e then VB (bip39_sentence (o_sha256 H) bip39_words e) else VErr
    | _ => bad_args end
  else if fn_is "pbkdf2_session" fn then
    match args with
    | [VI alg; VB pw; VB salt; VI c; VL ops] =>
        match get_pops ops with
        | Some l =>
            if small c then vres (fun rs => VL (map vres_b rs)) (po_session (prf_of H alg) pw salt c l)
            else bad_args
        | None => bad_args end
    | _ => bad_args end
  else if fn_is "pb_read_state" fn then
    (* read(n) on an object whose private buffer / block counter were set by hand: reaches the
       "derived key too long" branch, which no affordable sequence of public calls reaches *)
    match args with
    | [VI alg; VB pw; VB salt; VI c; VB buf; VI blk; VI n] =>
        if small c && small n then
          vres (fun p : bytes * pstate => VL [VB (fst p); VB (p_buf (snd p)); VI (p_block (snd p))])
               (pb_read (prf_of H alg)
                  {| p_pass := pw; p_salt := salt; p_iter := c; p_buf := buf; p_block := blk |} n)
        else bad_args
    | _ => bad_args end
  else if fn_is "utf8" fn then
    match args with
    | [t] => match arg_text t with Some s => vres_b (utf8_encode s) | None => bad_args end
    | _ => bad_args end
  else if fn_is "kdf_str" fn then
    match args with
    | [t; VB salt] =>
        match arg_text t with
        | Some s => vres_b (hmac_sha512_kdf_str (o_hmac_sha512 H) s salt)
        | None => bad_args end
    | _ => bad_args end
  else if fn_is "seed_utf8" fn then
    match args with
    | [t; VB pw] =>
        match arg_text t with
        | Some s => vres_b (mnemonic_seed_utf8 (o_sha256 H) (o_hmac_sha512 H) bip39_words s pw)
        | None => bad_args end
    | _ => bad_args end
  else if fn_is "wl_getitem_int" fn then
    match args with [VI w; VI i] => vres_b (wl_getitem_int (wl_of w) i) | _ => bad_args end
  else if fn_is "wl_contains" fn then
    match args with
    | [VI w; t] => match arg_text t with Some s => vbool (wl_contains (wl_of w) s) | None => bad_args end
    | _ => bad_args end
  else if fn_is "hd_from_mnemonic" fn then
    match args with
    | [t; VB pw; VB path; VI net; v1; v2] =>
        match arg_text t, vopt_b v1, vopt_b v2 with
        | Some s, Some ver, Some pv =>
            vres vhd (MnemonicHd.hd_from_mnemonic_strings Pecc.secp256k1 (o_sha256 H) (o_hmac_sha512 H)
                        (o_hash160 H) (o_hash256 H) bip39_words s pw path net ver pv)
        | _, _, _ => bad_args end
    | _ => bad_args end
  else if fn_is "hd_generate" fn then
    match args with
    | [VB pw; VI extra; VI rnd; VI t; VI net] =>
        vres (fun p => VL [VB (fst p); vres_b (HdStr.xprv_str (o_hash256 H) (snd p) None)])
             (MnemonicHd.hd_generate Pecc.secp256k1 (o_sha256 H) (o_hmac_sha512 H) (o_hash160 H)
                bip39_words pw extra rnd t net None None)
    | _ => bad_args end
  else bad_args.
