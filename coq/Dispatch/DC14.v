(* Dispatch/DC14.v — entry points of the C14 model (BIP39 + PBKDF2 + seed) for the
   correspondence check.  Texts arrive either as bytes (code points < 256) or as a list
   of integer code points. *)
From Coq Require Import String.
From V Require Import Base.Prelude Base.Ints Base.Disp Model.Mnemonic Model.Pbkdf2 Spec.Pbkdf2S
  Generated.Wordlists.
Open Scope string_scope.
Open Scope Z_scope.

Definition arg_text (v : val) : option (list Z) :=
  match v with VB b => Some b | VL l => vals_ints l | _ => None end.

Definition wl_of (which : Z) : list (list Z) := if which =? 0 then bip39_words else slip39_words.

(* alg: 0 HMAC-SHA512, 1 HMAC-SHA256, 2 HMAC-SHA1 *)
Definition prf_of (H : oracle) (alg : Z) : bytes -> bytes -> bytes :=
  if alg =? 0 then o_hmac_sha512 H else if alg =? 1 then o_hmac_sha256 H else (fun k m => H 6 [k; m]).
Definition hlen_of (alg : Z) : Z := if alg =? 0 then 64 else if alg =? 1 then 32 else 20.

Definition small (z : Z) : bool := z <? 1000000.

Definition dispatch (H : oracle) (fn : list Z) (args : list val) : val :=
  if fn_is "split" fn then
    match args with
    | [t] => match arg_text t with Some s => VL (map vil (split_ws s)) | None => bad_args end
    | _ => bad_args end
  else if fn_is "wl_index" fn then
    match args with
    | [VI w; t] => match arg_text t with Some s => vres_i (wl_index (wl_of w) s) | None => bad_args end
    | _ => bad_args end
  else if fn_is "wl_word" fn then
    match args with [VI w; VI i] => vres_b (wl_word (wl_of w) i) | _ => bad_args end
  else if fn_is "wl_normalize" fn then
    match args with
    | [VI w; t] => match arg_text t with Some s => vres_b (wl_normalize (wl_of w) s) | None => bad_args end
    | _ => bad_args end
  else if fn_is "bytes_to_indices" fn then
    match args with
    | [VB b; VI nb] => vres vil (bytes_to_indices (o_sha256 H) b nb)
    | _ => bad_args end
  else if fn_is "bytes_to_mnemonic" fn then
    match args with
    | [VB b; VI nb] => vres_b (bytes_to_mnemonic (o_sha256 H) bip39_words b nb)
    | _ => bad_args end
  else if fn_is "mnemonic_to_bytes" fn then
    match args with
    | [t] => match arg_text t with
             | Some s => vres_b (mnemonic_to_bytes (o_sha256 H) bip39_words s)
             | None => bad_args end
    | _ => bad_args end
  else if fn_is "secure_mnemonic" fn then
    match args with
    | [VI nb; VI extra; VI rnd; VI t] =>
        if small nb then vres_b (secure_mnemonic (o_sha256 H) bip39_words nb extra rnd t) else bad_args
    | _ => bad_args end
  else if fn_is "pbkdf2_reads" fn then
    match args with
    | [VI alg; VB pw; VB salt; VI c; VL ns] =>
        match vals_ints ns with
        | Some l =>
            if small c && forallb small l then
              vres vbl (st <- pb_init pw salt c ;; pb_reads (prf_of H alg) st l)
            else bad_args
        | None => bad_args end
    | _ => bad_args end
  else if fn_is "pbkdf2_spec" fn then
    match args with
    | [VI alg; VB pw; VB salt; VI c; VI dk] =>
        if small c && small dk then vres_b (pbkdf2 (prf_of H alg) (hlen_of alg) pw salt c dk) else bad_args
    | _ => bad_args end
  else if fn_is "kdf" fn then
    match args with
    | [VB msg; VB salt] => vres_b (hmac_sha512_kdf (o_hmac_sha512 H) msg salt)
    | _ => bad_args end
  else if fn_is "from_seed" fn then
    match args with
    | [VB seed] => vres (fun p => VL [VI (fst p); VB (snd p)]) (from_seed (o_hmac_sha512 H) seed)
    | _ => bad_args end
  else if fn_is "from_mnemonic" fn then
    match args with
    | [t; VB pw] =>
        match arg_text t with
        | Some s => vres (fun p => VL [VB (fst (fst p)); VI (snd (fst p)); VB (snd p)])
                         (from_mnemonic (o_sha256 H) (o_hmac_sha512 H) bip39_words s pw)
        | None => bad_args end
    | _ => bad_args end
  else bad_args.
