(* Dispatch/DC12.v — entry points of the C12 model (taproot commitments).
   Value encoding:  command  VI opcode | VB data
                    script   VL [VL cmds; VL [] | VL [VB raw]]
                    leaf     VL [VI version; script]
                    tree     VL [VI 0; VI version; script] | VL [VI 1; tree; tree]
                    point    VL [] (infinity) | VL [VI x; VI y]
                    cblock   VL [VI version; VI parity; point; VL hashes]              *)
From Coq Require Import String.
From V Require Import Base.Prelude Base.Ints Base.Disp Model.Helper Model.Script Model.Pecc
  Model.Taproot Model.TaprootExt.
Open Scope string_scope.
Open Scope Z_scope.

Fixpoint dec_list {A} (f : val -> option A) (l : list val) : option (list A) :=
  match l with
  | [] => Some []
  | v :: r => match f v, dec_list f r with Some a, Some t => Some (a :: t) | _, _ => None end
  end.

Definition dec_cmd (v : val) : option cmd :=
  match v with VI o => Some (Op o) | VB b => Some (Push b) | _ => None end.

Definition dec_script (v : val) : option script :=
  match v with
  | VL [VL cs; VL []] =>
      match dec_list dec_cmd cs with Some c => Some {| s_cmds := c; s_raw := None |} | None => None end
  | VL [VL cs; VL [VB raw]] =>
      match dec_list dec_cmd cs with Some c => Some {| s_cmds := c; s_raw := Some raw |} | None => None end
  | _ => None
  end.

Definition dec_leaf (v : val) : option leaf :=
  match v with
  | VL [VI ver; sc] => match dec_script sc with Some s => Some (ver, s) | None => None end
  | _ => None
  end.

Fixpoint dec_tree (v : val) : option taptree :=
  match v with
  | VL [VI 0; VI ver; sc] =>
      match dec_script sc with Some s => Some (Leaf ver s) | None => None end
  | VL [VI 1; l; r] =>
      match dec_tree l, dec_tree r with Some a, Some b => Some (Branch a b) | _, _ => None end
  | _ => None
  end.

Definition dec_point (v : val) : option point :=
  match v with
  | VL [] => Some None
  | VL [VI x; VI y] => Some (Some (x, y))
  | _ => None
  end.

Definition dec_cb (v : val) : option control_block :=
  match v with
  | VL [VI ver; VI par; pt; VL hs] =>
      match dec_point pt, vals_bytes hs with
      | Some p, Some h => Some {| cb_version := ver; cb_parity := par; cb_key := p; cb_hashes := h |}
      | _, _ => None
      end
  | _ => None
  end.

Definition enc_cmd (c : cmd) : val := match c with Op o => VI o | Push b => VB b end.
Definition enc_script (s : script) : val :=
  VL [VL (map enc_cmd (s_cmds s)); match s_raw s with None => VL [] | Some r => VL [VB r] end].
Definition enc_point (P : point) : val :=
  match P with None => VL [] | Some (x, y) => VL [VI x; VI y] end.
Definition enc_cb (cb : control_block) : val :=
  VL [VI (cb_version cb); VI (cb_parity cb); enc_point (cb_key cb); vbl (cb_hashes cb)].
Fixpoint enc_tree (t : taptree) : val :=
  match t with
  | Leaf v sc => VL [VI 0; VI v; enc_script sc]
  | Branch l r => VL [VI 1; enc_tree l; enc_tree r]
  end.

Definition K := secp256k1.

Definition enc_leaf (lf : leaf) : val := VL [VI (fst lf); enc_script (snd lf)].

(* harness glue: the honest script-path pipeline as one composition — build the control block,
   serialize, parse, compare with ==, and run the commitment check on [raw script; control block] *)
Definition spend_pipeline (sha : bytes -> bytes) (t : taptree) (P : point) (lf : leaf)
  : result (bytes * bool * bool) :=
  ocb <- tree_control_block K sha t P lf ;;
  match ocb with
  | None => Err
  | Some cb =>
      raw <- cb_serialize cb ;;
      cb' <- cb_parse K raw ;;
      e <- cb_eqb cb' cb ;;
      rs <- raw_serialize (snd lf) ;;
      Q <- tree_external_pubkey K sha t P ;;
      ok <- script_path_commit_check K sha (xonly Q) [rs; raw] ;;
      Ok (raw, e, ok)
  end.

Definition dispatch (H : oracle) (fn : list Z) (args : list val) : val :=
  let sha := o_sha256 H in
  if fn_is "blt" fn then
    match args with [VB a; VB b] => vbool (blt a b) | _ => bad_args end
  else if fn_is "leaf_hash" fn then
    match args with
    | [lf] => match dec_leaf lf with
              | Some (v, sc) => vres_b (tap_leaf_hash sha v sc) | None => bad_args end
    | _ => bad_args end
  else if fn_is "tree_hash" fn then
    match args with
    | [t] => match dec_tree t with Some tr => vres_b (tree_hash sha tr) | None => bad_args end
    | _ => bad_args end
  else if fn_is "path_hashes" fn then
    match args with
    | [t; lf] => match dec_tree t, dec_leaf lf with
                 | Some tr, Some l => vres (vopt vbl) (path_hashes sha tr l)
                 | _, _ => bad_args end
    | _ => bad_args end
  else if fn_is "control_block" fn then
    match args with
    | [t; pt; lf] => match dec_tree t, dec_point pt, dec_leaf lf with
                     | Some tr, Some p, Some l => vres (vopt enc_cb) (tree_control_block K sha tr p l)
                     | _, _, _ => bad_args end
    | _ => bad_args end
  else if fn_is "tree_external_pubkey" fn then
    match args with
    | [t; pt] => match dec_tree t, dec_point pt with
                 | Some tr, Some p => vres enc_point (tree_external_pubkey K sha tr p)
                 | _, _ => bad_args end
    | _ => bad_args end
  else if fn_is "cb_serialize" fn then
    match args with
    | [c] => match dec_cb c with Some cb => vres_b (cb_serialize cb) | None => bad_args end
    | _ => bad_args end
  else if fn_is "cb_parse" fn then
    match args with [VB b] => vres enc_cb (cb_parse K b) | _ => bad_args end
  else if fn_is "cb_merkle_root" fn then
    match args with
    | [c; sc] => match dec_cb c, dec_script sc with
                 | Some cb, Some s => vres_b (cb_merkle_root sha cb s)
                 | _, _ => bad_args end
    | _ => bad_args end
  else if fn_is "cb_external_pubkey" fn then
    match args with
    | [c; sc] => match dec_cb c, dec_script sc with
                 | Some cb, Some s => vres enc_point (cb_external_pubkey K sha cb s)
                 | _, _ => bad_args end
    | _ => bad_args end
  else if fn_is "tweak" fn then
    match args with
    | [pt; VB root] => match dec_point pt with Some p => VB (tweak sha p root) | None => bad_args end
    | _ => bad_args end
  else if fn_is "tweaked_key" fn then
    match args with
    | [pt; VB root] => match dec_point pt with
                       | Some p => vres enc_point (tweaked_key K sha p root) | None => bad_args end
    | _ => bad_args end
  else if fn_is "priv_tweaked_key" fn then
    match args with
    | [VI secret; VB root] =>
        vres (fun ns => VL [VI ns; vres enc_point (pubkey K ns)]) (priv_tweaked_key K sha secret root)
    | _ => bad_args end
  else if fn_is "pubkey" fn then
    match args with [VI secret] => vres enc_point (pubkey K secret) | _ => bad_args end
  else if fn_is "has_annex" fn then
    match args with
    | [VL items] => match vals_bytes items with Some it => vbool (has_annex it) | None => bad_args end
    | _ => bad_args end
  else if fn_is "witness_control_block" fn then
    match args with
    | [VL items] => match vals_bytes items with
                    | Some it => vres enc_cb (witness_control_block K it) | None => bad_args end
    | _ => bad_args end
  else if fn_is "witness_tap_script" fn then
    match args with
    | [VL items] => match vals_bytes items with
                    | Some it => vres enc_script (witness_tap_script it) | None => bad_args end
    | _ => bad_args end
  else if fn_is "commit_check" fn then
    match args with
    | [VB q; VL items] => match vals_bytes items with
                          | Some it => vres_bool (script_path_commit_check K sha q it)
                          | None => bad_args end
    | _ => bad_args end
  else if fn_is "combine" fn then
    match args with
    | [VL ts] => match dec_list dec_tree ts with
                 | Some l => vres enc_tree (combine_nodes (length l) l) | None => bad_args end
    | _ => bad_args end
  else if fn_is "cb_eq" fn then
    match args with
    | [a; b] => match dec_cb a, dec_cb b with
                | Some x, Some y => vres_bool (cb_eqb x y) | _, _ => bad_args end
    | _ => bad_args end
  else if fn_is "leaf_control_block_default" fn then
    match args with
    | [lf; pt] => match dec_leaf lf, dec_point pt with
                  | Some (v, sc), Some p => vres enc_cb (leaf_control_block_default K sha v sc p)
                  | _, _ => bad_args end
    | _ => bad_args end
  else if fn_is "tap_leaf_default" fn then
    match args with
    | [sc] => match dec_script sc with
              | Some s => enc_leaf (tapscript_tap_leaf s) | None => bad_args end
    | _ => bad_args end
  else if fn_is "witness_tap_leaf" fn then
    match args with
    | [VL items] => match vals_bytes items with
                    | Some it => vres enc_leaf (witness_tap_leaf K it) | None => bad_args end
    | _ => bad_args end
  else if fn_is "witness_tap_leaf_hash" fn then
    match args with
    | [VL items] => match vals_bytes items with
                    | Some it => vres_b (witness_tap_leaf_hash K sha it) | None => bad_args end
    | _ => bad_args end
  else if fn_is "spend_pipeline" fn then
    match args with
    | [t; pt; lf] => match dec_tree t, dec_point pt, dec_leaf lf with
                     | Some tr, Some p, Some l =>
                         vres (fun '(raw, e, ok) => VL [VB raw; vbool e; vbool ok]) (spend_pipeline sha tr p l)
                     | _, _, _ => bad_args end
    | _ => bad_args end
  else bad_args.
