(* Dispatch/DC15.v — entry points of the C15 model (SLIP39) for the correspondence check.
   "*_fast" entry points run the same model code with a one-hash stub in place of
   hashlib.pbkdf2_hmac (the harness installs the same stub in buidl.shamir), so that the
   share logic is exercised on many cases; the plain entry points use RFC 8018 PBKDF2
   (Spec/Pbkdf2S.v) over the HMAC-SHA256 oracle. *)
From Coq Require Import String.
From V Require Import Base.Prelude Base.Ints Base.Disp Model.Mnemonic Model.Shamir Spec.Pbkdf2S
  Spec.ShamirSplitS Generated.Wordlists.
Open Scope string_scope.
Open Scope Z_scope.

Definition arg_text (v : val) : option (list Z) :=
  match v with VB b => Some b | VL l => vals_ints l | _ => None end.

Fixpoint args_texts (l : list val) : option (list (list Z)) :=
  match l with
  | [] => Some []
  | v :: r => match arg_text v, args_texts r with
              | Some t, Some ts => Some (t :: ts) | _, _ => None end
  end.

(* [(x, bytes)] *)
Fixpoint args_points (l : list val) : option (list (Z * bytes)) :=
  match l with
  | [] => Some []
  | VL [VI x; VB b] :: r => match args_points r with Some t => Some ((x, b) :: t) | None => None end
  | _ => None
  end.

Definition vpoints (l : list (Z * bytes)) : val := VL (map (fun p => VL [VI (fst p); VB (snd p)]) l).

Definition vshare (s : share) : val :=
  VL [VI (sh_bits s); VI (sh_id s); VI (sh_exp s); VI (sh_gi s); VI (sh_gt s); VI (sh_gc s);
      VI (sh_mi s); VI (sh_mt s); VI (sh_value s); VB (sh_bytes s)].

Definition small (z : Z) : bool := (-100000 <? z) && (z <? 100000).

Definition arg_share (v : val) : option (result share) :=
  match v with
  | VL [VI bits; VI id; VI e; VI gi; VI gt; VI gc; VI mi; VI mt; VI value] =>
      if small bits then Some (mk_share bits id e gi gt gc mi mt value) else None
  | _ => None
  end.

Fixpoint args_shares (l : list val) : option (result (list share)) :=
  match l with
  | [] => Some (Ok [])
  | v :: r => match arg_share v, args_shares r with
              | Some a, Some b => Some (s <- a ;; t <- b ;; Ok (s :: t))
              | _, _ => None end
  end.

(* hashlib.pbkdf2_hmac("sha256", ...): raises for dklen < 1, iterations < 1 or > 2^31-1 *)
Definition real_kdf (H : oracle) (p s : bytes) (c n : Z) : result bytes :=
  if (n <? 1) || (c <? 1) || (2147483647 <? c) then Err
  else pbkdf2 (o_hmac_sha256 H) 32 p s c n.

(* the stub installed by the harness in place of pbkdf2_hmac *)
Definition stub_kdf (H : oracle) (p s : bytes) (c n : Z) : result bytes :=
  if (n <? 1) || (32 <? n) || (c <? 1) || (4294967295 <? c) then Err
  else Ok (firstn (Z.to_nat n) (o_sha256 H (to_be 4 c ++ to_be 2 (zlen p) ++ p ++ s))).

Definition kdf_of (H : oracle) (fast : bool) := if fast then stub_kdf H else real_kdf H.

Definition dispatch (H : oracle) (fn : list Z) (args : list val) : val :=
  let sha := o_sha256 H in
  let hm := o_hmac_sha256 H in
  let fast := fn_is "encrypt_fast" fn || fn_is "decrypt_fast" fn || fn_is "generate_shares_fast" fn ||
              fn_is "recover_mnemonic_fast" fn || fn_is "recover_shares_fast" fn ||
              fn_is "crypt_fast" fn || fn_is "decrypt_ss_fast" fn in
  let kdf := kdf_of H fast in
  if fn_is "rs1024_polymod" fn then
    match args with
    | [VL l] => match vals_ints l with Some v => VI (rs1024_polymod v) | None => bad_args end
    | _ => bad_args end
  else if fn_is "rs1024_create" fn then
    match args with
    | [VB cs; VL l] => match vals_ints l with Some v => vil (rs1024_create_checksum cs v) | None => bad_args end
    | _ => bad_args end
  else if fn_is "rs1024_verify" fn then
    match args with
    | [VB cs; VL l] => match vals_ints l with Some v => vbool (rs1024_verify_checksum cs v) | None => bad_args end
    | _ => bad_args end
  else if fn_is "share_parse" fn then
    match args with
    | [t] => match arg_text t with
             | Some s => vres vshare (share_parse slip39_words s) | None => bad_args end
    | _ => bad_args end
  else if fn_is "share_mnemonic" fn then
    match args with
    | [v] => match arg_share v with
             | Some rs => vres_b (s <- rs ;; share_mnemonic slip39_words s) | None => bad_args end
    | _ => bad_args end
  else if fn_is "gf_tables" fn then VL [vil exp_tbl; vil log_tbl]
  else if fn_is "interpolate" fn then
    match args with
    | [VI x; VL l] => match args_points l with Some sd => vres_b (interpolate x sd) | None => bad_args end
    | _ => bad_args end
  else if fn_is "recover_secret" fn then
    match args with
    | [VL l] => match args_points l with Some sd => vres_b (recover_secret hm sd) | None => bad_args end
    | _ => bad_args end
  else if fn_is "split_secret" fn then
    match args with
    | [VB secret; VI k; VI n; VB rnd] =>
        if small k && small n then vres vpoints (split_secret hm secret k n rnd) else bad_args
    | _ => bad_args end
  else if fn_is "encrypt" fn || fn_is "encrypt_fast" fn then
    match args with
    | [VB p; VI id; VI e; VB pass] => if small e then vres_b (encrypt kdf p id e pass) else bad_args
    | _ => bad_args end
  else if fn_is "decrypt" fn || fn_is "decrypt_fast" fn then
    match args with
    | [VB p; VI id; VI e; VB pass] =>
        if small e then vres_b (crypt kdf p id e pass [3; 2; 1; 0]) else bad_args
    | _ => bad_args end
  else if fn_is "generate_shares" fn || fn_is "generate_shares_fast" fn then
    match args with
    | [t; VI k; VI n; VB pass; VI e; VI id; VB rnd] =>
        match arg_text t with
        | Some m =>
            if small k && small n && small e then
              vres vbl (generate_shares sha hm kdf bip39_words slip39_words m k n pass e id rnd)
            else bad_args
        | None => bad_args end
    | _ => bad_args end
  else if fn_is "recover_mnemonic" fn || fn_is "recover_mnemonic_fast" fn then
    match args with
    | [VL ms; VB pass] =>
        match args_texts ms with
        | Some l => vres_b (recover_mnemonic sha hm kdf bip39_words slip39_words l pass)
        | None => bad_args end
    | _ => bad_args end
  else if fn_is "recover_shares_fast" fn then
    match args with
    | [VL l; VB pass] =>
        match args_shares l with
        | Some rs => vres_b (shares <- rs ;; ss <- shareset_init shares ;; recover hm kdf ss pass)
        | None => bad_args end
    | _ => bad_args end
  (* ---- deepening round: glue that was only reached through larger entry points ---- *)
  else if fn_is "digest" fn then
    match args with
    | [VB random; VB secret] => VB (digest hm random secret)
    | _ => bad_args end
  else if fn_is "shareset_fields" fn then        (* ShareSet.__init__: the attributes it sets *)
    match args with
    | [VL l] =>
        match args_shares l with
        | Some rs => vres (fun ss => VL [VI (ss_id ss); VB (ss_salt ss); VI (ss_exp ss); VI (ss_gt ss);
                                         VI (ss_gc ss); VI (ss_bits ss); VI (zlen (ss_shares ss))])
                          (shares <- rs ;; shareset_init shares)
        | None => bad_args end
    | _ => bad_args end
  else if fn_is "decrypt_ss_fast" fn then        (* ShareSet(shares).decrypt(payload, passphrase) *)
    match args with
    | [VL l; VB p; VB pass] =>
        match args_shares l with
        | Some rs => vres_b (shares <- rs ;; ss <- shareset_init shares ;; decrypt kdf ss p pass)
        | None => bad_args end
    | _ => bad_args end
  else if fn_is "crypt_fast" fn then             (* ShareSet._crypt with an arbitrary round list *)
    match args with
    | [VB p; VI id; VI e; VB pass; VB idxs] =>
        if small e then vres_b (crypt kdf p id e pass idxs) else bad_args
    | _ => bad_args end
  else if fn_is "share_reencode" fn then         (* Share.parse(text).mnemonic() *)
    match args with
    | [t] => match arg_text t with
             | Some m => vres_b (s <- share_parse slip39_words m ;; share_mnemonic slip39_words s)
             | None => bad_args end
    | _ => bad_args end
  else if fn_is "split_with" fn then             (* split_secret with its random draws and digest fixed *)
    match args with
    | [VL l; VB ds; VB secret; VI k; VI n] =>
        match args_points l with
        | Some sd =>
            if small k && small n then
              if (2 <=? k) && (k <=? n) && (n <=? 16) &&
                 ((zlen secret =? 16) || (zlen secret =? 32)) && (zlen ds =? zlen secret) &&
                 beq (map fst sd) (zrange 0 (Z.to_nat (k - 2))) &&
                 forallb (fun p => zlen (snd p) =? zlen secret) sd
              then vres vpoints (split_with sd ds secret k n) else VErr
            else bad_args
        | None => bad_args end
    | _ => bad_args end
  else bad_args.
