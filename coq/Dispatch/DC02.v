(* Dispatch/DC02.v — entry points of the BIP340 model (Model/Pecc.v, Model/Phash.v) and of
   the spec (Spec/Bip340.v) on secp256k1 for the correspondence check. *)
From Coq Require Import String.
From V Require Import Base.Prelude Base.Ints Base.Disp Model.Pecc Model.Phash Proofs.GroupHyp
  Spec.Bip340.
Open Scope string_scope.
Open Scope Z_scope.

Definition K1 := secp256k1.

Definition vpt (P : point) : val :=
  match P with None => VL [] | Some (x, y) => VL [VI x; VI y] end.
Definition vopt_b (o : option bytes) : val := match o with Some b => VB b | None => VErr end.

Fixpoint arg_calls (l : list val) : option (list (bytes * bytes)) :=
  match l with
  | [] => Some []
  | VL [VB t; VB m] :: r => match arg_calls r with Some x => Some ((t, m) :: x) | None => None end
  | _ => None
  end.

(* a point object given by the arguments of the constructor S256Point(x, y); [] = S256Point(None, None) *)
Definition arg_point (v : val) : option (result point) :=
  match v with
  | VL [] => Some (Ok None)
  | VL [VI x; VI y] => Some (mk_point_int K1 x y)
  | _ => None
  end.

Fixpoint arg_session (l : list val) : option (list api_call) :=
  match l with
  | [] => Some []
  | c :: r =>
      match arg_session r with
      | None => None
      | Some rest =>
          match c with
          | VL [VI 0; VB t; VB m] => Some (CallHash t m :: rest)
          | VL [VI 1; VI d; VB m; VB a] => Some (CallSign d m a :: rest)
          | VL [VI 2; VB pk; VB m; VB sig] => Some (CallVerify pk m sig :: rest)
          | _ => None
          end
      end
  end.

Definition vout (o : api_out) : val :=
  match o with
  | OutHash h => VB h
  | OutSign r => vres_b r
  | OutVerify r => vres_bool r
  end.

Definition vsig (rs : point * Z) : val := let '(r, s) := rs in VL [vpt r; VI s].

Definition dispatch (H : oracle) (fn : list Z) (args : list val) : val :=
  let sha := o_sha256 H in
  if fn_is "sign_schnorr" fn then
    match args with
    | [VI d; VB m; VB a] => vres_b (schnorr_sign K1 sha d m a)
    | _ => bad_args end
  else if fn_is "bip340_sign" fn then
    match args with
    | [VI d; VB m; VB a] => vopt_b (bip340_sign K1 sha d m a)
    | _ => bad_args end
  else if fn_is "bip340_k" fn then
    match args with
    | [VI d; VB m; VB a] => vres_i (bip340_k K1 sha d m a)
    | _ => bad_args end
  else if fn_is "verify_schnorr" fn then
    match args with
    | [VB pk; VB m; VB sig] => vres_bool (schnorr_verify_bytes K1 sha pk m sig)
    | _ => bad_args end
  else if fn_is "bip340_verify" fn then
    match args with
    | [VB pk; VB m; VB sig] => vbool (bip340_verify K1 sha pk m sig)
    | _ => bad_args end
  else if fn_is "schnorr_parse" fn then
    match args with
    | [VB sig] => vres (fun '(r, s) => VL [vpt r; VI s]) (schnorr_parse K1 sig)
    | _ => bad_args end
  else if fn_is "parse_point" fn then
    match args with [VB b] => vres vpt (parse_point K1 b) | _ => bad_args end
  else if fn_is "lift_x" fn then
    match args with
    | [VI x] => match lift_x K1 x with Some P => vpt P | None => VErr end
    | _ => bad_args end
  else if fn_is "tagged_hash" fn then
    match args with [VB t; VB m] => VB (tagged_hash sha t m) | _ => bad_args end
  else if fn_is "tagged_hash_history" fn then
    match args with
    | [VL calls] =>
        match arg_calls calls with
        | Some cs => vbl (snd (th_run sha [] cs))
        | None => bad_args
        end
    | _ => bad_args end
  (* ---- the object-level API, defaults, any-length strings, the cache as state ---- *)
  else if fn_is "sign_schnorr_noaux" fn then
    match args with
    | [VI d; VB m] => vres_b (schnorr_sign_opt K1 sha d m None)
    | _ => bad_args end
  else if fn_is "bip340_k_noaux" fn then
    match args with
    | [VI d; VB m] => vres_i (bip340_k_opt K1 sha d m None)
    | _ => bad_args end
  else if fn_is "bip340_nonce" fn then
    match args with
    | [VI d; VB m; VB a] => match bip340_nonce K1 sha d m a with Some k => VI k | None => VErr end
    | _ => bad_args end
  else if fn_is "sign_schnorr_obj" fn then
    match args with
    | [VI d; VB m; VB a] => vres vsig (schnorr_sign_obj K1 sha d m a)
    | _ => bad_args end
  else if fn_is "schnorr_parse_eq" fn then
    match args with
    | [VB a; VB b] => vres_bool (schnorr_parse_eq K1 a b)
    | _ => bad_args end
  else if fn_is "schnorr_reserialize" fn then
    match args with
    | [VB sig] => vres_b (schnorr_reserialize K1 sig)
    | _ => bad_args end
  else if fn_is "verify_schnorr_point" fn then
    match args with
    | [pv; VB m; VB sig] =>
        match arg_point pv with
        | Some rp => vres_bool (P <- rp ;; schnorr_verify_point K1 sha P m sig)
        | None => bad_args
        end
    | _ => bad_args end
  else if fn_is "verify_schnorr_obj" fn then
    (* S256Point(x, y).verify_schnorr(m, SchnorrSignature(S256Point(rx, ry), s)) for any integer s *)
    match args with
    | [pv; VB m; rv; VI s] =>
        match arg_point pv, arg_point rv with
        | Some rp, Some rr =>
            vres_bool (P <- rp ;; R <- rr ;;
                       if cn K1 <=? s then Err else schnorr_verify K1 sha P m R s)
        | _, _ => bad_args
        end
    | _ => bad_args end
  else if fn_is "bip340_verify_canon" fn then
    match args with
    | [VB pk; VB m; VB sig] => vbool (bip340_verify K1 sha pk m (sig_canon sig))
    | _ => bad_args end
  else if fn_is "api_session" fn then
    match args with
    | [VL calls] =>
        match arg_session calls with
        | Some cs =>
            let '(c, outs) := api_run K1 sha [] cs in
            VL [VL (map vout outs); vbl (map fst c)]
        | None => bad_args
        end
    | _ => bad_args end
  else bad_args.
