(* Dispatch/DC02.v — entry points of the BIP340 model (Model/Pecc.v, Model/Phash.v) and of
   the spec (Spec/Bip340.v) on secp256k1 for the correspondence check. *)
From Coq Require Import String.
From V Require Import Base.Prelude Base.Ints Base.Disp Model.Pecc Model.Phash Proofs.GroupHyp
  Spec.Bip340.
Open Scope string_scope.
Open Scope Z_scope.

Definition K1 := secp256k1.

Definition vpt (P : point) : val :=
  match P with None => VL [] | Some (x, y) => VL [VI x; VI y] end.
Definition vopt_b (o : option bytes) : val := match o with Some b => VB b | None => VErr end.

Fixpoint arg_calls (l : list val) : option (list (bytes * bytes)) :=
  match l with
  | [] => Some []
  | VL [VB t; VB m] :: r => match arg_calls r with Some x => Some ((t, m) :: x) | None => None end
  | _ => None
  end.

Definition dispatch (H : oracle) (fn : list Z) (args : list val) : val :=
  let sha := o_sha256 H in
  if fn_is "sign_schnorr" fn then
    match args with
    | [VI d; VB m; VB a] => vres_b (schnorr_sign K1 sha d m a)
    | _ => bad_args end
  else if fn_is "bip340_sign" fn then
    match args with
    | [VI d; VB m; VB a] => vopt_b (bip340_sign K1 sha d m a)
    | _ => bad_args end
  else if fn_is "bip340_k" fn then
    match args with
    | [VI d; VB m; VB a] => vres_i (bip340_k K1 sha d m a)
    | _ => bad_args end
  else if fn_is "verify_schnorr" fn then
    match args with
    | [VB pk; VB m; VB sig] => vres_bool (schnorr_verify_bytes K1 sha pk m sig)
    | _ => bad_args end
  else if fn_is "bip340_verify" fn then
    match args with
    | [VB pk; VB m; VB sig] => vbool (bip340_verify K1 sha pk m sig)
    | _ => bad_args end
  else if fn_is "schnorr_parse" fn then
    match args with
    | [VB sig] => vres (fun '(r, s) => VL [vpt r; VI s]) (schnorr_parse K1 sig)
    | _ => bad_args end
  else if fn_is "parse_point" fn then
    match args with [VB b] => vres vpt (parse_point K1 b) | _ => bad_args end
  else if fn_is "lift_x" fn then
    match args with
    | [VI x] => match lift_x K1 x with Some P => vpt P | None => VErr end
    | _ => bad_args end
  else if fn_is "tagged_hash" fn then
    match args with [VB t; VB m] => VB (tagged_hash sha t m) | _ => bad_args end
  else if fn_is "tagged_hash_history" fn then
    match args with
    | [VL calls] =>
        match arg_calls calls with
        | Some cs => vbl (snd (th_run sha [] cs))
        | None => bad_args
        end
    | _ => bad_args end
  else bad_args.
