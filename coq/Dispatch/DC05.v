(* Dispatch/DC05.v -- entry points of the C05 model and of the extracted specifications.

   Value encodings (built by harness/props/c05.py), [x..] = list of x, x? = empty list or [x]:
     script  = [ [cmd..] raw? ]          cmd = int (opcode) | bytes (push)
     txin    = [ prev_tx prev_index script sequence [witness-item..] ]
     txout   = [ amount script ]
     tx      = [ version [txin..] [txout..] locktime ]
     spent   = [ value script ]
     alg     = [0 script?] | [1 script? script?] | [2 ext_flag] | [3]
     op      = [0 alg idx ht] | [1 k txout] | [2 k txin spent] | [3 k seq] | [4 locktime] | [5 k [item..]]
   Result of a digest call: [ alg preimage? digest ], digest an int (legacy, BIP143) or bytes.
   Signature sites (Model/SighashSig.v, primitives = Model/Pecc.v on secp256k1):
     op_checksig / op_checkmultisig / op_checksig_schnorr / op_checksigadd_schnorr
                         tx spent idx [stack item.., top last]  ->  the stack afterwards, or ERR
     get_sig_legacy      tx spent idx secret script?            ->  signature bytes
     get_sig_segwit      tx spent idx secret script? script?
     get_sig_taproot     tx spent idx secret ext_flag hash_type aux
     check_sig_legacy    tx spent idx sec der script?           ->  0/1
     check_sig_segwit    tx spent idx sec der script? script?
     verify_input        tx spent idx                           ->  0/1
     sign_input          tx spent idx secret compressed script? hash_type
     sign_p2pkh / sign_p2wpkh / sign_p2sh_p2wpkh   tx spent idx secret compressed
     sign_p2tr_keypath   tx spent idx secret hash_type aux
                         ->  [ script_sig [witness-item..] verdict ] of the signed input
     sign_many           tx spent [[idx secret compressed script? hash_type]..]
                         ->  [ [[script_sig [witness-item..]]..per input] [verdict..per step] [verdict..per input] ]
     taproot_sig_rule    sig  ->  [] (BIP341: invalid) or [[sig64 hash_type]]  (Spec/SigHashType.v) *)
From Coq Require Import String.
From V Require Import Base.Prelude Base.Ints Base.Disp Model.Helper Model.Script Model.Op Model.Interp
  Model.Pecc Model.Tx Model.Sighash Model.SighashAbs Model.SighashSig Spec.TxData Spec.SighashStd
  Spec.SigHashType.
Open Scope string_scope.
Open Scope Z_scope.

Fixpoint dec_list {A} (f : val -> option A) (l : list val) : option (list A) :=
  match l with
  | [] => Some []
  | v :: r => match f v, dec_list f r with Some a, Some t => Some (a :: t) | _, _ => None end
  end.

Definition dec_cmd (v : val) : option cmd :=
  match v with VI o => Some (Op o) | VB b => Some (Push b) | _ => None end.
Definition dec_bytes (v : val) : option bytes := match v with VB b => Some b | _ => None end.

Definition dec_script (v : val) : option script :=
  match v with
  | VL [VL cs; VL []] =>
      match dec_list dec_cmd cs with Some c => Some {| s_cmds := c; s_raw := None |} | None => None end
  | VL [VL cs; VL [VB raw]] =>
      match dec_list dec_cmd cs with Some c => Some {| s_cmds := c; s_raw := Some raw |} | None => None end
  | _ => None
  end.
Definition dec_opt_script (v : val) : option (option script) :=
  match v with
  | VL [] => Some None
  | VL [s] => match dec_script s with Some x => Some (Some x) | None => None end
  | _ => None
  end.
Definition dec_txin (v : val) : option txin :=
  match v with
  | VL [VB pt; VI pi; sc; VI sq; VL w] =>
      match dec_script sc, dec_list dec_bytes w with
      | Some s, Some wi => Some {| i_prev_tx := pt; i_prev_index := pi; i_script := s;
                                   i_sequence := sq; i_witness := wi |}
      | _, _ => None
      end
  | _ => None
  end.
Definition dec_txout (v : val) : option txout :=
  match v with
  | VL [VI am; sc] =>
      match dec_script sc with Some s => Some {| o_amount := am; o_script := s |} | None => None end
  | _ => None
  end.
Definition dec_spent (v : val) : option spent :=
  match v with
  | VL [VI am; sc] =>
      match dec_script sc with Some s => Some {| sp_value := am; sp_script := s |} | None => None end
  | _ => None
  end.
Definition dec_tx (v : val) : option tx :=
  match v with
  | VL [VI ver; VL ins; VL outs; VI lt] =>
      match dec_list dec_txin ins, dec_list dec_txout outs with
      | Some i, Some o => Some {| t_version := ver; t_ins := i; t_outs := o; t_locktime := lt;
                                  t_segwit := true |}
      | _, _ => None
      end
  | _ => None
  end.
Definition dec_spents (v : val) : option (list spent) :=
  match v with VL l => dec_list dec_spent l | _ => None end.

(* indices come from the harness and are small; anything else is a harness bug *)
Definition dec_nat (z : Z) : option nat :=
  if (0 <=? z) && (z <? 100000) then Some (Z.to_nat z) else None.

Definition dec_alg (v : val) : option alg :=
  match v with
  | VL [VI 0; r] => match dec_opt_script r with Some x => Some (ALegacy x) | None => None end
  | VL [VI 1; r; w] =>
      match dec_opt_script r, dec_opt_script w with
      | Some x, Some y => Some (ABip143 x y)
      | _, _ => None
      end
  | VL [VI 2; VI e] => Some (ABip341 e)
  | VL [VI 3] => Some ADispatch
  | _ => None
  end.

Definition dec_op (v : val) : option op :=
  match v with
  | VL [VI 0; a; VI idx; VI ht] =>
      match dec_alg a, dec_nat idx with Some x, Some i => Some (Query x i ht) | _, _ => None end
  | VL [VI 1; VI k; o] =>
      match dec_nat k, dec_txout o with Some i, Some x => Some (EditOutput i x) | _, _ => None end
  | VL [VI 2; VI k; i; s] =>
      match dec_nat k, dec_txin i, dec_spent s with
      | Some n, Some x, Some y => Some (EditInput n x y)
      | _, _, _ => None
      end
  | VL [VI 3; VI k; VI sq] =>
      match dec_nat k with Some n => Some (EditSequence n sq) | None => None end
  | VL [VI 4; VI lt] => Some (EditLocktime lt)
  | VL [VI 5; VI k; VL w] =>
      match dec_nat k, dec_list dec_bytes w with
      | Some n, Some x => Some (EditWitness n x)
      | _, _ => None
      end
  | _ => None
  end.

Definition vopt_b (o : option bytes) : val := match o with Some b => VL [VB b] | None => VL [] end.
Definition vdigest (d : digest) : val := match d with DInt z => VI z | DBytes b => VB b end.
Definition vout (o : sh_out) : val := VL [VI (so_alg o); vopt_b (so_pre o); vdigest (so_digest o)].

Definition res_is_ok {A} (r : result A) : bool := match r with Ok _ => true | Err => false end.

Definition vcmd (c : cmd) : val := match c with Op o => VI o | Push b => VB b end.
Definition vscript (s : script) : val :=
  VL [VL (map vcmd (s_cmds s)); match s_raw s with Some r => VL [VB r] | None => VL [] end].
Definition voutcome (o : outcome) : val :=
  match o with OTrue => VI 1 | OFalse => VI 0 | OSpecial => VI 2 end.
Definition dec_bool (z : Z) : bool := negb (z =? 0).
Definition dec_step (v : val) : option (nat * Z * bool * option script * Z) :=
  match v with
  | VL [VI idx; VI secret; VI compressed; r; VI ht] =>
      match dec_nat idx, dec_opt_script r with
      | Some i, Some r' => Some (i, secret, dec_bool compressed, r', ht)
      | _, _ => None
      end
  | _ => None
  end.

Section Inst.
Variable H : oracle.
Definition h256 := o_hash256 H.
Definition s256 := o_sha256 H.
Definition tsh := tagged_hash s256 tag_tapsighash.
Definition tlf := tagged_hash s256 tag_tapleaf.
Definition xok (b : bytes) : bool := res_is_ok (parse_xonly secp256k1 b).

(* the signature sites of Model/SighashSig.v with the primitives of Model/Pecc.v on secp256k1 *)
Definition prims : sigprims := pecc_prims secp256k1 (o_hmac_sha256 H) s256 200.
Definition sites_ops (t : tx) (sp : list spent) (idx : nat) : sigops :=
  tx_sigops h256 s256 tsh tlf xok prims t sp idx memo_empty.
(* the Python stack has its top LAST *)
Definition run_stack_op (f : sigops -> stack -> result stack) (t : tx) (sp : list spent) (idx : nat)
  (st : list bytes) : val :=
  vres (fun s => vbl (rev s)) (f (sites_ops t sp idx) (rev st)).
Definition vsigned (idx : nat) (r : result (tx * outcome)) : val :=
  vres (fun '(t', o) =>
          match nth_error (t_ins t') idx with
          | Some ti => VL [vscript (i_script ti); vbl (i_witness ti); voutcome o]
          | None => VErr
          end) r.
Definition SITES {A} (f : (bytes -> bytes) -> (bytes -> bytes) -> (bytes -> bytes) -> (bytes -> bytes) ->
                          (bytes -> bool) -> sigprims -> curve ->
                          (bytes -> bytes) -> (bytes -> bytes) -> (bytes -> bytes) -> A) : A :=
  f h256 s256 tsh tlf xok prims secp256k1 (o_ripemd160 H) (o_sha1 H) (o_hash160 H).

(* the specification evaluated on the transaction denoted by the arguments *)
Definition spec_sig_hash (t : tx) (sp : list spent) (idx : nat) (ht : Z) : result val :=
  ct <- abs_tx t ;;
  coins <- abs_list abs_spent sp ;;
  match nth_error (t_ins t) idx with
  | None => Err
  | Some ti =>
      match std_sighash h256 s256 tsh tlf xok ct coins idx ht (last_push (i_script ti)) (i_witness ti) with
      | None => Err
      | Some o =>
          Ok (VL [VI (sd_alg o); vopt_b (sd_pre o);
                  if sd_alg o =? 341 then VB (sd_digest o) else VI (from_be (sd_digest o))])
      end
  end.
End Inst.

Definition dispatch (H : oracle) (fn : list Z) (args : list val) : val :=
  if fn_is "has_annex" fn then
    match args with
    | [VL w] => match dec_list dec_bytes w with Some x => vbool (has_annex x) | None => bad_args end
    | _ => bad_args end
  else if fn_is "legacy" fn then
    match args with
    | [t; sp; VI idx; r; VI ht] =>
        match dec_tx t, dec_spents sp, dec_nat idx, dec_opt_script r with
        | Some t', Some sp', Some i, Some r' =>
            vres (fun '(p, d) => VL [vopt_b p; VI d]) (sig_hash_legacy (h256 H) t' sp' i r' ht)
        | _, _, _, _ => bad_args
        end
    | _ => bad_args end
  else if fn_is "bip143" fn then
    match args with
    | [t; sp; VI idx; r; w; VI ht] =>
        match dec_tx t, dec_spents sp, dec_nat idx, dec_opt_script r, dec_opt_script w with
        | Some t', Some sp', Some i, Some r', Some w' =>
            vres (fun '(_, (p, d)) => VL [VB p; VI d])
                 (sig_hash_bip143 (h256 H) t' sp' i r' w' ht memo_empty)
        | _, _, _, _, _ => bad_args
        end
    | _ => bad_args end
  else if fn_is "bip341" fn then
    match args with
    | [t; sp; VI idx; VI ext; VI ht] =>
        match dec_tx t, dec_spents sp, dec_nat idx with
        | Some t', Some sp', Some i =>
            vres (fun '(_, (p, d)) => VL [VB p; VB d])
                 (sig_hash_bip341 (s256 H) (tsh H) (tlf H) (xok) t' sp' i ext ht memo_empty)
        | _, _, _ => bad_args
        end
    | _ => bad_args end
  else if fn_is "tap_leaf" fn then
    match args with
    | [VL w] =>
        match dec_list dec_bytes w with
        | Some x => vres (fun p => VL [VB p; VB (tlf H p)]) (tap_leaf_preimage xok x)
        | None => bad_args
        end
    | _ => bad_args end
  else if fn_is "sig_hash" fn then
    match args with
    | [t; sp; VI idx; VI ht] =>
        match dec_tx t, dec_spents sp, dec_nat idx with
        | Some t', Some sp', Some i =>
            vres (fun '(_, o) => vout o)
                 (sig_hash (h256 H) (s256 H) (tsh H) (tlf H) xok t' sp' i ht memo_empty)
        | _, _, _ => bad_args
        end
    | _ => bad_args end
  else if fn_is "spec_sig_hash" fn then
    match args with
    | [t; sp; VI idx; VI ht] =>
        match dec_tx t, dec_spents sp, dec_nat idx with
        | Some t', Some sp', Some i => vres (fun v => v) (spec_sig_hash H t' sp' i ht)
        | _, _, _ => bad_args
        end
    | _ => bad_args end
  else if fn_is "history" fn then
    match args with
    | [t; sp; VL ops] =>
        match dec_tx t, dec_spents sp, dec_list dec_op ops with
        | Some t', Some sp', Some ops' =>
            let '(_, outs) := run (h256 H) (s256 H) (tsh H) (tlf H) xok
                                  {| ob_tx := t'; ob_spent := sp'; ob_memo := memo_empty |} ops' in
            VL (map (vres vout) outs)
        | _, _, _ => bad_args
        end
    | _ => bad_args end
  else if fn_is "op_checksig" fn || fn_is "op_checkmultisig" fn || fn_is "op_checksig_schnorr" fn
          || fn_is "op_checksigadd_schnorr" fn then
    match args with
    | [t; sp; VI idx; VL st] =>
        match dec_tx t, dec_spents sp, dec_nat idx, dec_list dec_bytes st with
        | Some t', Some sp', Some i, Some st' =>
            run_stack_op H (if fn_is "op_checksig" fn then op_checksig
                            else if fn_is "op_checkmultisig" fn then op_checkmultisig
                            else if fn_is "op_checksig_schnorr" fn then op_checksig_schnorr
                            else op_checksigadd_schnorr) t' sp' i st'
        | _, _, _, _ => bad_args
        end
    | _ => bad_args end
  else if fn_is "get_sig_legacy" fn then
    match args with
    | [t; sp; VI idx; VI secret; r] =>
        match dec_tx t, dec_spents sp, dec_nat idx, dec_opt_script r with
        | Some t', Some sp', Some i, Some r' =>
            vres_b (get_sig_legacy (h256 H) (prims H) t' sp' i secret r')
        | _, _, _, _ => bad_args
        end
    | _ => bad_args end
  else if fn_is "get_sig_segwit" fn then
    match args with
    | [t; sp; VI idx; VI secret; r; w] =>
        match dec_tx t, dec_spents sp, dec_nat idx, dec_opt_script r, dec_opt_script w with
        | Some t', Some sp', Some i, Some r', Some w' =>
            vres_b (get_sig_segwit (h256 H) (prims H) t' sp' i memo_empty secret r' w')
        | _, _, _, _, _ => bad_args
        end
    | _ => bad_args end
  else if fn_is "get_sig_taproot" fn then
    match args with
    | [t; sp; VI idx; VI secret; VI ext; VI ht; VB aux] =>
        match dec_tx t, dec_spents sp, dec_nat idx with
        | Some t', Some sp', Some i =>
            vres_b (get_sig_taproot (s256 H) (tsh H) (tlf H) xok (prims H) t' sp' i memo_empty secret ext ht aux)
        | _, _, _ => bad_args
        end
    | _ => bad_args end
  else if fn_is "check_sig_legacy" fn then
    match args with
    | [t; sp; VI idx; VB sec; VB der; r] =>
        match dec_tx t, dec_spents sp, dec_nat idx, dec_opt_script r with
        | Some t', Some sp', Some i, Some r' =>
            vres_bool (check_sig_legacy (h256 H) (prims H) t' sp' i sec der r')
        | _, _, _, _ => bad_args
        end
    | _ => bad_args end
  else if fn_is "check_sig_segwit" fn then
    match args with
    | [t; sp; VI idx; VB sec; VB der; r; w] =>
        match dec_tx t, dec_spents sp, dec_nat idx, dec_opt_script r, dec_opt_script w with
        | Some t', Some sp', Some i, Some r', Some w' =>
            vres_bool (check_sig_segwit (h256 H) (prims H) t' sp' i memo_empty sec der r' w')
        | _, _, _, _, _ => bad_args
        end
    | _ => bad_args end
  else if fn_is "verify_input" fn then
    match args with
    | [t; sp; VI idx] =>
        match dec_tx t, dec_spents sp, dec_nat idx with
        | Some t', Some sp', Some i =>
            vres voutcome (SITES H (@tx_verify_input) t' sp' i memo_empty)
        | _, _, _ => bad_args
        end
    | _ => bad_args end
  else if fn_is "sign_input" fn then
    match args with
    | [t; sp; VI idx; VI secret; VI compressed; r; VI ht] =>
        match dec_tx t, dec_spents sp, dec_nat idx, dec_opt_script r with
        | Some t', Some sp', Some i, Some r' =>
            vsigned i (SITES H (@sign_input) t' sp' i memo_empty secret (dec_bool compressed) r' ht)
        | _, _, _, _ => bad_args
        end
    | _ => bad_args end
  else if fn_is "sign_p2pkh" fn || fn_is "sign_p2wpkh" fn || fn_is "sign_p2sh_p2wpkh" fn then
    match args with
    | [t; sp; VI idx; VI secret; VI compressed] =>
        match dec_tx t, dec_spents sp, dec_nat idx with
        | Some t', Some sp', Some i =>
            vsigned i
              ((if fn_is "sign_p2pkh" fn then SITES H (@sign_p2pkh)
                else if fn_is "sign_p2wpkh" fn then SITES H (@sign_p2wpkh)
                else SITES H (@sign_p2sh_p2wpkh)) t' sp' i memo_empty secret (dec_bool compressed))
        | _, _, _ => bad_args
        end
    | _ => bad_args end
  else if fn_is "sign_p2tr_keypath" fn then
    match args with
    | [t; sp; VI idx; VI secret; VI ht; VB aux] =>
        match dec_tx t, dec_spents sp, dec_nat idx with
        | Some t', Some sp', Some i =>
            vsigned i (SITES H (@sign_p2tr_keypath) t' sp' i memo_empty secret ht aux)
        | _, _, _ => bad_args
        end
    | _ => bad_args end
  else if fn_is "sign_many" fn then
    match args with
    | [t; sp; VL steps] =>
        match dec_tx t, dec_spents sp, dec_list dec_step steps with
        | Some t', Some sp', Some st =>
            vres (fun '(t2, os, vs) =>
                    VL [VL (map (fun ti => VL [vscript (i_script ti); vbl (i_witness ti)]) (t_ins t2));
                        VL (map voutcome os); VL (map voutcome vs)])
                 (SITES H (@sign_many_verify_all) t' sp' memo_empty st)
        | _, _, _ => bad_args
        end
    | _ => bad_args end
  else if fn_is "taproot_sig_rule" fn then
    match args with
    | [VB sg] =>
        match taproot_sig_hash_type sg with
        | Some (s64, ht) => VL [VL [VB s64; VI ht]]
        | None => VL []
        end
    | _ => bad_args end
  else bad_args.
