(* Dispatch/DC20.v — entry points of the C20 model for the correspondence check. *)
From Coq Require Import String.
From V Require Import Base.Prelude Base.Ints Base.Disp Model.Helper Model.Base58 Model.Bech32
  Model.Bcur Model.BcurStr.
Open Scope string_scope.
Open Scope Z_scope.

Definition zb (z : Z) : bool := negb (z =? 0).
Definition vob (o : option bytes) : val := match o with Some b => VB b | None => VL [] end.
Definition vpart (p : part) : val :=
  VL [VI (p_form p); VI (p_x p); VI (p_y p); VB (p_chk p); VB (p_payload p)].
Definition part_of (v : val) : option part :=
  match v with
  | VL [VI f; VI x; VI y; VB c; VB p] =>
      Some {| p_form := f; p_x := x; p_y := y; p_chk := c; p_payload := p |}
  | _ => None
  end.
Fixpoint parts_of (l : list val) : option (list part) :=
  match l with
  | [] => Some []
  | v :: r => match part_of v, parts_of r with
              | Some p, Some t => Some (p :: t)
              | _, _ => None
              end
  end.

Definition dispatch (H : oracle) (fn : list Z) (args : list val) : val :=
  if fn_is "cbor_encode" fn then
    match args with [VB b] => vres_b (cbor_encode b) | _ => bad_args end
  else if fn_is "cbor_decode" fn then
    match args with [VB b] => vres vob (cbor_decode b) | _ => bad_args end
  else if fn_is "convertbits" fn then
    match args with
    | [VL l; VI fb; VI tb; VI pad] =>
        match vals_ints l with
        | Some d => vres (vopt vil) (convertbits d fb tb (zb pad))
        | None => bad_args end
    | _ => bad_args end
  else if fn_is "polymod" fn then
    match args with
    | [VL l] => match vals_ints l with Some v => VI (bech32_polymod v) | None => bad_args end
    | _ => bad_args end
  else if fn_is "bc32encode" fn then
    match args with [VB b] => vres_b (bc32encode b) | _ => bad_args end
  else if fn_is "bc32decode" fn then
    match args with [VB s] => vres vob (bc32decode s) | _ => bad_args end
  else if fn_is "bcur_encode" fn then
    match args with
    | [VB b] => vres (fun '(e, h) => VL [VB e; VB h]) (bcur_encode (o_sha256 H) b)
    | _ => bad_args end
  else if fn_is "bcur_decode" fn then
    match args with
    | [VB d; VL []] => vres vob (bcur_decode (o_sha256 H) d None)
    | [VB d; VL [VB c]] => vres vob (bcur_decode (o_sha256 H) d (Some c))
    | _ => bad_args end
  else if fn_is "single_encode" fn then
    match args with
    | [VB b; VI uc] => vres vpart (single_encode (o_sha256 H) b (zb uc))
    | _ => bad_args end
  else if fn_is "single_parse" fn then
    match args with
    | [v] => match part_of v with
             | Some p => vres_b (single_parse (o_sha256 H) p)
             | None => bad_args end
    | _ => bad_args end
  else if fn_is "multi_encode" fn then
    match args with
    | [VB b; VI m; VI an] =>
        vres (fun ps => VL (map vpart ps)) (multi_encode (o_sha256 H) b m (zb an))
    | _ => bad_args end
  else if fn_is "multi_parse" fn then
    match args with
    | [VL l] => match parts_of l with
                | Some ps => vres_b (multi_parse (o_sha256 H) ps)
                | None => bad_args end
    | _ => bad_args end
  (* ---- the string layer (Model/BcurStr.v) ---- *)
  else if fn_is "py_int" fn then
    match args with [VB s] => vres_i (py_int s) | _ => bad_args end
  else if fn_is "str_int" fn then
    match args with [VI n] => VB (str_int n) | _ => bad_args end
  else if fn_is "parse_helper_str" fn then
    match args with
    | [VB s] => vres (fun '(payload, c, x, y) => VL [VB payload; vopt VB c; VI x; VI y])
                     (parse_helper_str s)
    | _ => bad_args end
  else if fn_is "single_encode_str" fn then
    match args with
    | [VB b; VI uc] => vres_b (single_encode_str (o_sha256 H) b (zb uc))
    | _ => bad_args end
  else if fn_is "multi_encode_str" fn then
    match args with
    | [VB b; VI m; VI an] => vres vbl (multi_encode_str (o_sha256 H) b m (zb an))
    | _ => bad_args end
  else if fn_is "single_parse_str" fn then
    match args with [VB s] => vres_b (single_parse_str (o_sha256 H) s) | _ => bad_args end
  else if fn_is "multi_parse_str" fn then
    match args with
    | [VL l] => match vals_bytes l with
                | Some ss => vres_b (multi_parse_str (o_sha256 H) ss)
                | None => bad_args end
    | _ => bad_args end
  else bad_args.
