(* Dispatch/DC18.v — entry points of the C18 models and specs for the correspondence check. *)
From Coq Require Import String.
From V Require Import Base.Prelude Base.Ints Base.Disp Model.Helper Model.Gcs Model.Network
  Model.Siphash Model.Murmur Model.Bloom Model.CFilter Model.CFilterMsg.
From V Require Spec.Siphash Spec.Murmur Spec.Bip158 Spec.BloomCore.
Open Scope string_scope.
Open Scope Z_scope.

Definition vstate (v : sipstate) : val :=
  let '(a, b, c, d) := v in VL [VI a; VI b; VI c; VI d].

(* loop counters from the wire are bounded before they become (unary) nats *)
Definition small (n : Z) : bool := (n <? 1000000).

Fixpoint bloom_add_all (b : bloom) (items : list bytes) : result bloom :=
  match items with
  | [] => Ok b
  | it :: r => b' <- bloom_add b it ;; bloom_add_all b' r
  end.

Fixpoint dedup_adj (l : list Z) : list Z :=
  match l with
  | a :: ((b :: _) as r) => if a =? b then dedup_adj r else a :: dedup_adj r
  | _ => l
  end.

Fixpoint zrange (n : nat) (i : Z) : list Z :=
  match n with O => [] | S k => i :: zrange k (i + 1) end.

Fixpoint set_positions (l : list Z) (i : Z) : list Z :=
  match l with
  | [] => []
  | b :: r => if b =? 0 then set_positions r (i + 1) else i :: set_positions r (i + 1)
  end.

Definition dispatch (H : oracle) (fn : list Z) (args : list val) : val :=
  if fn_is "encode_golomb" fn then
    match args with
    | [VI x; VI p] => if small p && small (Z.shiftr x p) && (0 <=? p)
                      then VB (encode_golomb x (Z.to_nat p)) else bad_args
    | _ => bad_args end
  else if fn_is "decode_golomb" fn then
    match args with
    | [VB bits; VI p] => if small p && (0 <=? p)
                         then vres (fun '(x, r) => VL [VI x; VB r]) (decode_golomb bits (Z.to_nat p))
                         else bad_args
    | _ => bad_args end
  else if fn_is "pack_bits" fn then
    match args with [VB bits] => VB (pack_bits bits) | _ => bad_args end
  else if fn_is "unpack_bits" fn then
    match args with [VB b] => VB (unpack_bits b) | _ => bad_args end
  else if fn_is "serialize_gcs" fn then
    match args with
    | [VL items] => match vals_ints items with Some l => vres_b (serialize_gcs l) | None => bad_args end
    | _ => bad_args end
  else if fn_is "decode_gcs" fn then
    match args with [VB b] => vres vil (decode_gcs b) | _ => bad_args end
  else if fn_is "doublesipround" fn then
    match args with
    | [VI a; VI b; VI c; VI d; VI m] => vstate (doublesipround (a, b, c, d) m)
    | _ => bad_args end
  else if fn_is "compress_spec" fn then
    match args with
    | [VI a; VI b; VI c; VI d; VI m] => vstate (Spec.Siphash.compress (a, b, c, d) m)
    | _ => bad_args end
  else if fn_is "siphash_chunks" fn then
    match args with
    | [VB key; VL chunks] =>
        match vals_bytes chunks with Some cs => vres_i (siphash_chunks key cs) | None => bad_args end
    | _ => bad_args end
  else if fn_is "siphash_digest" fn then
    match args with [VB key; VB msg] => vres_b (siphash_digest key msg) | _ => bad_args end
  else if fn_is "siphash_spec" fn then
    match args with
    | [VB key; VB msg] => if Nat.eqb (length key) 16 then VI (Spec.Siphash.siphash24 key msg) else VErr
    | _ => bad_args end
  else if fn_is "hash_to_range" fn then
    match args with
    | [VB key; VB value; VI f] => vres_i (hash_to_range siphash key value f)
    | _ => bad_args end
  else if fn_is "hashed_items" fn then
    match args with
    | [VB key; VL items] =>
        match vals_bytes items with Some l => vres vil (hashed_items siphash key l) | None => bad_args end
    | _ => bad_args end
  else if fn_is "encode_gcs" fn then
    match args with
    | [VB key; VL items] =>
        match vals_bytes items with Some l => vres_b (encode_gcs siphash key l) | None => bad_args end
    | _ => bad_args end
  else if fn_is "cf_parse" fn then
    (* CompactFilter.parse(key, bytes): (f, sorted distinct hashes) *)
    match args with
    | [VB key; VB fb] =>
        vres (fun cf => VL [VI (cf_f cf); vil (dedup_adj (zsort (cf_hashes cf)))]) (cf_parse key fb)
    | _ => bad_args end
  else if fn_is "cf_reserialize" fn then
    (* CompactFilter.parse(key, bytes).serialize() *)
    match args with
    | [VB key; VB fb] => vres_b (cf <- cf_parse key fb ;; cf_serialize cf)
    | _ => bad_args end
  else if fn_is "cf_hash" fn then
    (* CompactFilter.parse(key, bytes).hash() *)
    match args with
    | [VB key; VB fb] => vres_b (cf <- cf_parse key fb ;; cf_hash (o_hash256 H) cf)
    | _ => bad_args end
  else if fn_is "cf_contains" fn then
    (* CompactFilter.parse(key, bytes).__contains__(raw) for each raw *)
    match args with
    | [VB key; VB fb; VL raws] =>
        match vals_bytes raws with
        | Some l => vres (fun cf => VL (map (fun r => vres_bool (cf_contains siphash cf r)) l)) (cf_parse key fb)
        | None => bad_args end
    | _ => bad_args end
  else if fn_is "cf_build_query" fn then
    match args with
    | [VB key; VL items; VL raws] =>
        match vals_bytes items, vals_bytes raws with
        | Some l, Some q =>
            (* = map (cf_build_query siphash key l) q, with the filter built and parsed once *)
            match (fb <- encode_gcs siphash key l ;; cf_parse key fb) with
            | Ok cf => VL (map (fun r => vres_bool (cf_contains siphash cf r)) q)
            | Err => VL (map (fun _ => VErr) q)
            end
        | _, _ => bad_args end
    | _ => bad_args end
  else if fn_is "murmur3" fn then
    match args with [VB data; VI seed] => VI (murmur3 data seed) | _ => bad_args end
  else if fn_is "murmur3_spec" fn then
    (* the 32-bit standard on the seed reduced to uint32 *)
    match args with
    | [VB data; VI seed] => VI (Spec.Murmur.murmur3_x86_32 data (Spec.Murmur.u32 seed))
    | _ => bad_args end
  else if fn_is "bloom_filter_bytes" fn then
    match args with
    | [VI size; VI fc; VI tweak; VL items] =>
        match vals_bytes items with
        | Some l => if small fc && small size then
                      vres_b (b <- bloom_add_all (bloom_new size fc tweak) l ;; bit_field_to_bytes (bf_bits b))
                    else bad_args
        | None => bad_args end
    | _ => bad_args end
  else if fn_is "bloom_filterload" fn then
    match args with
    | [VI size; VI fc; VI tweak; VL items; VI flag] =>
        match vals_bytes items with
        | Some l => if small fc && small size then
                      vres_b (b <- bloom_add_all (bloom_new size fc tweak) l ;; filterload b flag)
                    else bad_args
        | None => bad_args end
    | _ => bad_args end
  else if fn_is "bloom_bits_spec" fn then
    (* BIP37: the sorted distinct bit indices of one item, from the 32-bit standard *)
    match args with
    | [VI size; VI fc; VI tweak; VB item] =>
        if small fc && (0 <? size) then
          vil (dedup_adj (zsort (map (fun i => Spec.Murmur.bip37_bit size i tweak item)
                                     (zrange (Z.to_nat fc) 0))))
        else bad_args
    | _ => bad_args end
  else if fn_is "bloom_bits" fn then
    match args with
    | [VI size; VI fc; VI tweak; VB item] =>
        if small fc && small size then
          vres (fun b => vil (set_positions (bf_bits b) 0)) (bloom_add (bloom_new size fc tweak) item)
        else bad_args
    | _ => bad_args end
  else if fn_is "bit_field_to_bytes" fn then
    match args with [VB bits] => vres_b (bit_field_to_bytes bits) | _ => bad_args end
  else if fn_is "cfheader_chain" fn then
    match args with
    | [VB prev; VL hs] =>
        match vals_bytes hs with Some l => VB (cfheader_chain (o_hash256 H) prev l) | None => bad_args end
    | _ => bad_args end
  else if fn_is "cf_new" fn then
    (* CompactFilter(key, hashes) called directly (any order, duplicates): [f, serialize(), hash(), membership] *)
    match args with
    | [VB key; VL hashes; VL raws] =>
        match vals_ints hashes, vals_bytes raws with
        | Some l, Some q =>
            let cf := cf_new key l in
            VL [VI (cf_f cf); vres_b (cf_serialize cf); vres_b (cf_hash (o_hash256 H) cf);
                VL (map (fun r => vres_bool (cf_contains siphash cf r)) q)]
        | _, _ => bad_args end
    | _ => bad_args end
  (* ---- BIP158 transcription (Spec/Bip158.v): streaming writer / reader, gcs_match ---- *)
  else if fn_is "bip158_spec" fn then
    match args with
    | [VB key; VL items] =>
        match vals_bytes items with
        | Some l => if Nat.eqb (length key) 16 then VB (Spec.Bip158.filter_bytes key l) else VErr
        | None => bad_args end
    | _ => bad_args end
  else if fn_is "bip158_serialize" fn then
    (* CompactSize N ++ the streamed Golomb-Rice deltas of an explicit value list *)
    match args with
    | [VL items] =>
        match vals_ints items with
        | Some l => VB (Spec.Bip158.compact_size (zlen l) ++
                        Spec.Bip158.bw_flush (Spec.Bip158.gcs_compress l 0 Spec.Bip158.bw_empty))
        | None => bad_args end
    | _ => bad_args end
  else if fn_is "bip158_decompress" fn then
    (* the BIP's reader on the bytes after the count, on every input (a count that cannot be a loop counter
       of the unary extracted nat is left to the model, which rejects it) *)
    match args with
    | [VB fb] =>
        match read_varint fb with
        | Ok (n, r) =>
            if small n then
              match Spec.Bip158.gcs_decompress r n with Some l => vil l | None => VErr end
            else match decode_gcs fb with Ok _ => bad_args | Err => VErr end
        | Err => VErr
        end
    | _ => bad_args end
  else if fn_is "bip158_match" fn then
    (* on every filter the model parses: gcs_match of the BIP for each query *)
    match args with
    | [VB key; VB fb; VL raws] =>
        match vals_bytes raws with
        | Some q =>
            match decode_gcs fb, read_varint fb with
            | Ok _, Ok (n, r) =>
                if negb (small n) then bad_args
                (* (the number of queries in front: a list of two failures alone would read as bad_args) *)
                else if negb (Nat.eqb (length key) 16) then VL [VI (zlen q); VL (map (fun _ => VErr) q)]
                else VL [VI (zlen q);
                         VL (map (fun x => match Spec.Bip158.gcs_match key r x n with
                                           | Some b => vbool b | None => VErr end) q)]
            | _, _ => VErr
            end
        | None => bad_args end
    | _ => bad_args end
  (* ---- SipHash object API ---- *)
  else if fn_is "siphash_hexdigest" fn then
    match args with [VB key; VB msg] => vres_b (siphash_hexdigest key msg) | _ => bad_args end
  else if fn_is "sip_object" fn then
    (* SipHash_2_4(key, s0).update(c1)...: [hash(), digest()] *)
    match args with
    | [VB key; VB s0; VL chunks] =>
        match vals_bytes chunks with
        | Some cs => vres (fun st => let st' := fold_left sip_update cs st in
                                     VL [VI (sip_hash st'); vres_b (sip_digest st')]) (sip_new key s0)
        | None => bad_args end
    | _ => bad_args end
  (* ---- BIP157 messages ---- *)
  else if fn_is "cfmsg_contains" fn then
    (* CFilterMessage.parse(wire): [hash(), membership of each query] *)
    match args with
    | [VB wire; VL raws] =>
        match vals_bytes raws with
        | Some q =>
            match cfmsg_hash (o_hash256 H) wire with
            | Ok h => VL [VB h; VL (map (fun r => vres_bool (cfmsg_contains siphash wire r)) q)]
            | Err => VErr
            end
        | None => bad_args end
    | _ => bad_args end
  else if fn_is "cfmsg_new_contains" fn then
    (* CFilterMessage(0, block_hash, filter_bytes): the constructor decodes the filter *)
    match args with
    | [VB bh; VB fb; VL raws] =>
        match vals_bytes raws with
        | Some q =>
            match cf_parse (cfmsg_key bh) fb with
            | Ok cf => VL [VI (zlen q); VL (map (fun r => vres_bool (cf_contains siphash cf r)) q)]
            | Err => VErr
            end
        | None => bad_args end
    | _ => bad_args end
  else if fn_is "cfheaders_last" fn then
    match args with
    | [VB wire] =>
        (* the hash count of the wire becomes a (unary) loop counter: only small counts are run *)
        match read_varint (skipn 65 wire) with
        | Ok (n, _) => if small n then vres_b (cfheaders_last (o_hash256 H) wire) else bad_args
        | Err => vres_b (cfheaders_last (o_hash256 H) wire)
        end
    | _ => bad_args end
  (* ---- Bitcoin Core's CBloomFilter (Spec/BloomCore.v) ---- *)
  else if fn_is "bloom_core_bytes" fn then
    match args with
    | [VI size; VI fc; VI tweak; VL items] =>
        match vals_bytes items with
        | Some l => if small fc && small size && (0 <? size) && (0 <=? fc) then
                      VB (fold_left (Spec.BloomCore.core_insert fc tweak) l (repeatz 0 (Z.to_nat size)))
                    else bad_args
        | None => bad_args end
    | _ => bad_args end
  else if fn_is "bloom_core_wire" fn then
    (* the model's filterload payload, decoded and queried as the receiving peer does *)
    match args with
    | [VI size; VI fc; VI tweak; VL items; VI flag; VL probes] =>
        match vals_bytes items, vals_bytes probes with
        | Some l, Some q =>
            if small fc && small size then
              match (b <- bloom_add_all (bloom_new size fc tweak) l ;; filterload b flag) with
              | Ok payload =>
                  match Spec.BloomCore.filterload_decode payload with
                  | Some (v, nf, nt, fl) =>
                      VL [VB payload; VB v; VI nf; VI nt; VI fl;
                          VL (map (fun x => vbool (Spec.BloomCore.core_contains nf nt v x)) q);
                          vbool (Spec.BloomCore.filterload_acceptable payload)]
                  | None => VL [VB payload; VErr]
                  end
              | Err => VErr
              end
            else bad_args
        | _, _ => bad_args end
    | _ => bad_args end
  else bad_args.
