(* Dispatch/DC11.v — entry points of the C11 model (PSBT summary decision logic).
   The scenario encoding is documented in harness/props/c11.py. *)
From Coq Require Import String.
From V Require Import Base.Prelude Base.Ints Base.Disp Model.Helper Model.Script Model.PsbtDescribe
  Model.PsbtBuilder Spec.PsbtHonest.
Open Scope string_scope.
Open Scope Z_scope.

Definition obind {A B} (o : option A) (f : A -> option B) : option B :=
  match o with Some a => f a | None => None end.
Notation "x <~ e ;; f" := (obind e (fun x => f)) (at level 61, e at next level, right associativity).

Fixpoint omap {A B} (f : A -> option B) (l : list A) : option (list B) :=
  match l with
  | [] => Some []
  | a :: r => b <~ f a ;; t <~ omap f r ;; Some (b :: t)
  end.

Definition d_cmd (v : val) : option cmd :=
  match v with VI o => Some (Op o) | VB b => Some (Push b) | _ => None end.
Definition d_cmds (v : val) : option (list cmd) :=
  match v with VL l => omap d_cmd l | _ => None end.
Definition d_opt {A} (f : val -> option A) (v : val) : option (option A) :=
  match v with
  | VL [] => Some None
  | VL [x] => a <~ f x ;; Some (Some a)
  | _ => None
  end.
Definition d_int (v : val) : option Z := match v with VI z => Some z | _ => None end.
Definition d_ints (v : val) : option (list Z) := match v with VL l => vals_ints l | _ => None end.

Definition d_pub (v : val) : option named_pub :=
  match v with
  | VL [VB k; VB s; VB x; p] =>
      path <~ d_ints p ;; Some {| np_key := k; np_sec := s; np_xfp := x; np_path := path |}
  | _ => None
  end.
Definition d_pubs (v : val) : option (list named_pub) :=
  match v with VL l => omap d_pub l | _ => None end.
Definition d_utxo (v : val) : option utxo :=
  match v with
  | VL [VI a; c] => cs <~ d_cmds c ;; Some {| u_amount := a; u_spk := cs |}
  | _ => None
  end.
Definition d_prevtx (v : val) : option prevtx :=
  match v with
  | VL [VB h; VL outs; VB _] => os <~ omap d_utxo outs ;; Some {| pt_hash := h; pt_outs := os |}
  | _ => None
  end.
Definition d_in (v : val) : option pin :=
  match v with
  | VL [VB txid; VI idx; nw; w; r; ws; pubs; value] =>
      a <~ d_opt d_prevtx nw ;; b <~ d_opt d_utxo w ;; c <~ d_opt d_cmds r ;;
      d <~ d_opt d_cmds ws ;; e <~ d_pubs pubs ;; f <~ d_opt d_int value ;;
      Some {| i_txid := txid; i_index := idx; i_prev_tx := a; i_prev_out := b; i_redeem := c;
              i_witness := d; i_pubs := e; i_value := f |}
  | _ => None
  end.
Definition d_out (v : val) : option pout :=
  match v with
  | VL [VI amount; spk; r; ws; pubs] =>
      a <~ d_cmds spk ;; c <~ d_opt d_cmds r ;; d <~ d_opt d_cmds ws ;; e <~ d_pubs pubs ;;
      Some {| o_amount := amount; o_spk := a; o_redeem := c; o_witness := d; o_pubs := e |}
  | _ => None
  end.
Definition d_map_entry (v : val) : option (bytes * (bytes * Z)) :=
  match v with VL [VB x; VB xid; VI depth] => Some (x, (xid, depth)) | _ => None end.
Definition d_hdpub (v : val) : option (hdpub bytes) :=
  match v with
  | VL [VB x; p; VB xid] => path <~ d_ints p ;; Some {| h_xfp := x; h_path := path; h_xpub := xid |}
  | _ => None
  end.
Definition d_tab_entry (v : val) : option (bytes * list Z * option bytes) :=
  match v with
  | VL [VB xid; p; VL []] => path <~ d_ints p ;; Some (xid, path, None)
  | VL [VB xid; p; VL [VB s]] => path <~ d_ints p ;; Some (xid, path, Some s)
  | _ => None
  end.

Fixpoint zl_eqb (a b : list Z) : bool :=
  match a, b with
  | [], [] => true
  | x :: a', y :: b' => (x =? y) && zl_eqb a' b'
  | _, _ => false
  end.

(* the lookup table computed by the implementation's HDPublicKey code plays the role of [derive] *)
Definition table_derive (t : list (bytes * list Z * option bytes)) (x : bytes) (p : list Z)
  : option bytes :=
  match find (fun e => beq (fst (fst e)) x && zl_eqb (snd (fst e)) p) t with
  | Some e => snd e
  | None => None
  end.

Record scenario := {
  sc_psbt : psbt bytes; sc_map : hdmap bytes; sc_table : list (bytes * list Z * option bytes) }.

Definition d_scenario (v : val) : option scenario :=
  match v with
  | VL [VI _; VL ins; VL outs; VL hm; VL hds; VL tab] =>
      a <~ omap d_in ins ;; b <~ omap d_out outs ;; c <~ omap d_map_entry hm ;;
      d <~ omap d_hdpub hds ;; e <~ omap d_tab_entry tab ;;
      Some {| sc_psbt := {| p_ins := a; p_outs := b; p_hd_pubs := d |}; sc_map := c; sc_table := e |}
  | _ => None
  end.

Definition v_cmd (c : cmd) : val := match c with Op o => VI o | Push b => VB b end.
Definition v_cmds (cs : list cmd) : val := VL (map v_cmd cs).
Definition v_summary (s : summary) : val :=
  VL [VI (s_fee s); VI (s_total_in s); VI (s_total_out s); VI (s_spend s); VI (s_change s);
      vopt v_cmds (s_spend_addr s); vopt v_cmds (s_change_addr s); vbool (s_batch s);
      VL (map (fun '(m, n, v) => VL [VI m; VI n; VI v]) (s_ins s));
      VL (map (fun '(a, c) => VL [VI a; vbool c]) (s_outs s))].

(* ---- create_multisig_psbt: arguments carry the raw strings (for the implementation) and what the
   implementation's parsers make of them (for the model); see harness/props/c11.py builder_case ---- *)
Definition d_bytes (v : val) : option bytes := match v with VB b => Some b | _ => None end.
Definition d_path_item (v : val) : option (bytes * bytes) :=
  match v with VL [VB x; VB p] => Some (x, p) | _ => None end.
Definition d_paths (v : val) : option (list (bytes * bytes)) :=
  match v with VL l => omap d_path_item l | _ => None end.
Definition d_brec (v : val) : option (brec bytes) :=
  match v with
  | VL [VB x; VB _; VB _; p; VB xid; VI depth; VI net] =>
      path <~ d_ints p ;;
      Some {| r_xfp := x; r_path := path; r_xpub := xid; r_depth := depth; r_net := net |}
  | _ => None
  end.
Definition d_prev2 (v : val) : option prevtx :=
  match v with
  | VL [VB h; VL outs] => os <~ omap d_utxo outs ;; Some {| pt_hash := h; pt_outs := os |}
  | _ => None
  end.
Definition d_bin (v : val) : option bin :=
  match v with
  | VL [VI m; paths; VB _; VB h; VI idx; VI sats; prev] =>
      ps <~ d_paths paths ;; pt <~ d_prev2 prev ;;
      Some {| bi_m := m; bi_paths := ps; bi_prev := pt; bi_hash := h; bi_idx := idx; bi_sats := sats |}
  | _ => None
  end.
Definition d_bout (v : val) : option bout :=
  match v with
  | VL [VI sats; VB _; VI m; paths; spk] =>
      ps <~ d_paths paths ;; cs <~ d_cmds spk ;;
      Some {| bo_sats := sats; bo_spk := cs; bo_m := m; bo_paths := ps |}
  | _ => None
  end.
Definition d_btab_entry (v : val) : option (bytes * bytes * option (bytes * list Z)) :=
  match v with
  | VL [VB x; VB p; VL []] => Some (x, p, None)
  | VL [VB x; VB p; VL [VB s; c]] => comps <~ d_ints c ;; Some (x, p, Some (s, comps))
  | _ => None
  end.
Definition btable_derive (t : list (bytes * bytes * option (bytes * list Z))) (x p : bytes)
  : option (bytes * list Z) :=
  match find (fun e => beq (fst (fst e)) x && beq (snd (fst e)) p) t with
  | Some e => snd e
  | None => None
  end.

Definition v_utxo (u : utxo) : val := VL [VI (u_amount u); v_cmds (u_spk u)].
Definition v_prevtx (pt : prevtx) : val := VL [VB (pt_hash pt); VL (map v_utxo (pt_outs pt))].
Definition v_pub (np : named_pub) : val :=
  VL [VB (np_key np); VB (np_sec np); VB (np_xfp np); vil (np_path np)].
Definition v_pin (i : pin) : val :=
  VL [VB (i_txid i); VI (i_index i); vopt v_prevtx (i_prev_tx i); vopt v_utxo (i_prev_out i);
      vopt v_cmds (i_redeem i); vopt v_cmds (i_witness i); VL (map v_pub (i_pubs i));
      vopt VI (i_value i)].
Definition v_pout (o : pout) : val :=
  VL [VI (o_amount o); v_cmds (o_spk o); vopt v_cmds (o_redeem o); vopt v_cmds (o_witness o);
      VL (map v_pub (o_pubs o))].
Definition v_hdpub (h : hdpub bytes) : val := VL [VB (h_xfp h); vil (h_path h); VB (h_xpub h)].
Definition v_psbt (p : psbt bytes) : val :=
  VL [VL (map v_pin (p_ins p)); VL (map v_pout (p_outs p)); VL (map v_hdpub (p_hd_pubs p))].

Definition vunit (r : result unit) : val := match r with Ok _ => VI 1 | Err => VErr end.

Definition dispatch (H : oracle) (fn : list Z) (args : list val) : val :=
  let h160 := o_hash160 H in
  let s256 := o_sha256 H in
  if fn_is "describe" fn then
    match args with
    | [v] => match d_scenario v with
             | Some sc => vres v_summary
                            (describe h160 s256 bytes (table_derive (sc_table sc)) (sc_map sc) (sc_psbt sc))
             | None => bad_args end
    | _ => bad_args end
  else if fn_is "validate_in" fn then
    match args with
    | [v; VI k] => match d_scenario v with
                   | Some sc => match nthz (p_ins (sc_psbt sc)) k with
                                | Some i => vunit (validate_in h160 s256 i)
                                | None => bad_args end
                   | None => bad_args end
    | _ => bad_args end
  else if fn_is "validate_out" fn then
    match args with
    | [v; VI k] => match d_scenario v with
                   | Some sc => match nthz (p_outs (sc_psbt sc)) k with
                                | Some o => vunit (validate_out h160 s256 o)
                                | None => bad_args end
                   | None => bad_args end
    | _ => bad_args end
  else if fn_is "create_psbt" fn then
    match args with
    | [VL recs; VL ins; VL outs; VI fee; VL btab; VL dtab] =>
        match omap d_brec recs, omap d_bin ins, omap d_bout outs, omap d_btab_entry btab,
              omap d_tab_entry dtab with
        | Some r, Some i, Some o, Some bt, Some dt =>
            vres v_psbt (create_psbt h160 s256 bytes (table_derive dt) (btable_derive bt) r i o fee)
        | _, _, _, _, _ => bad_args
        end
    | _ => bad_args end
  else if fn_is "honest_spec" fn then
    (* the declarative wallet relation of Spec/PsbtHonest.v (premise of C11_honest_psbt_summarised) *)
    match args with
    | [v; VI m] => match d_scenario v with
                   | Some sc => vbool (honest_psbt_b h160 s256 bytes (table_derive (sc_table sc))
                                         (sc_map sc) (sc_psbt sc) m)
                   | None => bad_args end
    | _ => bad_args end
  else if fn_is "quorum" fn then
    match args with
    | [VI kind; c] => match d_cmds c with
                      | Some cs => vres (fun '(m, n) => VL [VI m; VI n])
                                     (if kind =? 0 then redeem_quorum cs else witness_quorum cs)
                      | None => bad_args end
    | _ => bad_args end
  else bad_args.
