(* Dispatch/DC13.v — entry points of the C13 model (MuSig, k-of-n trees).
   Value encoding (see DC12.v for command / script / tree / point):
                    lock     VL [] | VL [VI 0; VI locktime] | VL [VI 1; VI sequence]
                    part     VL [VI secret; VI k1; VI k2]                              *)
From Coq Require Import String.
From V Require Import Base.Prelude Base.Ints Base.Disp Model.Helper Model.Script Model.Pecc
  Model.Taproot Model.Musig Dispatch.DC12.
Open Scope string_scope.
Open Scope Z_scope.

Definition dec_lock (v : val) : option lock :=
  match v with
  | VL [] => Some NoLock
  | VL [VI 0; VI x] => Some (LockTime x)
  | VL [VI 1; VI x] => Some (LockSeq x)
  | _ => None
  end.

Definition dec_part (v : val) : option (Z * (Z * Z)) :=
  match v with VL [VI s; VI k1; VI k2] => Some (s, (k1, k2)) | _ => None end.

Definition dec_pair (v : val) : option (point * point) :=
  match v with
  | VL [a; b] => match dec_point a, dec_point b with Some p, Some q => Some (p, q) | _, _ => None end
  | _ => None
  end.

Definition enc_pair (pq : point * point) : val := VL [enc_point (fst pq); enc_point (snd pq)].
Definition enc_cmds (cs : list cmd) : val := VL (map enc_cmd cs).
Definition enc_ms (ms : musig) : val :=
  VL [vbl (ms_xonlys ms); VL (map enc_point (ms_points ms)); vil (ms_coefs ms); enc_point (ms_point ms)].

Definition enc_sig (rs : point * Z) : val := vres_b (schnorr_serialize (fst rs) (snd rs)).

Definition with_tree (sha : bytes -> bytes) (r : result taptree) : val :=
  vres (fun t => VL [enc_tree t; vres_b (tree_hash sha t)]) r.

(* Tx.sig_hash(input_index, hash_type) as a table [[hash_type, msg], ...] computed by the harness from the
   transaction; a hash type that is not listed raises *)
Fixpoint lookup_sighash (tbl : list val) (ht : Z) : result bytes :=
  match tbl with
  | VL [VI h; VB m] :: r => if h =? ht then Ok m else lookup_sighash r ht
  | _ :: r => lookup_sighash r ht
  | [] => Err
  end.

(* tap_script of a TxIn: VL [] = None | VL [VL points] *)
Definition dec_opt_points (v : val) : option (option (list point)) :=
  match v with
  | VL [] => Some None
  | VL [VL pts] => match dec_list dec_point pts with Some ps => Some (Some ps) | None => None end
  | _ => None
  end.
Definition enc_opt_points (o : option (list point)) : val := vopt (fun ps => VL (map enc_point ps)) o.

Definition dispatch (H : oracle) (fn : list Z) (args : list val) : val :=
  let sha := o_sha256 H in
  if fn_is "multisig_points" fn then
    match args with
    | [VL pts] => match dec_list dec_point pts with
                  | Some ps => vres (fun l => VL (map enc_point l)) (multisig_points K ps) | None => bad_args end
    | _ => bad_args end
  else if fn_is "initialize" fn then
    (* witness items, tap_script before the call, control block, kind of tap script (0 MultiSigTapScript(points, k),
       1 MuSigTapScript(points), 2 P2PKTapScript(points[0])) -> [items, tap_script.points or None, raised] *)
    match args with
    | [VL items; prior; cb; VI kind; VL pts; VI k] =>
        match vals_bytes items, dec_opt_points prior, dec_cb cb, dec_list dec_point pts with
        | Some it, Some pr, Some c, Some ps =>
            let built : result (script * option (list point)) :=
              if kind =? 0 then
                cs <- multisig_cmds K NoLock ps k ;; mp <- multisig_points K ps ;; Ok (mk_script cs, Some mp)
              else if kind =? 1 then cs <- musig_cmds K sha NoLock ps ;; Ok (mk_script cs, None)
              else match ps with
                   | p0 :: _ => Ok (mk_script [Push (xonly p0); Op 172], None)
                   | [] => Err
                   end in
            vres (fun st_r : tap_in * bool =>
                    VL [vbl (ti_items (fst st_r)); enc_opt_points (ti_points (fst st_r)); vbool (snd st_r)])
                 ('(sc, mp) <- built ;; init_p2tr_multisig {| ti_items := it; ti_points := pr |} c sc mp)
        | _, _, _, _ => bad_args end
    | _ => bad_args end
  else if fn_is "finalize" fn then
    (* witness items, tap_script (None | points), sigs, sig_hash table -> [items, completed] *)
    match args with
    | [VL items; tp; VL sigs; VL tbl] =>
        match vals_bytes items, dec_opt_points tp, vals_bytes sigs with
        | Some it, Some pr, Some sg =>
            vres (fun r : list bytes * bool => VL [vbl (fst r); vbool (snd r)])
                 (finalize_p2tr_multisig K sha (lookup_sighash tbl) {| ti_items := it; ti_points := pr |} sg)
        | _, _, _ => bad_args end
    | _ => bad_args end
  else if fn_is "sort_bytes" fn then
    match args with
    | [VL l] => match vals_bytes l with Some bs => vbl (sort_bytes bs) | None => bad_args end
    | _ => bad_args end
  else if fn_is "combinations" fn then
    match args with
    | [VL pool; VI k] =>
        match vals_ints pool with
        | Some p => if (k <? 0) || (64 <? k) then bad_args
                    else VL (map vil (combos p (Z.to_nat k)))
        | None => bad_args end
    | _ => bad_args end
  else if fn_is "multisig_cmds" fn then
    match args with
    | [lk; VL pts; VI k] =>
        match dec_lock lk, dec_list dec_point pts with
        | Some l, Some ps => vres enc_cmds (multisig_cmds K l ps k)
        | _, _ => bad_args end
    | _ => bad_args end
  else if fn_is "musig_init" fn then
    match args with
    | [VL pts] => match dec_list dec_point pts with
                  | Some ps => vres enc_ms (musig_init K sha ps) | None => bad_args end
    | _ => bad_args end
  else if fn_is "musig_cmds" fn then
    match args with
    | [lk; VL pts] =>
        match dec_lock lk, dec_list dec_point pts with
        | Some l, Some ps => vres enc_cmds (musig_cmds K sha l ps)
        | _, _ => bad_args end
    | _ => bad_args end
  else if fn_is "nonce_points" fn then
    match args with
    | [VI k1; VI k2] => vres enc_pair (nonce_points K k1 k2)
    | _ => bad_args end
  else if fn_is "nonce_sums" fn then
    match args with
    | [VL prs] => match dec_list dec_pair prs with
                  | Some l => vres enc_pair (nonce_sums K l) | None => bad_args end
    | _ => bad_args end
  else if fn_is "compute" fn then
    (* compute_coefficient, compute_k, compute_r of MuSigTapScript(points) *)
    match args with
    | [VL pts; sums; VI k1; VI k2; VB msg] =>
        match dec_list dec_point pts, dec_pair sums with
        | Some ps, Some sm =>
            vres (fun ms => VL [vres_i (compute_coefficient sha ms sm msg);
                                vres_i (compute_k K sha ms (k1, k2) sm msg);
                                vres enc_point (compute_r K sha ms sm msg)])
                 (musig_init K sha ps)
        | _, _ => bad_args end
    | _ => bad_args end
  else if fn_is "musig_sign" fn then
    match args with
    | [VL pts; VI secret; VI k; r; VB msg; VB root] =>
        match dec_list dec_point pts, dec_point r with
        | Some ps, Some rp =>
            vres_i (ms <- musig_init K sha ps ;; musig_sign K sha ms secret k rp msg root)
        | _, _ => bad_args end
    | _ => bad_args end
  else if fn_is "get_signature" fn then
    match args with
    | [VL pts; VI s_sum; r; VB msg; VB root] =>
        match dec_list dec_point pts, dec_point r with
        | Some ps, Some rp =>
            vres enc_sig (ms <- musig_init K sha ps ;; musig_get_signature K sha ms s_sum rp msg root)
        | _, _ => bad_args end
    | _ => bad_args end
  else if fn_is "session" fn then
    match args with
    | [VL parts; VB msg; VB root] =>
        match dec_list dec_part parts with
        | Some ps => vres enc_sig (musig_session K sha ps msg root)
        | None => bad_args end
    | _ => bad_args end
  else if fn_is "trms_init" fn then
    match args with
    | [VL pts; VI k] => match dec_list dec_point pts with
                        | Some ps => vres enc_point (trms_init K sha ps k) | None => bad_args end
    | _ => bad_args end
  else if fn_is "tree" fn then
    match args with
    | [VI kind; VL pts; VI k; lk] =>
        match dec_list dec_point pts, dec_lock lk with
        | Some ps, Some l =>
            if (k <? 0) || (64 <? k) then bad_args
            else
              (* TapRootMultiSig(points, k) is constructed first *)
              let init := trms_init K sha ps k in
              if kind =? 0 then with_tree sha (_ <- init ;; single_leaf K ps k l)
              else if kind =? 1 then with_tree sha (_ <- init ;; multi_leaf_tree K ps k l)
              else if kind =? 2 then with_tree sha (_ <- init ;; musig_tree K sha ps k l)
              else if kind =? 3 then with_tree sha (_ <- init ;; musig_and_single_leaf_tree K sha ps k l)
              else if kind =? 4 then with_tree sha (_ <- init ;; everything_tree K sha ps k l)
              else bad_args
        | _, _ => bad_args end
    | _ => bad_args end
  else if fn_is "degrading" fn then
    match args with
    | [VL pts; VI k; VI kind; VI interval] =>
        match dec_list dec_point pts with
        | Some ps => if (k <? 0) || (64 <? k) then bad_args
                     else with_tree sha (_ <- trms_init K sha ps k ;; degrading_multisig_tree K ps k kind interval)
        | None => bad_args end
    | _ => bad_args end
  else bad_args.
