(* Dispatch/DC19.v — entry points of the C19 model for the correspondence check. *)
From Coq Require Import String.
From V Require Import Base.Prelude Base.Ints Base.Disp Model.Helper Model.Block Model.Gcs
  Model.Network Model.Wire Model.Hex Spec.P2P.
Open Scope string_scope.
Open Scope Z_scope.

Definition vheader (h : header) : val :=
  VL [VI (h_version h); VB (h_prev h); VB (h_root h); VI (h_time h); VB (h_bits h); VB (h_nonce h)].

Fixpoint dedup_adj (l : list Z) : list Z :=
  match l with
  | a :: ((b :: _) as r) => if a =? b then dedup_adj r else a :: dedup_adj r
  | _ => l
  end.

(* a parsed message as the harness sees it: [tag; fields...] *)
Definition vmsg (H : oracle) (m : message) : val :=
  match m with
  | MVerAck => VL [VI 0]
  | MPing n => VL [VI 1; VB n]
  | MPong n => VL [VI 2; VB n]
  | MHeaders hs => VL [VI 3; VL (map vheader hs)]
  | MCFilter t bh fb items => VL [VI 4; VI t; VB bh; VB fb; vil (dedup_adj items)]
  | MCFHeaders t stop prev hs =>
      VL [VI 5; VI t; VB stop; VB prev; vbl hs; VB (cfheader_chain (o_hash256 H) prev hs)]
  | MCFCheckPt t stop hs => VL [VI 6; VI t; VB stop; vbl hs]
  end.

Definition vaddr (a : net_addr) : val := VL [VI (na_services a); VB (na_ip a); VI (na_port a)].
Definition vversion (v : p2p_version) : val :=
  VL [VI (pv_version v); VI (pv_services v); VI (pv_timestamp v); vaddr (pv_addr_recv v);
      vaddr (pv_addr_from v); VB (pv_nonce v); VB (pv_user_agent v); VI (pv_start_height v);
      vbool (pv_relay v)].

Definition dispatch (H : oracle) (fn : list Z) (args : list val) : val :=
  if fn_is "int_to_le" fn then
    match args with [VI n; VI len] => vres_b (int_to_le n (Z.to_nat len)) | _ => bad_args end
  else if fn_is "int_to_be" fn then
    match args with [VI n; VI len] => vres_b (int_to_be n (Z.to_nat len)) | _ => bad_args end
  else if fn_is "from_le" fn then
    match args with [VB b] => VI (from_le b) | _ => bad_args end
  else if fn_is "from_be" fn then
    match args with [VB b] => VI (from_be b) | _ => bad_args end
  else if fn_is "encode_varint" fn then
    match args with [VI n] => vres_b (encode_varint n) | _ => bad_args end
  else if fn_is "read_varint" fn then
    match args with [VB s] => vres (fun '(n, r) => VL [VI n; VB r]) (read_varint s) | _ => bad_args end
  else if fn_is "encode_varstr" fn then
    match args with [VB b] => vres_b (encode_varstr b) | _ => bad_args end
  else if fn_is "read_varstr" fn then
    match args with [VB s] => vres (fun '(b, r) => VL [VB b; VB r]) (read_varstr s) | _ => bad_args end
  else if fn_is "env_serialize" fn then
    match args with
    | [VI net; VB cmd; VB payload] => vres_b (env_serialize (o_hash256 H) net cmd payload)
    | _ => bad_args end
  else if fn_is "env_parse" fn then
    match args with
    | [VI net; VB s] =>
        vres (fun '(c, p, r) => VL [VB c; VB p; VB r]) (env_parse (o_hash256 H) net s)
    | _ => bad_args end
  else if fn_is "parse_header" fn then
    match args with
    | [VB s] => let '(h, r) := parse_header s in VL [vheader h; VB r]
    | _ => bad_args end
  else if fn_is "serialize_header" fn then
    match args with
    | [VI v; VB p; VB m; VI t; VB b; VB n] =>
        vres_b (serialize_header {| h_version := v; h_prev := p; h_root := m; h_time := t;
                                    h_bits := b; h_nonce := n |})
    | _ => bad_args end
  else if fn_is "version_serialize" fn then
    match args with
    | [VI v; VI sv; VI ts; VI rs; VB rip; VI rp; VI ss; VB sip; VI sp; VB nonce; VB ua; VI lb; VI relay] =>
        vres_b (version_serialize
          {| vm_version := v; vm_services := sv; vm_timestamp := ts; vm_recv_services := rs;
             vm_recv_ip := rip; vm_recv_port := rp; vm_send_services := ss; vm_send_ip := sip;
             vm_send_port := sp; vm_nonce := nonce; vm_user_agent := ua; vm_latest_block := lb;
             vm_relay := negb (relay =? 0) |})
    | _ => bad_args end
  else if fn_is "getheaders_serialize" fn then
    match args with
    | [VI v; VI n; VB s; VB e] => vres_b (getheaders_serialize v n s e)
    | _ => bad_args end
  else if fn_is "headers_parse" fn then
    match args with
    | [VB s] => vres (fun '(hs, r) => VL [VL (map vheader hs); VB r]) (headers_parse s)
    | _ => bad_args end
  else if fn_is "getdata_serialize" fn then
    match args with
    | [VL types; VL ids] =>
        match vals_ints types, vals_bytes ids with
        | Some ts, Some is_ => vres_b (getdata_serialize (combine ts is_))
        | _, _ => bad_args
        end
    | _ => bad_args end
  else if fn_is "ping_parse" fn then
    match args with [VB s] => let '(n, r) := ping_parse s in VL [VB n; VB r] | _ => bad_args end
  else if fn_is "getcfilters_serialize" fn then
    match args with
    | [VI t; VI h; VB stop] => vres_b (getcfilters_serialize t h stop) | _ => bad_args end
  else if fn_is "getcfcheckpt_serialize" fn then
    match args with
    | [VI t; VB stop] => vres_b (getcfcheckpt_serialize t stop) | _ => bad_args end
  else if fn_is "cfilter_parse" fn then
    match args with
    | [VB s] =>
        vres (fun '(t, bh, fb, items, r) => VL [VI t; VB bh; VB fb; vil (dedup_adj items); VB r])
             (cfilter_parse s)
    | _ => bad_args end
  else if fn_is "cfheaders_parse" fn then
    match args with
    | [VB s] =>
        vres (fun '(t, stop, prev, hs, r) =>
                VL [VI t; VB stop; VB prev; vbl hs; VB (cfheader_chain (o_hash256 H) prev hs); VB r])
             (cfheaders_parse s)
    | _ => bad_args end
  else if fn_is "cfcheckpt_parse" fn then
    match args with
    | [VB s] =>
        vres (fun '(t, stop, hs, r) => VL [VI t; VB stop; vbl hs; VB r]) (cfcheckpt_parse s)
    | _ => bad_args end
  else if fn_is "int_to_byte" fn then
    match args with [VI n] => vres_b (int_to_byte n) | _ => bad_args end
  else if fn_is "byte_to_int" fn then
    match args with [VB b] => vres_i (byte_to_int b) | _ => bad_args end
  (* ---- Spec/P2P.v: the strict protocol decoders ---- *)
  else if fn_is "read_cs" fn then
    match args with [VB s] => vres (fun '(n, r) => VL [VI n; VB r]) (read_cs s) | _ => bad_args end
  else if fn_is "p2p_version_decode" fn then
    match args with
    | [VB s] => vres (fun '(v, r) => VL [vversion v; VB r]) (p2p_version_decode s)
    | _ => bad_args end
  else if fn_is "p2p_getheaders_decode" fn then
    match args with
    | [VB s] => vres (fun '(v, loc, stop, r) => VL [VI v; vbl loc; VB stop; VB r]) (p2p_getheaders_decode s)
    | _ => bad_args end
  else if fn_is "p2p_getdata_decode" fn then
    match args with
    | [VB s] =>
        vres (fun '(items, r) => VL [VL (map (fun it => VL [VI (fst it); VB (snd it)]) items); VB r])
             (p2p_getdata_decode s)
    | _ => bad_args end
  else if fn_is "p2p_getcfilters_decode" fn then
    match args with
    | [VB s] => vres (fun '(t, h, stop, r) => VL [VI t; VI h; VB stop; VB r]) (p2p_getcfilters_decode s)
    | _ => bad_args end
  else if fn_is "p2p_getcfcheckpt_decode" fn then
    match args with
    | [VB s] => vres (fun '(t, stop, r) => VL [VI t; VB stop; VB r]) (p2p_getcfcheckpt_decode s)
    | _ => bad_args end
  (* ---- Model/Wire.v ---- *)
  else if fn_is "version_default_serialize" fn then
    match args with
    | [VI now; VI r] => vres_b (m <- version_default now r ;; version_serialize m)
    | _ => bad_args end
  else if fn_is "randint_bounds" fn then
    match args with [] => VL [VI randint_lo; VI randint_hi] | _ => bad_args end
  else if fn_is "node_send" fn then
    match args with
    | [VI net; VB cmd; VB payload] => vres_b (node_send (o_hash256 H) net cmd (Ok payload))
    | _ => bad_args end
  else if fn_is "node_wait_for" fn then
    match args with
    | [VI net; VL wanted; VB s] =>
        match vals_bytes wanted with
        | Some w =>
            vres (fun '(m, rest, sent) => VL [vmsg H m; VB rest; vbl sent])
                 (node_wait_for_msg (o_hash256 H) net w s)
        | None => bad_args
        end
    | _ => bad_args end
  else if fn_is "node_handshake" fn then
    match args with
    | [VI net; VI now; VI r; VB s] =>
        vres (fun '(rest, sent) => VL [VB rest; vbl sent]) (node_handshake (o_hash256 H) net now r s)
    | _ => bad_args end
  (* ---- Model/Hex.v ---- *)
  else if fn_is "hex_decode" fn then
    match args with [VB t] => vres_b (hex_decode t) | _ => bad_args end
  else if fn_is "hex_encode" fn then
    match args with [VB b] => VB (hex_encode b) | _ => bad_args end
  else if fn_is "parse_header_hex" fn then
    match args with
    | [VB t] => vres (fun '(h, _) => vheader h) (parse_header_hex t)   (* the stream is internal *)
    | _ => bad_args end
  else if fn_is "cfilter_eq" fn then
    match args with
    | [VB s1; VB s2] =>
        vres_bool ('(t1, bh1, fb1, _, _) <- cfilter_parse s1 ;;
                   '(t2, bh2, fb2, _, _) <- cfilter_parse s2 ;;
                   Ok (cfilter_eq (t1, bh1, fb1) (t2, bh2, fb2)))
    | _ => bad_args end
  else if fn_is "cfilter_hash" fn then
    match args with
    | [VB s1] => vres_b ('(_, _, fb, _, _) <- cfilter_parse s1 ;; Ok (o_hash256 H fb))
    | _ => bad_args end
  else bad_args.
