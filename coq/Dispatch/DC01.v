(* Dispatch/DC01.v — entry points of the ECDSA model and of the specs (Spec/Ecdsa.v,
   Spec/Rfc6979.v) on secp256k1 for the correspondence check. *)
From Coq Require Import String.
From V Require Import Base.Prelude Base.Ints Base.Disp Model.Pecc Model.EcdsaApi Proofs.GroupHyp
  Spec.Ecdsa Spec.Rfc6979 Spec.Rfc6979Seq.
Open Scope string_scope.
Open Scope Z_scope.

Definition K1 := secp256k1.
Definition fuel_k : nat := 200.

Definition vpt (P : point) : val :=
  match P with None => VL [] | Some (x, y) => VL [VI x; VI y] end.
Definition vrs (rs : Z * Z) : val := let '(r, s) := rs in VL [VI r; VI s].
Definition vopt_i (o : option Z) : val := match o with Some z => VI z | None => VErr end.

(* a point argument: () is the point at infinity, (x y) goes through S256Point(x, y) *)
Definition arg_point (v : val) : option (result point) :=
  match v with
  | VL [] => Some (Ok None)
  | VL [VI x; VI y] => Some (mk_point_int K1 x y)
  | _ => None
  end.

(* A second, deliberately weak instance of the HMAC parameter (the theorems hold for every
   function): the real HMAC followed by a fixed transformation that makes about half of the
   candidates fall outside [1, n-1], so that the RFC 6979 retry branch — unreachable with
   the real HMAC (probability 2^-128) — is exercised by the correspondence check.  The
   harness applies the same transformation on the implementation side. *)
Definition weaken (d : bytes) : bytes :=
  let t := last d 0 mod 4 in
  if t =? 2 then repeatz 255 16 ++ skipn 16 d
  else if t =? 3 then repeatz 0 32
  else d.

Definition vseq (o : option (nat * Z)) : val :=
  match o with Some (i, k) => VL [VI (Z.of_nat i); VI k] | None => VErr end.

(* the outer API of Model/EcdsaApi.v: sign(z).der(), sign_message, verify(z, Signature.parse(b)),
   verify_message, S256Point.parse(sec).verify(...), Signature.parse(b).der(); and the sequence form of RFC 6979
   (Spec/Rfc6979Seq.v), which also returns the number of rejected candidates *)
Definition dispatch_api (H : oracle) (fn : list Z) (args : list val) : option val :=
  let hm := o_hmac_sha256 H in
  let hw := fun k m => weaken (o_hmac_sha256 H k m) in
  let h256 := o_hash256 H in
  if fn_is "sign_der" fn then
    Some match args with [VI d; VI z] => vres_b (sign_der K1 hm fuel_k d z) | _ => bad_args end
  else if fn_is "sign_message" fn then
    Some match args with [VI d; VB m] => vres vrs (sign_message K1 hm h256 fuel_k d m) | _ => bad_args end
  else if fn_is "sign_message_der" fn then
    Some match args with [VI d; VB m] => vres_b (sign_message_der K1 hm h256 fuel_k d m) | _ => bad_args end
  else if fn_is "verify_der" fn then
    Some match args with
    | [pv; VI z; VB b] =>
        match arg_point pv with
        | Some rp => vres_bool (P <- rp ;; verify_der K1 P z b)
        | None => bad_args
        end
    | _ => bad_args end
  else if fn_is "verify_message" fn then
    Some match args with
    | [pv; VB m; VI r; VI s] =>
        match arg_point pv with
        | Some rp => vres_bool (P <- rp ;; verify_message K1 h256 P m r s)
        | None => bad_args
        end
    | _ => bad_args end
  else if fn_is "verify_message_der" fn then
    Some match args with
    | [pv; VB m; VB b] =>
        match arg_point pv with
        | Some rp => vres_bool (P <- rp ;; verify_message_der K1 h256 P m b)
        | None => bad_args
        end
    | _ => bad_args end
  else if fn_is "verify_wire" fn then
    Some match args with [VB sb; VI z; VB b] => vres_bool (verify_wire K1 sb z b) | _ => bad_args end
  else if fn_is "der_reencode" fn then
    Some match args with [VB b] => vres_b (der_reencode b) | _ => bad_args end
  else if fn_is "rfc6979_seq" fn then
    Some match args with [VI d; VB h1] => vseq (rfc6979_seq (cn K1) hm fuel_k d h1) | _ => bad_args end
  else if fn_is "rfc6979_seq_weak" fn then
    Some match args with [VI d; VB h1] => vseq (rfc6979_seq (cn K1) hw fuel_k d h1) | _ => bad_args end
  else None.

Definition dispatch (H : oracle) (fn : list Z) (args : list val) : val :=
  let hm := o_hmac_sha256 H in
  let hw := fun k m => weaken (o_hmac_sha256 H k m) in
  match dispatch_api H fn args with Some v => v | None =>
  if fn_is "det_k_weak" fn then
    match args with [VI d; VI z] => vres_i (deterministic_k K1 hw fuel_k d z) | _ => bad_args end
  else if fn_is "rfc6979_weak" fn then
    match args with [VI d; VB h1] => vopt_i (rfc6979_k (cn K1) hw fuel_k d h1) | _ => bad_args end
  else
  if fn_is "det_k" fn then
    match args with [VI d; VI z] => vres_i (deterministic_k K1 hm fuel_k d z) | _ => bad_args end
  else if fn_is "rfc6979" fn then
    match args with [VI d; VB h1] => vopt_i (rfc6979_k (cn K1) hm fuel_k d h1) | _ => bad_args end
  else if fn_is "sign_k" fn then
    match args with
    | [VI d; VI z; VI k] => vres vrs (_ <- pubkey K1 d ;; ecdsa_sign_k K1 d z k)
    | _ => bad_args end
  else if fn_is "sign" fn then
    match args with
    | [VI d; VI z] => vres vrs (_ <- pubkey K1 d ;; ecdsa_sign K1 hm fuel_k d z)
    | _ => bad_args end
  else if fn_is "pubkey" fn then
    match args with [VI d] => vres vpt (pubkey K1 d) | _ => bad_args end
  else if fn_is "verify" fn then
    match args with
    | [pv; VI z; VI r; VI s] =>
        match arg_point pv with
        | Some rp => vres_bool (P <- rp ;; ecdsa_verify K1 P z r s)
        | None => bad_args
        end
    | _ => bad_args end
  else if fn_is "ecdsa_ok" fn then
    match args with
    | [pv; VI z; VI r; VI s] =>
        match arg_point pv with
        | Some (Ok P) => vbool (ecdsa_okb K1 P z r s)
        | Some Err => VErr
        | None => bad_args
        end
    | _ => bad_args end
  else if fn_is "der" fn then
    match args with [VI r; VI s] => vres_b (der r s) | _ => bad_args end
  else if fn_is "der_parse" fn then
    match args with [VB b] => vres vrs (der_parse b) | _ => bad_args end
  else bad_args
  end.
