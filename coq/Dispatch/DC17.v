(* Dispatch/DC17.v — entry points of the C17 models and specs for the correspondence check. *)
From Coq Require Import String.
From V Require Import Base.Prelude Base.Ints Base.Disp Model.Helper Model.Block Model.Merkle
  Model.MerkleBlock Model.Pow Spec.Bip37 Spec.CorePow.
From V Require Import Model.Network Model.MerkleBlockX Model.Difficulty Spec.MerkleBlockWire.
Open Scope string_scope.
Open Scope Z_scope.

Definition vheader (h : header) : val :=
  VL [VI (h_version h); VB (h_prev h); VB (h_root h); VI (h_time h); VB (h_bits h); VB (h_nonce h)].

Definition header_of (l : list val) : option header :=
  match l with
  | [VI v; VB p; VB m; VI t; VB b; VB n] =>
      Some {| h_version := v; h_prev := p; h_root := m; h_time := t; h_bits := b; h_nonce := n |}
  | _ => None
  end.

Fixpoint headers_of (l : list val) : option (list header) :=
  match l with
  | [] => Some []
  | VL f :: r =>
      match header_of f, headers_of r with
      | Some h, Some t => Some (h :: t)
      | _, _ => None
      end
  | _ => None
  end.

Definition vpynum (t : pynum) : val :=
  match t with
  | PInt z => VL [VI 0; VI z]
  | PFloat c k => VL [VI 1; VI (c * 256 ^ (3 - k))]      (* the float times 2^24, an exact integer *)
  end.

Definition vroot_proved (r : bytes * list bytes) : val := let '(root, proved) := r in VL [VB root; vbl proved].
Definition vvalid (r : bool * list bytes) : val := let '(ok, proved) := r in VL [vbool ok; vbl proved].

(* totals above this are never sent (unary nat in the extracted code) *)
Definition total_ok (t : Z) : bool := t <? 4194304.

Definition dispatch (H : oracle) (fn : list Z) (args : list val) : val :=
  let h256 := o_hash256 H in
  if fn_is "merkle_parent" fn then
    match args with [VB a; VB b] => VB (merkle_parent h256 a b) | _ => bad_args end
  else if fn_is "merkle_parent_level" fn then
    match args with
    | [VL l] => match vals_bytes l with
                | Some hs => vres (fun '(p, m) => VL [vbl p; vbl m]) (merkle_parent_level h256 hs)
                | None => bad_args end
    | _ => bad_args end
  else if fn_is "merkle_root" fn then
    match args with
    | [VL l] => match vals_bytes l with
                | Some hs => vres (fun '(r, m) => VL [VB r; vbl m]) (merkle_root h256 hs)
                | None => bad_args end
    | _ => bad_args end
  else if fn_is "consensus_root" fn then
    match args with
    | [VL l] => match vals_bytes l with
                | Some hs => VB (consensus_root h256 hs)
                | None => bad_args end
    | _ => bad_args end
  else if fn_is "validate_merkle_root" fn then
    match args with
    | [VB root; VL l] => match vals_bytes l with
                | Some hs => vres_bool (validate_merkle_root h256 root hs)
                | None => bad_args end
    | _ => bad_args end
  else if fn_is "bytes_to_bit_field" fn then
    match args with [VB b] => vil (bytes_to_bit_field b) | _ => bad_args end
  else if fn_is "bit_field_to_bytes" fn then
    match args with
    | [VL l] => match vals_ints l with Some bits => vres_b (bit_field_to_bytes bits) | None => bad_args end
    | _ => bad_args end
  else if fn_is "mt_shape" fn then
    match args with
    | [VI total] =>
        if total_ok total then
          vres (fun t => VL [VI (Z.of_nat (mt_maxd t)); vil (map (fun l => zlen l) (mt_nodes t))])
               (mt_init total)
        else bad_args
    | _ => bad_args end
  else if fn_is "mt_depth" fn then
    match args with
    | [VI total] => if total <? 1 then VErr else VI (Z.of_nat (max_depth total))
    | _ => bad_args end
  else if fn_is "populate" fn then
    match args with
    | [VI total; VL bits; VL hs] =>
        match vals_ints bits, vals_bytes hs with
        | Some b, Some h => if total_ok total then vres vroot_proved (populate_tree h256 total b h) else bad_args
        | _, _ => bad_args end
    | _ => bad_args end
  else if fn_is "populate_rec" fn then
    match args with
    | [VI total; VL bits; VL hs] =>
        match vals_ints bits, vals_bytes hs with
        | Some b, Some h => if total_ok total then vres vroot_proved (populate_tree_rec h256 total b h) else bad_args
        | _, _ => bad_args end
    | _ => bad_args end
  else if fn_is "mb_is_valid" fn then
    match args with
    | [VB root; VI total; VL hs; VB flags] =>
        match vals_bytes hs with
        | Some h => if total_ok total then vres vvalid (mb_is_valid h256 root total h flags) else bad_args
        | None => bad_args end
    | _ => bad_args end
  else if fn_is "mb_is_valid_rec" fn then
    match args with
    | [VB root; VI total; VL hs; VB flags] =>
        match vals_bytes hs with
        | Some h => if total_ok total then vres vvalid (mb_is_valid_rec h256 root total h flags) else bad_args
        | None => bad_args end
    | _ => bad_args end
  else if fn_is "populate_mut" fn then
    match args with
    | [VI total; VL bits; VL hs] =>
        match vals_ints bits, vals_bytes hs with
        | Some b, Some h =>
            if total_ok total then
              vres (fun '(r, p, b', h') => VL [VB r; vbl p; vil b'; vbl h']) (populate_tree_mut h256 total b h)
            else bad_args
        | _, _ => bad_args end
    | _ => bad_args end
  else if fn_is "populate_rec_mut" fn then
    match args with
    | [VI total; VL bits; VL hs] =>
        match vals_ints bits, vals_bytes hs with
        | Some b, Some h =>
            if total_ok total then
              vres (fun '(r, p, b', h') => VL [VB r; vbl p; vil b'; vbl h']) (populate_tree_rec_mut h256 total b h)
            else bad_args
        | _, _ => bad_args end
    | _ => bad_args end
  else if fn_is "mb_parse_is_valid" fn then
    (* MerkleBlock.parse(s) then is_valid(), proved_txs(); the announced total is checked against
       total_ok before the (unary) tree is built *)
    match args with
    | [VB s] =>
        match mb_parse s with
        | Ok (_, total, _, _, _) =>
            if total_ok total then vres vvalid (mb_parse_is_valid h256 s) else bad_args
        | Err => VErr
        end
    | _ => bad_args end
  else if fn_is "headers_parse_is_valid" fn then
    match args with [VB s] => vres_bool (headers_parse_is_valid h256 s) | _ => bad_args end
  else if fn_is "merkleblock_bytes" fn then
    match args with
    | [VB hb; VI total; VL hs; VB flags] =>
        match vals_bytes hs with
        | Some h => VB (merkleblock_bytes hb total h flags)
        | None => bad_args end
    | _ => bad_args end
  else if fn_is "merkleblock_of_block" fn then
    match args with
    | [VB hb; VL txids; VL m] =>
        match vals_bytes txids, vals_ints m with
        | Some tx, Some ms => VB (merkleblock_of_block h256 hb tx (map (fun z => negb (z =? 0)) ms))
        | _, _ => bad_args end
    | _ => bad_args end
  else if fn_is "mb_parse" fn then
    match args with
    | [VB s] =>
        vres (fun '(hdr, total, hashes, flags, rest) =>
                VL [vheader hdr; VI total; vbl hashes; VB flags; VB rest]) (mb_parse s)
    | _ => bad_args end
  else if fn_is "bip37_build" fn then
    match args with
    | [VL txids; VL m] =>
        match vals_bytes txids, vals_ints m with
        | Some tx, Some ms =>
            let vm := map (fun z => negb (z =? 0)) ms in
            let '(bits, hashes) := build h256 tx vm in
            let '(total, _, flags) := bip37_proof h256 tx vm in
            VL [VI total; vil (map (fun b : bool => if b then 1 else 0) bits); vbl hashes; VB flags]
        | _, _ => bad_args end
    | _ => bad_args end
  else if fn_is "bits_to_target" fn then
    match args with [VB b] => vres vpynum (bits_to_target b) | _ => bad_args end
  else if fn_is "difficulty" fn then
    (* Block.difficulty() as float.as_integer_ratio() *)
    match args with
    | [VB b] => vres (fun me => let '(n, d) := ratio_of me in VL [VI n; VI d]) (difficulty b)
    | _ => bad_args end
  else if fn_is "target_to_bits" fn then
    match args with [VI t] => vres_b (target_to_bits t) | _ => bad_args end
  else if fn_is "calculate_new_bits" fn then
    match args with [VB b; VI td] => vres_b (calculate_new_bits b td) | _ => bad_args end
  else if fn_is "block_hash" fn then
    match header_of args with Some h => vres_b (block_hash h256 h) | None => bad_args end
  else if fn_is "check_pow" fn then
    match header_of args with Some h => vres_bool (check_pow h256 h) | None => bad_args end
  else if fn_is "headers_is_valid" fn then
    match args with
    | [VL l] => match headers_of l with Some hs => vres_bool (headers_is_valid h256 hs) | None => bad_args end
    | _ => bad_args end
  else if fn_is "core_set_compact" fn then
    match args with
    | [VI n] => let '(v, neg, ovf) := set_compact n in VL [VI v; vbool neg; vbool ovf]
    | _ => bad_args end
  else if fn_is "core_get_compact" fn then
    match args with [VI v] => VI (get_compact v) | _ => bad_args end
  else if fn_is "core_next_work" fn then
    match args with [VI n; VI ts] => VI (next_work_required n ts) | _ => bad_args end
  else if fn_is "core_check_pow" fn then
    match args with [VI h; VI n] => vbool (check_proof_of_work h n) | _ => bad_args end
  else bad_args.
