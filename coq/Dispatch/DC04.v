(* Dispatch/DC04.v — entry points of the C04 model (script / witness / tx codec, txid,
   fetcher) for the correspondence check.
   Value encoding:  command  VI opcode | VB data
                    script   VL [VL cmds; VL [] | VL [VB raw]]
                    txin     VL [VB prev_tx; VI prev_index; script; VI sequence; VL witness_items]
                    txout    VL [VI amount; script]
                    tx       VL [VI version; VL ins; VL outs; VI locktime; VI segwit]          *)
From Coq Require Import String.
From V Require Import Base.Prelude Base.Ints Base.Disp Model.Helper Model.Script Model.Tx
  Model.Fetcher Model.TxStream Model.FetcherNet.
Open Scope string_scope.
Open Scope Z_scope.

(* ---- decoders ---- *)
Fixpoint dec_list {A} (f : val -> option A) (l : list val) : option (list A) :=
  match l with
  | [] => Some []
  | v :: r => match f v, dec_list f r with Some a, Some t => Some (a :: t) | _, _ => None end
  end.

Definition dec_cmd (v : val) : option cmd :=
  match v with VI o => Some (Op o) | VB b => Some (Push b) | _ => None end.

Definition dec_script (v : val) : option script :=
  match v with
  | VL [VL cs; VL []] =>
      match dec_list dec_cmd cs with Some c => Some {| s_cmds := c; s_raw := None |} | None => None end
  | VL [VL cs; VL [VB raw]] =>
      match dec_list dec_cmd cs with Some c => Some {| s_cmds := c; s_raw := Some raw |} | None => None end
  | _ => None
  end.

Definition dec_txin (v : val) : option txin :=
  match v with
  | VL [VB pt; VI pi; sc; VI sq; VL w] =>
      match dec_script sc, vals_bytes w with
      | Some s, Some items =>
          Some {| i_prev_tx := pt; i_prev_index := pi; i_script := s; i_sequence := sq;
                  i_witness := items |}
      | _, _ => None
      end
  | _ => None
  end.

Definition dec_txout (v : val) : option txout :=
  match v with
  | VL [VI am; sc] =>
      match dec_script sc with Some s => Some {| o_amount := am; o_script := s |} | None => None end
  | _ => None
  end.

Definition dec_tx (v : val) : option tx :=
  match v with
  | VL [VI ver; VL ins; VL outs; VI lt; VI sw] =>
      match dec_list dec_txin ins, dec_list dec_txout outs with
      | Some i, Some o =>
          Some {| t_version := ver; t_ins := i; t_outs := o; t_locktime := lt;
                  t_segwit := negb (sw =? 0) |}
      | _, _ => None
      end
  | _ => None
  end.

(* ---- construction through the API: TxIn(...) applies Sequence(n), Tx(...) applies
   Locktime(n); both raise outside [0, 2^32 - 1] ---- *)
Definition u32 (n : Z) : bool := (0 <=? n) && (n <=? 4294967295).
Definition build_txin (i : txin) : result txin := if u32 (i_sequence i) then Ok i else Err.
Definition build_tx (t : tx) : result tx :=
  if forallb (fun i => u32 (i_sequence i)) (t_ins t) && u32 (t_locktime t) then Ok t else Err.

(* ---- encoders ---- *)
Definition enc_cmd (c : cmd) : val := match c with Op o => VI o | Push b => VB b end.
Definition enc_script (s : script) : val :=
  VL [VL (map enc_cmd (s_cmds s)); match s_raw s with None => VL [] | Some r => VL [VB r] end].
Definition enc_txin (i : txin) : val :=
  VL [VB (i_prev_tx i); VI (i_prev_index i); enc_script (i_script i); VI (i_sequence i);
      vbl (i_witness i)].
Definition enc_txout (o : txout) : val := VL [VI (o_amount o); enc_script (o_script o)].
Definition enc_tx (t : tx) : val :=
  VL [VI (t_version t); VL (map enc_txin (t_ins t)); VL (map enc_txout (t_outs t));
      VI (t_locktime t); vbool (t_segwit t)].

(* which class ScriptPubKey.parse returns: 0 generic, 1 p2pkh, 2 p2sh, 3 p2wpkh, 4 p2wsh, 5 p2tr *)
Definition spk_kind (cs : list cmd) : Z :=
  if is_p2pkh cs then 1 else if is_p2sh cs then 2 else if is_p2wpkh cs then 3
  else if is_p2wsh cs then 4 else if is_p2tr cs then 5 else 0.

Fixpoint dec_ops (l : list val) : option (list (bool * bytes * list Z)) :=
  match l with
  | [] => Some []
  | VL [VI fresh; VB resp; VB id] :: r =>
      match dec_ops r with Some t => Some ((negb (fresh =? 0), resp, id) :: t) | None => None end
  | _ => None
  end.

Fixpoint dec_net_ops (l : list val) : option (list (bool * bytes * list Z * list Z)) :=
  match l with
  | [] => Some []
  | VL [VI fresh; VB resp; VB id; VB net] :: r =>
      match dec_net_ops r with Some t => Some ((negb (fresh =? 0), resp, id, net) :: t) | None => None end
  | _ => None
  end.

(* a stream position from the wire: small by construction (guarded before Z.to_nat) *)
Definition dec_stream (data : bytes) (pos : Z) : option stream :=
  if (pos <? 0) || (zlen data + 64 <? pos) then None
  else Some {| st_data := data; st_pos := Z.to_nat pos |}.
Definition enc_stream (st : stream) : list val := [VB (st_rest st); VI (Z.of_nat (st_pos st))].

(* the deepening entry points: Tx.parse at a stream position, back-to-back transactions,
   parse_hex / clone / Script.parse_hex / + / ==, the fetcher with its network argument *)
Definition dispatch2 (H : oracle) (fn : list Z) (args : list val) : val :=
  if fn_is "tx_parse_st" fn then
    match args with
    | [VB data; VI pos] =>
        match dec_stream data pos with
        | Some st => vres (fun '(t, st') => VL (enc_tx t :: enc_stream st')) (tx_parse_st st)
        | None => bad_args end
    | _ => bad_args end
  else if fn_is "tx_parse_seq" fn then
    match args with
    | [VI k; VB data; VI pos] =>
        match dec_stream data pos with
        | Some st =>
            if (k <? 0) || (64 <? k) then bad_args
            else vres (fun '(ts, st') => VL (VL (map enc_tx ts) :: enc_stream st'))
                      (tx_parse_seq (Z.to_nat k) st)
        | None => bad_args end
    | _ => bad_args end
  else if fn_is "tx_parse_hex" fn then
    match args with [VB txt] => vres enc_tx (tx_parse_hex txt) | _ => bad_args end
  else if fn_is "tx_clone" fn then
    match args with
    | [v] => match dec_tx v with
             | Some t => vres enc_tx (t' <- build_tx t ;; tx_clone t')
             | None => bad_args end
    | _ => bad_args end
  else if fn_is "script_parse_hex" fn then
    match args with [VB txt] => vres enc_script (script_parse_hex txt) | _ => bad_args end
  else if fn_is "script_add" fn then
    match args with
    | [a; b] =>
        match dec_script a, dec_script b with
        | Some x, Some y =>
            VL [enc_script (script_add x y); vres_b (raw_serialize (script_add x y));
                vres_b (serialize_script (script_add x y))]
        | _, _ => bad_args end
    | _ => bad_args end
  else if fn_is "script_eq" fn then
    match args with
    | [a; b] =>
        match dec_script a, dec_script b with
        | Some x, Some y => vbool (script_eqb x y)
        | _, _ => bad_args end
    | _ => bad_args end
  else if fn_is "script_parse_args" fn then
    match args with
    | [VL st; VL rw] =>
        match st, rw with
        | ([] | [VB _]), ([] | [VB _]) =>
            let o (l : list val) := match l with [VB b] => Some b | _ => None end in
            vres (fun '(sc, rest) => VL [enc_script sc; vopt VB rest]) (script_parse_args (o st) (o rw))
        | _, _ => bad_args end
    | _ => bad_args end
  else if fn_is "tx_defaults" fn then
    (* Tx(version, [TxIn(prev_tx, prev_index) ...], outs).serialize() and its fields *)
    match args with
    | [VI ver; VL pts; VL outs] =>
        let dec_pt (v : val) := match v with VL [VB pt; VI pi] => Some (txin_default pt pi) | _ => None end in
        match dec_list dec_pt pts, dec_list dec_txout outs with
        | Some i, Some o =>
            let t := tx_default ver i o in VL [enc_tx t; vres_b (tx_serialize t)]
        | _, _ => bad_args end
    | _ => bad_args end
  else if fn_is "txin_prevout" fn then
    (* TxIn(...).value(net), .script_pubkey(net) on an empty cache; the URL requested *)
    match args with
    | [v; VB net; VB resp] =>
        match dec_txin v with
        | Some i =>
            match build_txin i with
            | Err => VL [VErr; VL []]
            | Ok i' =>
                let '(_, r, u) := txin_prevout (o_hash256 H) [] i' net resp in
                VL [vres (fun o => VL [VI (o_amount o); enc_script (o_script o)]) r; vopt VB u]
            end
        | None => bad_args end
    | _ => bad_args end
  else if fn_is "fetch_net_run" fn then
    match args with
    | [VL ops] =>
        match dec_net_ops ops with
        | Some o =>
            VL (VI (zlen o) ::
                map (fun '(r, u) => VL [vres (fun '(t, n) => VL [enc_tx t; VB n]) r; vopt VB u])
                    (fetch_net_run (o_hash256 H) [] o))
        | None => bad_args end
    | _ => bad_args end
  else bad_args.

Definition dispatch (H : oracle) (fn : list Z) (args : list val) : val :=
  if fn_is "parse_raw" fn then
    match args with [VB raw] => vres enc_script (parse_raw raw) | _ => bad_args end
  else if fn_is "raw_serialize" fn then
    match args with
    | [sc] => match dec_script sc with Some s => vres_b (raw_serialize s) | None => bad_args end
    | _ => bad_args end
  else if fn_is "parse_script" fn then
    match args with
    | [VB s] => vres (fun '(sc, r) => VL [enc_script sc; VB r]) (parse_script s)
    | _ => bad_args end
  else if fn_is "serialize_script" fn then
    match args with
    | [sc] => match dec_script sc with Some s => vres_b (serialize_script s) | None => bad_args end
    | _ => bad_args end
  else if fn_is "parse_script_pubkey" fn then
    match args with
    | [VB s] =>
        vres (fun '(sc, r) => VL [enc_script sc; VI (spk_kind (s_cmds sc)); VB r]) (parse_script_pubkey s)
    | _ => bad_args end
  else if fn_is "witness_parse" fn then
    match args with
    | [VB s] => vres (fun '(w, r) => VL [vbl w; VB r]) (witness_parse s)
    | _ => bad_args end
  else if fn_is "witness_serialize" fn then
    match args with
    | [VL w] => match vals_bytes w with Some items => vres_b (witness_serialize items) | None => bad_args end
    | _ => bad_args end
  else if fn_is "txin_parse" fn then
    match args with
    | [VB s] => vres (fun '(i, r) => VL [enc_txin i; VB r]) (txin_parse s)
    | _ => bad_args end
  else if fn_is "txin_serialize" fn then
    match args with
    | [v] => match dec_txin v with
             | Some i => vres_b (i' <- build_txin i ;; txin_serialize i')
             | None => bad_args end
    | _ => bad_args end
  else if fn_is "txout_parse" fn then
    match args with
    | [VB s] =>
        vres (fun '(o, r) => VL [enc_txout o; VI (spk_kind (s_cmds (o_script o))); VB r]) (txout_parse s)
    | _ => bad_args end
  else if fn_is "txout_serialize" fn then
    match args with
    | [v] => match dec_txout v with Some o => vres_b (txout_serialize o) | None => bad_args end
    | _ => bad_args end
  else if fn_is "tx_parse" fn then
    match args with
    | [VB s] => vres (fun '(t, r) => VL [enc_tx t; VB r]) (tx_parse s)
    | _ => bad_args end
  else if fn_is "tx_build" fn then
    match args with
    | [v] => match dec_tx v with Some t => vres enc_tx (build_tx t) | None => bad_args end
    | _ => bad_args end
  else if fn_is "tx_serialize" fn then
    match args with
    | [v] => match dec_tx v with
             | Some t => vres_b (t' <- build_tx t ;; tx_serialize t')
             | None => bad_args end
    | _ => bad_args end
  else if fn_is "serialize_legacy" fn then
    match args with
    | [v] => match dec_tx v with
             | Some t => vres_b (t' <- build_tx t ;; serialize_legacy t')
             | None => bad_args end
    | _ => bad_args end
  else if fn_is "serialize_segwit" fn then
    match args with
    | [v] => match dec_tx v with
             | Some t => vres_b (t' <- build_tx t ;; serialize_segwit t')
             | None => bad_args end
    | _ => bad_args end
  else if fn_is "tx_hash" fn then
    match args with
    | [v] => match dec_tx v with
             | Some t => vres_b (t' <- build_tx t ;; tx_hash (o_hash256 H) t')
             | None => bad_args end
    | _ => bad_args end
  else if fn_is "tx_id" fn then
    match args with
    | [v] => match dec_tx v with
             | Some t => vres_b (t' <- build_tx t ;; tx_id (o_hash256 H) t')
             | None => bad_args end
    | _ => bad_args end
  else if fn_is "tx_roundtrip" fn then
    (* serialize then parse, in one call *)
    match args with
    | [v; VB rest] =>
        match dec_tx v with
        | Some t => vres (fun '(t2, r) => VL [enc_tx t2; VB r])
                         (t' <- build_tx t ;; b <- tx_serialize t' ;; tx_parse (b ++ rest))
        | None => bad_args end
    | _ => bad_args end
  else if fn_is "fetch_check" fn then
    match args with
    | [VB raw; VB id] => vres enc_tx (fetch_check (o_hash256 H) raw id)
    | _ => bad_args end
  else if fn_is "fetch_text" fn then
    match args with
    | [VB resp; VB id] => vres enc_tx (fetch_text (o_hash256 H) resp id)
    | _ => bad_args end
  else if fn_is "fetch_run" fn then
    match args with
    | [VL ops] =>
        match dec_ops ops with
        | Some o => VL (VI (zlen o) :: map (vres enc_tx) (fetch_run (o_hash256 H) [] o))
        | None => bad_args end
    | _ => bad_args end
  else if fn_is "fromhex" fn then
    match args with
    | [VB resp] => vres_b (txt <- utf8_decode resp ;; fromhex (strip txt))
    | _ => bad_args end
  else if fn_is "hexlify" fn then
    match args with [VB b] => VB (hexlify b) | _ => bad_args end
  else dispatch2 H fn args.
