(* Dispatch/DC08.v — entry points of the C08 model (BIP32, xkey codec, blinding) on secp256k1. *)
From Coq Require Import String.
From V Require Import Base.Prelude Base.Ints Base.Disp Model.Pecc Model.Hd Model.HdStr Spec.Bip32.
Open Scope string_scope.
Open Scope Z_scope.

Definition Cv := secp256k1.

Definition vpoint (P : Pecc.point) : val :=
  match P with None => VL [] | Some (x, y) => VL [VI x; VI y] end.

(* private key: secret, sec(point), chain code, depth, parent fp, child number, network,
   priv_version, pub_version *)
Definition vpriv (k : hdpriv) : val :=
  VL [VI (sk k); vres_b (sec (sk_pt k) true); VB (sk_cc k); VI (sk_depth k); VB (sk_pfp k);
      VI (sk_num k); VI (sk_net k); VB (sk_ver k); VB (sk_pubver k)].
Definition vpub (k : hdpub) : val :=
  VL [vpoint (pk k); VB (pk_cc k); VI (pk_depth k); VB (pk_pfp k); VI (pk_num k); VI (pk_net k);
      VB (pk_ver k)].

Definition vopt_b (v : val) : option (option bytes) :=
  match v with VL [] => Some None | VB b => Some (Some b) | _ => None end.
Definition vopt_i (v : val) : option (option Z) :=
  match v with VL [] => Some None | VI z => Some (Some z) | _ => None end.

(* [secret; cc; depth; pfp; num; net; ver; pubver] -> HDPrivateKey(PrivateKey(secret), ...) *)
Definition get_priv (v : val) : option (result hdpriv) :=
  match v with
  | VL [VI s; VB cc; VI d; VB pfp; VI num; VI net; VB ver; VB pv] =>
      Some (mk_priv Cv s cc d pfp num net (Some ver) (Some pv))
  | _ => None
  end.
(* [point; cc; depth; pfp; num; net; ver] -> HDPublicKey(S256Point(x, y), ...) *)
Definition get_pub (v : val) : option (result hdpub) :=
  match v with
  | VL [VL pt; VB cc; VI d; VB pfp; VI num; VI net; VB ver] =>
      match pt with
      | [] => Some (mk_pub None cc d pfp num net (Some ver))
      | [VI x; VI y] => Some (P <- mk_point_int Cv x y ;; mk_pub P cc d pfp num net (Some ver))
      | _ => None
      end
  | _ => None
  end.

Definition vtext (t : list Z) : val := VB t.

Definition dispatch (H : oracle) (fn : list Z) (args : list val) : val :=
  let hm := o_hmac_sha512 H in
  let h160 := o_hash160 H in
  if fn_is "from_seed" fn then
    match args with
    | [VB seed; VI net; v1; v2] =>
        match vopt_b v1, vopt_b v2 with
        | Some ver, Some pv => vres vpriv (from_seed Cv hm seed net ver pv)
        | _, _ => bad_args
        end
    | _ => bad_args end
  else if fn_is "child_priv" fn then
    match args with
    | [kv; VI i] =>
        match get_priv kv with
        | Some rk => vres vpriv (k <- rk ;; child_priv Cv hm h160 k i)
        | None => bad_args end
    | _ => bad_args end
  else if fn_is "child_pub" fn then
    match args with
    | [kv; VI i] =>
        match get_pub kv with
        | Some rk => vres vpub (k <- rk ;; child_pub Cv hm h160 k i)
        | None => bad_args end
    | _ => bad_args end
  else if fn_is "pub_of" fn then
    match args with
    | [kv] =>
        match get_priv kv with
        | Some rk => vres vpub (k <- rk ;; Ok (pub_of k))
        | None => bad_args end
    | _ => bad_args end
  else if fn_is "traverse_priv" fn then
    match args with
    | [kv; VB path] =>
        match get_priv kv with
        | Some rk => vres vpriv (k <- rk ;; traverse_priv Cv hm h160 k path)
        | None => bad_args end
    | _ => bad_args end
  else if fn_is "traverse_pub" fn then
    match args with
    | [kv; VB path] =>
        match get_pub kv with
        | Some rk => vres vpub (k <- rk ;; traverse_pub Cv hm h160 k path)
        | None => bad_args end
    | _ => bad_args end
  else if fn_is "path_indexes_priv" fn then
    match args with [VB path] => vres vil (path_indexes_priv path) | _ => bad_args end
  else if fn_is "path_indexes_pub" fn then
    match args with [VB path] => vres vil (path_indexes_pub path) | _ => bad_args end
  else if fn_is "py_int" fn then
    match args with [VB s] => vres_i (py_int s) | _ => bad_args end
  else if fn_is "is_valid_path" fn then
    match args with [VB path] => vbool (is_valid_path path) | _ => bad_args end
  else if fn_is "combine_paths" fn then
    match args with [VB a; VB b] => vres vtext (combine_paths a b) | _ => bad_args end
  else if fn_is "ltrim_path" fn then
    match args with [VB a; VI d] => vres vtext (ltrim_path a d) | _ => bad_args end
  else if fn_is "xprv_raw" fn then
    match args with
    | [kv; v1] =>
        match get_priv kv, vopt_b v1 with
        | Some rk, Some ver => vres_b (k <- rk ;; xprv_raw k ver)
        | _, _ => bad_args end
    | _ => bad_args end
  else if fn_is "xpub_raw" fn then
    match args with
    | [kv; v1] =>
        match get_pub kv, vopt_b v1 with
        | Some rk, Some ver => vres_b (k <- rk ;; xpub_raw k ver)
        | _, _ => bad_args end
    | _ => bad_args end
  else if fn_is "raw_serialize_pub" fn then
    match args with
    | [kv] =>
        match get_pub kv with
        | Some rk => vres_b (k <- rk ;; raw_serialize_pub k)
        | None => bad_args end
    | _ => bad_args end
  else if fn_is "parse_priv" fn then
    match args with [VB raw] => vres vpriv (parse_priv Cv raw) | _ => bad_args end
  else if fn_is "parse_pub" fn then
    match args with [VB raw] => vres vpub (parse_pub Cv raw) | _ => bad_args end
  else if fn_is "raw_parse_priv" fn then
    match args with
    | [VB raw; v1] =>
        match vopt_i v1 with
        | Some net => vres vpriv (raw_parse_priv Cv raw net)
        | None => bad_args end
    | _ => bad_args end
  else if fn_is "raw_parse_pub" fn then
    match args with
    | [VB raw; v1] =>
        match vopt_i v1 with
        | Some net => vres vpub (raw_parse_pub Cv raw net)
        | None => bad_args end
    | _ => bad_args end
  else if fn_is "fingerprint" fn then
    match args with
    | [kv] =>
        match get_pub kv with
        | Some rk => vres_b (k <- rk ;; fingerprint_pt h160 (pk k))
        | None => bad_args end
    | _ => bad_args end
  else if fn_is "blind_xpub" fn then
    match args with
    | [VB raw; VB sp; VB secret] =>
        vres (fun '(x, full) => VL [VB x; vtext full]) (blind_xpub Cv hm h160 raw sp secret)
    | _ => bad_args end
  (* ---- string layer (Base58Check model of C09) ---- *)
  else if fn_is "xprv_str" fn then
    match args with
    | [kv; v1] =>
        match get_priv kv, vopt_b v1 with
        | Some rk, Some ver => vres vtext (k <- rk ;; xprv_str (o_hash256 H) k ver)
        | _, _ => bad_args end
    | _ => bad_args end
  else if fn_is "xpub_str" fn then
    match args with
    | [kv; v1] =>
        match get_pub kv, vopt_b v1 with
        | Some rk, Some ver => vres vtext (k <- rk ;; xpub_str (o_hash256 H) k ver)
        | _, _ => bad_args end
    | _ => bad_args end
  else if fn_is "parse_priv_str" fn then
    match args with [VB s] => vres vpriv (parse_priv_str Cv (o_hash256 H) s) | _ => bad_args end
  else if fn_is "parse_pub_str" fn then
    match args with [VB s] => vres vpub (parse_pub_str Cv (o_hash256 H) s) | _ => bad_args end
  (* ---- Spec/Bip32.v, so that the independent transcription is also run against the code ---- *)
  else if fn_is "spec_ckd_priv" fn then
    match args with
    | [VI k; VB c; VI i] =>
        vopt (fun '(k', c') => VL [VI k'; VB c']) (CKDpriv Cv hm (k, c) i)
    | _ => bad_args end
  else if fn_is "spec_ckd_pub" fn then
    match args with
    | [VL [VI x; VI y]; VB c; VI i] =>
        vopt (fun '(K', c') => VL [vpoint K'; VB c']) (CKDpub Cv hm (Some (x, y), c) i)
    | _ => bad_args end
  else if fn_is "spec_master" fn then
    match args with
    | [VB seed] => vopt (fun '(k', c') => VL [VI k'; VB c']) (master Cv hm seed)
    | _ => bad_args end
  else bad_args.
