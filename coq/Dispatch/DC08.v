(* Dispatch/DC08.v — entry points of the C08 model (BIP32, xkey codec, blinding) on secp256k1. *)
From Coq Require Import String.
From V Require Import Base.Prelude Base.Ints Base.Disp Model.Pecc Model.Hd Model.HdStr Model.HdText Model.HdMemo Spec.Bip32.
Open Scope string_scope.
Open Scope Z_scope.

Definition Cv := secp256k1.

Definition vpoint (P : Pecc.point) : val :=
  match P with None => VL [] | Some (x, y) => VL [VI x; VI y] end.

(* private key: secret, sec(point), chain code, depth, parent fp, child number, network,
   priv_version, pub_version *)
Definition vpriv (k : hdpriv) : val :=
  VL [VI (sk k); vres_b (sec (sk_pt k) true); VB (sk_cc k); VI (sk_depth k); VB (sk_pfp k);
      VI (sk_num k); VI (sk_net k); VB (sk_ver k); VB (sk_pubver k)].
Definition vpub (k : hdpub) : val :=
  VL [vpoint (pk k); VB (pk_cc k); VI (pk_depth k); VB (pk_pfp k); VI (pk_num k); VI (pk_net k);
      VB (pk_ver k)].

Definition vopt_b (v : val) : option (option bytes) :=
  match v with VL [] => Some None | VB b => Some (Some b) | _ => None end.
Definition vopt_i (v : val) : option (option Z) :=
  match v with VL [] => Some None | VI z => Some (Some z) | _ => None end.

(* [secret; cc; depth; pfp; num; net; ver; pubver] -> HDPrivateKey(PrivateKey(secret), ...) *)
Definition get_priv (v : val) : option (result hdpriv) :=
  match v with
  | VL [VI s; VB cc; VI d; VB pfp; VI num; VI net; VB ver; VB pv] =>
      Some (mk_priv Cv s cc d pfp num net (Some ver) (Some pv))
  | _ => None
  end.
(* [point; cc; depth; pfp; num; net; ver] -> HDPublicKey(S256Point(x, y), ...) *)
Definition get_pub (v : val) : option (result hdpub) :=
  match v with
  | VL [VL pt; VB cc; VI d; VB pfp; VI num; VI net; VB ver] =>
      match pt with
      | [] => Some (mk_pub None cc d pfp num net (Some ver))
      | [VI x; VI y] => Some (P <- mk_point_int Cv x y ;; mk_pub P cc d pfp num net (Some ver))
      | _ => None
      end
  | _ => None
  end.

Definition vtext (t : list Z) : val := VB t.

Definition dispatch (H : oracle) (fn : list Z) (args : list val) : val :=
  let hm := o_hmac_sha512 H in
  let h160 := o_hash160 H in
  if fn_is "from_seed" fn then
    match args with
    | [VB seed; VI net; v1; v2] =>
        match vopt_b v1, vopt_b v2 with
        | Some ver, Some pv => vres vpriv (from_seed Cv hm seed net ver pv)
        | _, _ => bad_args
        end
    | _ => bad_args end
  else if fn_is "child_priv" fn then
    match args with
    | [kv; VI i] =>
        match get_priv kv with
        | Some rk => vres vpriv (k <- rk ;; child_priv Cv hm h160 k i)
        | None => bad_args end
    | _ => bad_args end
  else if fn_is "child_pub" fn then
    match args with
    | [kv; VI i] =>
        match get_pub kv with
        | Some rk => vres vpub (k <- rk ;; child_pub Cv hm h160 k i)
        | None => bad_args end
    | _ => bad_args end
  else if fn_is "pub_of" fn then
    match args with
    | [kv] =>
        match get_priv kv with
        | Some rk => vres vpub (k <- rk ;; Ok (pub_of k))
        | None => bad_args end
    | _ => bad_args end
  else if fn_is "traverse_priv" fn then
    match args with
    | [kv; VB path] =>
        match get_priv kv with
        | Some rk => vres vpriv (k <- rk ;; traverse_priv Cv hm h160 k path)
        | None => bad_args end
    | _ => bad_args end
  else if fn_is "traverse_pub" fn then
    match args with
    | [kv; VB path] =>
        match get_pub kv with
        | Some rk => vres vpub (k <- rk ;; traverse_pub Cv hm h160 k path)
        | None => bad_args end
    | _ => bad_args end
  else if fn_is "path_indexes_priv" fn then
    match args with [VB path] => vres vil (path_indexes_priv path) | _ => bad_args end
  else if fn_is "path_indexes_pub" fn then
    match args with [VB path] => vres vil (path_indexes_pub path) | _ => bad_args end
  else if fn_is "py_int" fn then
    match args with [VB s] => vres_i (py_int s) | _ => bad_args end
  else if fn_is "is_valid_path" fn then
    match args with [VB path] => vbool (is_valid_path path) | _ => bad_args end
  else if fn_is "combine_paths" fn then
    match args with [VB a; VB b] => vres vtext (combine_paths a b) | _ => bad_args end
  else if fn_is "ltrim_path" fn then
    match args with [VB a; VI d] => vres vtext (ltrim_path a d) | _ => bad_args end
  else if fn_is "xprv_raw" fn then
    match args with
    | [kv; v1] =>
        match get_priv kv, vopt_b v1 with
        | Some rk, Some ver => vres_b (k <- rk ;; xprv_raw k ver)
        | _, _ => bad_args end
    | _ => bad_args end
  else if fn_is "xpub_raw" fn then
    match args with
    | [kv; v1] =>
        match get_pub kv, vopt_b v1 with
        | Some rk, Some ver => vres_b (k <- rk ;; xpub_raw k ver)
        | _, _ => bad_args end
    | _ => bad_args end
  else if fn_is "raw_serialize_pub" fn then
    match args with
    | [kv] =>
        match get_pub kv with
        | Some rk => vres_b (k <- rk ;; raw_serialize_pub k)
        | None => bad_args end
    | _ => bad_args end
  else if fn_is "parse_priv" fn then
    match args with [VB raw] => vres vpriv (parse_priv Cv raw) | _ => bad_args end
  else if fn_is "parse_pub" fn then
    match args with [VB raw] => vres vpub (parse_pub Cv raw) | _ => bad_args end
  else if fn_is "raw_parse_priv" fn then
    match args with
    | [VB raw; v1] =>
        match vopt_i v1 with
        | Some net => vres vpriv (raw_parse_priv Cv raw net)
        | None => bad_args end
    | _ => bad_args end
  else if fn_is "raw_parse_pub" fn then
    match args with
    | [VB raw; v1] =>
        match vopt_i v1 with
        | Some net => vres vpub (raw_parse_pub Cv raw net)
        | None => bad_args end
    | _ => bad_args end
  else if fn_is "fingerprint" fn then
    match args with
    | [kv] =>
        match get_pub kv with
        | Some rk => vres_b (k <- rk ;; fingerprint_pt h160 (pk k))
        | None => bad_args end
    | _ => bad_args end
  else if fn_is "blind_xpub" fn then
    match args with
    | [VB raw; VB sp; VB secret] =>
        vres (fun '(x, full) => VL [VB x; vtext full]) (blind_xpub Cv hm h160 raw sp secret)
    | _ => bad_args end
  (* ---- string layer (Base58Check model of C09) ---- *)
  else if fn_is "xprv_str" fn then
    match args with
    | [kv; v1] =>
        match get_priv kv, vopt_b v1 with
        | Some rk, Some ver => vres vtext (k <- rk ;; xprv_str (o_hash256 H) k ver)
        | _, _ => bad_args end
    | _ => bad_args end
  else if fn_is "xpub_str" fn then
    match args with
    | [kv; v1] =>
        match get_pub kv, vopt_b v1 with
        | Some rk, Some ver => vres vtext (k <- rk ;; xpub_str (o_hash256 H) k ver)
        | _, _ => bad_args end
    | _ => bad_args end
  else if fn_is "parse_priv_str" fn then
    match args with [VB s] => vres vpriv (parse_priv_str Cv (o_hash256 H) s) | _ => bad_args end
  else if fn_is "parse_pub_str" fn then
    match args with [VB s] => vres vpub (parse_pub_str Cv (o_hash256 H) s) | _ => bad_args end
  (* ---- the path texts the library writes (Model/HdText.v) ---- *)
  else if fn_is "dec" fn then
    match args with [VI z] => vtext (dec z) | _ => bad_args end
  else if fn_is "path_text" fn then
    match args with
    | [VI m; VI mark; VL l] =>
        match vals_ints l with Some idxs => vtext (path_text m mark idxs) | None => bad_args end
    | _ => bad_args end
  else if fn_is "secure_secret_path" fn then
    match args with
    | [VI depth; VL l] =>
        match vals_ints l with
        | Some draws => vres vtext (secure_secret_path_of depth draws)
        | None => bad_args end
    | _ => bad_args end
  else if fn_is "get_private_key_path" fn then
    match args with
    | [VB purpose; VI net; VI account; VI ext; VI addr] =>
        vtext (get_private_key_path purpose net account (negb (ext =? 0)) addr)
    | _ => bad_args end
  (* HDPrivateKey.get_private_key(...).secret: the f-string handed to the real traverse *)
  else if fn_is "get_private_key" fn then
    match args with
    | [kv; VB purpose; VI account; VI ext; VI addr] =>
        match get_priv kv with
        | Some rk =>
            vres_i (k <- rk ;;
                    k' <- traverse_priv Cv hm h160 k
                            (get_private_key_path purpose (sk_net k) account (negb (ext =? 0)) addr) ;;
                    Ok (sk k'))
        | None => bad_args end
    | _ => bad_args end
  (* ONE HDPublicKey object: raw_serialize() called once per listed depth, the attribute .depth
     being reassigned to that value before each call (the _raw memo, Model/HdMemo.v) *)
  else if fn_is "raw_serialize_history" fn then
    match args with
    | [kv; VL ds] =>
        match get_pub kv, vals_ints ds with
        | Some (Ok k), Some depths =>
            VL (map vres_b (raw_serialize_history None
                  (map (fun d => {| pk := pk k; pk_cc := pk_cc k; pk_depth := d; pk_pfp := pk_pfp k;
                                    pk_num := pk_num k; pk_net := pk_net k; pk_ver := pk_ver k |}) depths)))
        | Some Err, Some _ => VErr
        | _, _ => bad_args end
    | _ => bad_args end
  (* ---- Spec/Bip32.v, so that the independent transcription is also run against the code ---- *)
  (* the public key tree: point, chain code, index path, version -> xpub bytes of the node *)
  else if fn_is "spec_tree_pub" fn then
    match args with
    | [VL [VI x; VI y]; VB c; VL l; VB pv] =>
        match vals_ints l with
        | Some idxs =>
            vopt (fun nd => VB (ser_pnode pv nd))
                 (descend_pub Cv hm h160
                    {| pn_key := (Some (x, y), c); pn_depth := 0; pn_pfp := [0;0;0;0]; pn_num := 0 |} idxs)
        | None => bad_args end
    | _ => bad_args end
  (* the key tree and the serialization format of the standard: seed, index path, version bytes
     -> [xprv bytes; xpub bytes] of the node, [] if the standard calls a step invalid *)
  else if fn_is "spec_tree" fn then
    match args with
    | [VB seed; VL l; VB v; VB pv] =>
        match vals_ints l with
        | Some idxs =>
            vopt (fun nd => VL [VB (ser_node_priv v nd); VB (ser_node_pub Cv pv nd)])
                 (match master_node Cv hm seed with
                  | Some mn => descend Cv hm h160 mn idxs
                  | None => None end)
        | None => bad_args end
    | _ => bad_args end
  else if fn_is "spec_ckd_priv" fn then
    match args with
    | [VI k; VB c; VI i] =>
        vopt (fun '(k', c') => VL [VI k'; VB c']) (CKDpriv Cv hm (k, c) i)
    | _ => bad_args end
  else if fn_is "spec_ckd_pub" fn then
    match args with
    | [VL [VI x; VI y]; VB c; VI i] =>
        vopt (fun '(K', c') => VL [vpoint K'; VB c']) (CKDpub Cv hm (Some (x, y), c) i)
    | _ => bad_args end
  else if fn_is "spec_master" fn then
    match args with
    | [VB seed] => vopt (fun '(k', c') => VL [VI k'; VB c']) (master Cv hm seed)
    | _ => bad_args end
  else bad_args.
