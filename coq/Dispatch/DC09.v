(* Dispatch/DC09.v — entry points of the C09 model for the correspondence check. *)
From Coq Require Import String.
From V Require Import Base.Prelude Base.Ints Base.Disp Model.Helper Model.Script Model.Base58
  Model.Bech32 Model.Address Model.AddressExt.
Open Scope string_scope.
Open Scope Z_scope.

Definition vcmd (c : cmd) : val := match c with Op o => VI o | Push b => VB b end.
Definition vcmds (cs : list cmd) : val := VL (map vcmd cs).
Definition zb (z : Z) : bool := negb (z =? 0).
Fixpoint vals_cmds (l : list val) : option (list cmd) :=
  match l with
  | [] => Some []
  | VI o :: r => match vals_cmds r with Some t => Some (Op o :: t) | None => None end
  | VB b :: r => match vals_cmds r with Some t => Some (Push b :: t) | None => None end
  | _ => None
  end.

Definition dispatch (H : oracle) (fn : list Z) (args : list val) : val :=
  if fn_is "encode_base58" fn then
    match args with [VB s] => vres_b (encode_base58 s) | _ => bad_args end
  else if fn_is "encode_base58_checksum" fn then
    match args with [VB s] => vres_b (encode_base58_checksum (o_hash256 H) s) | _ => bad_args end
  else if fn_is "raw_decode_base58" fn then
    match args with [VB s] => vres_b (raw_decode_base58 (o_hash256 H) s) | _ => bad_args end
  else if fn_is "decode_base58" fn then
    match args with [VB s] => vres_b (decode_base58 (o_hash256 H) s) | _ => bad_args end
  else if fn_is "polymod" fn then
    match args with
    | [VL l] => match vals_ints l with Some v => VI (bech32_polymod v) | None => bad_args end
    | _ => bad_args end
  else if fn_is "hrp_expand" fn then
    match args with [VB s] => vil (hrp_expand s) | _ => bad_args end
  else if fn_is "create_checksum" fn then
    match args with
    | [VI m; VB hrp; VL l] =>
        match vals_ints l with
        | Some d => vil (if zb m then bech32m_create_checksum hrp d else bech32_create_checksum hrp d)
        | None => bad_args end
    | _ => bad_args end
  else if fn_is "verify_checksum" fn then
    match args with
    | [VI m; VB hrp; VL l] =>
        match vals_ints l with
        | Some d => vbool (if zb m then bech32m_verify_checksum hrp d else bech32_verify_checksum hrp d)
        | None => bad_args end
    | _ => bad_args end
  else if fn_is "group_32" fn then
    match args with [VB s] => vres vil (group_32 s) | _ => bad_args end
  else if fn_is "encode_bech32_checksum" fn then
    match args with [VB s; VI net] => vres_b (encode_bech32_checksum s net) | _ => bad_args end
  else if fn_is "decode_bech32" fn then
    match args with
    | [VB s] => vres (fun '(n, v, h) => VL [VI n; VI v; VB h]) (decode_bech32 s)
    | _ => bad_args end
  else if fn_is "address" fn then
    match args with
    | [VI t; VB h; VI net] =>
        let hh := o_hash256 H in
        vres_b (if t =? 0 then p2pkh_address hh h net
                else if t =? 1 then p2sh_address hh h net
                else if t =? 2 then p2wpkh_address h net
                else if t =? 3 then p2wsh_address h net
                else p2tr_address h net)
    | _ => bad_args end
  else if fn_is "address_to_script_pubkey" fn then
    match args with
    | [VB s] => vres vcmds (address_to_script_pubkey (o_hash256 H) s) | _ => bad_args end
  else if fn_is "to_address" fn then
    match args with
    | [VB s] => vres vcmds (to_address_spk (o_hash256 H) s) | _ => bad_args end
  else if fn_is "wif_encode" fn then
    match args with
    | [VI secret; VI mainnet; VI compressed] =>
        vres_b (wif_encode (o_hash256 H) secret (zb mainnet) (zb compressed))
    | _ => bad_args end
  else if fn_is "wif_parse" fn then
    match args with
    | [VB s] => vres (fun '(sec, m, c) => VL [VI sec; vbool m; vbool c]) (wif_parse (o_hash256 H) s)
    | _ => bad_args end
  else if fn_is "redeem_address" fn then
    match args with
    | [VL l; VI net] =>
        match vals_cmds l with
        | Some cs => vres_b (redeem_script_address (o_hash256 H) (o_hash160 H) cs net)
        | None => bad_args end
    | _ => bad_args end
  else if fn_is "segwit_p2sh_address" fn then
    match args with
    | [VL l; VI net] =>
        match vals_cmds l with
        | Some cs => vres_b (segwit_p2sh_address (o_hash256 H) (o_hash160 H) cs net)
        | None => bad_args end
    | _ => bad_args end
  else if fn_is "witness_address" fn then
    match args with
    | [VL l; VI net] =>
        match vals_cmds l with
        | Some cs => vres_b (witness_script_address (o_sha256 H) cs net)
        | None => bad_args end
    | _ => bad_args end
  else if fn_is "witness_p2sh_address" fn then
    match args with
    | [VL l; VI net] =>
        match vals_cmds l with
        | Some cs => vres_b (witness_script_p2sh_address (o_hash256 H) (o_hash160 H) (o_sha256 H) cs net)
        | None => bad_args end
    | _ => bad_args end
  else if fn_is "spk_bytes_address" fn then
    match args with
    | [VB s; VI net] => vres_b (spk_bytes_address (o_hash256 H) s net) | _ => bad_args end
  else if fn_is "address_to_spk_bytes" fn then
    match args with
    | [VB a] => vres_b (address_to_spk_bytes (o_hash256 H) a) | _ => bad_args end
  else bad_args.
