#!/usr/bin/env python3
"""Regenerates MANIFEST.json from the per-property notes below (kept in one place so that it stays valid)."""
import json
import os

V = os.path.dirname(os.path.dirname(os.path.abspath(__file__)))
ALL = [f"C{i:02d}" for i in range(1, 21)]

CHECKS = {
    "C19": dict(
        text="Coq theorems over an executable Gallina model of the envelope, compact-size, var-string, fixed-width "
             "integer, header and message codecs (round trips for every value/width, soundness of envelope "
             "acceptance incl. wrong magic / checksum / short payload, prefix-freeness of compact-size), tied to "
             "/repo on every run by running the extracted model and the implementation on the same inputs.",
        note="Trusted: Coq kernel; extraction (ExtrOcamlBasic, ExtrOcamlZBigInt) and OCaml driver; Python "
             "harness; hashlib. hash256 is universally quantified with the hypothesis that its output has 32 "
             "bytes. All C19 theorems are closed under the global context. Serialize-only messages (version, "
             "getheaders, getdata, getcf*) have no parser in the library: their layout is the model and is "
             "additionally compared with an independent struct.pack layout in the harness.",
        technique="Coq proof (induction over byte lists / arithmetic) + extracted-model correspondence",
        design="§7 C19"),
}


def main():
    mdir = os.path.join(V, "harness", "manifest")
    if os.path.isdir(mdir):
        for f in sorted(os.listdir(mdir)):
            if f.endswith(".json"):
                CHECKS[f[:-5]] = json.load(open(os.path.join(mdir, f)))
    checks = []
    for pid in ALL:
        if pid not in CHECKS:
            continue
        c = CHECKS[pid]
        checks.append({
            "property_id": pid,
            "quick_cmd": f"./check {pid} --tier quick",
            "thorough_cmd": f"./check {pid} --tier thorough",
            "evidence_file": f"/verif/evidence/{pid}.json",
            "replay_cmd_template": "./check --replay {path}",
            "engine": "coq-model",
            "level_claimed": {"category": "proof", "text": c["text"], "design_ref": c.get("design", "§7 " + pid)},
            "level_note": c["note"],
            "technique": c["technique"],
        })
    na = [{"property_id": p, "reason": "not yet covered by the committed machinery (work in progress; see DESIGN.md §9)"}
          for p in ALL if p not in CHECKS]
    m = {
        "version": 1,
        "setup_cmd": "sh /verif/setup.sh",
        "hooks": {"guard": "BUIDL_PYTHON_VERIF", "enable": "no source hooks are needed: the harness imports /repo directly "
                  "and substitutes randomness/time from the harness process", "baseline_off_cmd":
                  "cd /repo && /venv/bin/python -m pytest -ra -q -p no:cacheprovider --timeout=900 --continue-on-collection-errors",
                  "source_commits": [], "add_only": True},
        "engines": [{"name": "coq-model", "path": "/verif/coq", "serves_properties": [c["property_id"] for c in checks],
                     "kind_free_text": "Coq 8.16 development (Model/ Spec/ Proofs/ Props/), extracted to OCaml "
                                       "(build/<id>/driver) and compared with /repo by harness/props/<id>.py"}],
        "checks": checks,
        "not_applicable": na,
        "notes": "Every check: (1) full make of coq/, re-check of Props/<id>.v with Print Assumptions scraped and an "
                 "Admitted/Axiom gate; (2) correspondence of the extracted model with /repo; (3) property predicates on "
                 "the implementation; (4) KNOWN_FINDINGS.json replays. See DESIGN.md.",
    }
    json.dump(m, open(os.path.join(V, "MANIFEST.json"), "w"), indent=1)
    # KNOWN_FINDINGS.json = the per-property fragments findings/<id>.json merged into one committed file
    allf = []
    fdir = os.path.join(V, "findings")
    for f in sorted(os.listdir(fdir)):
        if f.endswith(".json"):
            allf += json.load(open(os.path.join(fdir, f))).get("findings", [])
    json.dump({"comment": "Committed list of genuine defects of /repo, merged from findings/<id>.json by harness/mk_manifest.py. "
               "status=known: still present, reported as KNOWN-FINDING and not as a violation (matched through the "
               "property module's classify()); status=fixed: repaired by the named fix: commit, its replay is a regression "
               "case that raises a VIOLATION if it fails again. Never written at run time.",
               "findings": allf}, open(os.path.join(V, "KNOWN_FINDINGS.json"), "w"), indent=1)


if __name__ == "__main__":
    main()
