#!/bin/sh
# harness/seed_eval.sh <PID> <name> <worktree-with-change> <out-dir-of-the-agent>
# Confirms a seeded change (tests still pass, demo fails with / passes without the change), runs the check against
# it, and files everything under /verif/seeded/<PID>/<name>/.
PID=$1; NAME=$2; WT=$3; OUT=$4
DEST=/verif/seeded/$PID/$NAME
mkdir -p $DEST
cp $OUT/patch.diff $OUT/demo.py $DEST/ 2>/dev/null
cp $OUT/notes.md $DEST/notes.md 2>/dev/null
cd $WT || exit 1
git diff > $DEST/patch.diff
# 1. import + demo both ways
PYTHONPATH=/repo /venv/bin/python $DEST/demo.py > $DEST/demo_clean.log 2>&1; D0=$?
PYTHONPATH=$WT /venv/bin/python $DEST/demo.py > $DEST/demo_mutant.log 2>&1; D1=$?
# 2. existing tests on the mutated tree (library tests; the pexpect CLI tests are run by the final full-suite pass)
nice -n -5 /venv/bin/python -m pytest -q -p no:cacheprovider -p no:rerunfailures --timeout=900 buidl/test > $DEST/pytest.log 2>&1
TESTSUM=$(tail -1 $DEST/pytest.log)
NEWFAIL=$(grep "^FAILED" $DEST/pytest.log | grep -v socket_guard | wc -l)
# 3. the check against the mutated tree
cd /verif
VERIF_REPO=$WT ./check $PID --tier quick > $DEST/check_quick.log 2>&1; C=$?
grep -E "^VIOLATION|^KNOWN-FINDING" $DEST/check_quick.log > $DEST/check_lines.txt
REPLAY=$(grep -m1 "^VIOLATION" $DEST/check_quick.log | sed 's/.*replay=\([^ ]*\).*/\1/')
[ -n "$REPLAY" ] && [ -f "$REPLAY" ] && cp "$REPLAY" $DEST/replay.json
/venv/bin/python - "$PID" "$NAME" "$DEST" "$D0" "$D1" "$NEWFAIL" "$C" "$TESTSUM" <<'PY'
import sys, json, os
pid, name, dest, d0, d1, newfail, c, testsum = sys.argv[1:9]
lines = open(os.path.join(dest, "check_lines.txt")).read().splitlines()
meta = {
 "property": pid, "name": name,
 "breaks": "see notes.md (written by the independent sub-agent that produced the change)",
 "confirmed": {
   "demo_exit_on_unmodified_tree": int(d0), "demo_exit_on_changed_tree": int(d1),
   "pytest_buidl_test_on_changed_tree": testsum, "new_test_failures_besides_socket_guard": int(newfail),
 },
 "check": {"cmd": f"VERIF_REPO=<worktree> ./check {pid} --tier quick", "exit": int(c), "lines": lines,
           "caught": int(c) == 1 and any(l.startswith("VIOLATION") for l in lines),
           "with_failing_input": any(l.startswith("VIOLATION") and "no-failing-input-found" not in l for l in lines)},
}
json.dump(meta, open(os.path.join(dest, "meta.json"), "w"), indent=1)
print(json.dumps(meta["confirmed"]), json.dumps(meta["check"]))
PY
