#!/usr/bin/env python3
"""seed_recheck.py <PID> <name> <worktree> "<history note>" — re-run the check against a seeded change after the
check was strengthened, and update seeded/<PID>/<name>/meta.json (keeps the first result under `first_result`)."""
import json, os, shutil, subprocess, sys
pid, name, wt, note = sys.argv[1:5]
dest = f"/verif/seeded/{pid}/{name}"
meta = json.load(open(f"{dest}/meta.json"))
env = dict(os.environ, VERIF_REPO=wt)
p = subprocess.run(["./check", pid, "--tier", "quick"], cwd="/verif", env=env, stdout=subprocess.PIPE, stderr=subprocess.STDOUT, text=True)
open(f"{dest}/check_quick.log", "w").write(p.stdout)
lines = [l for l in p.stdout.splitlines() if l.startswith(("VIOLATION", "KNOWN-FINDING"))]
for l in lines:
    if l.startswith("VIOLATION"):
        rp = l.split("replay=")[1].split()[0]
        if os.path.exists(rp):
            shutil.copy(rp, f"{dest}/replay.json")
        break
meta.setdefault("first_result", meta["check"])
meta["check"] = {"cmd": f"VERIF_REPO=<worktree> ./check {pid} --tier quick", "exit": p.returncode, "lines": lines,
                 "caught": p.returncode == 1 and any(l.startswith("VIOLATION") for l in lines),
                 "with_failing_input": any(l.startswith("VIOLATION") and "no-failing-input-found" not in l for l in lines)}
meta["history"] = note
json.dump(meta, open(f"{dest}/meta.json", "w"), indent=1)
print(json.dumps(meta["check"])[:400])
