"""Generates coq/Generated/DescConsts.v from the SOURCE of /repo/buidl/descriptor.py.

Read with `ast` only (buidl is not imported, nothing is evaluated):
  * DESCRIPTOR_INPUT_CHARSET, DESCRIPTOR_CHECKSUM_CHARSET  (module-level string literals);
  * the character class of the checksum capture group `(\\#[...]{8})?` inside the regular expression of
    P2WSHSortedMulti.parse;
  * the constants of calc_poly_mod:  `c0 = c >> S`, `c = ((c & MASK) << SH) ^ val`, and the ordered list of
    `if c0 & BIT: c ^= GEN` statements.  Any other statement shape is an error (the Coq model mirrors exactly
    this shape, so a change of shape must be looked at by a person).
Idempotent: the file is rewritten only when its content would change.  Run from harness/props/c16.py at import.
"""
import ast
import os
import re

VERIF = os.path.dirname(os.path.dirname(os.path.abspath(__file__)))
OUT = os.path.join(VERIF, "coq", "Generated", "DescConsts.v")


def _source():
    import importlib.util
    spec = importlib.util.find_spec("buidl.descriptor")
    return open(spec.origin).read(), spec.origin


def _name(node, ident):
    return isinstance(node, ast.Name) and node.id == ident


def _int(node):
    if isinstance(node, ast.Constant) and type(node.value) is int:
        return node.value
    raise ValueError("integer literal expected: " + ast.dump(node)[:100])


def _polymod(fn):
    """-> (top_shift, low_mask, shl, [(bit, gen), ...])"""
    if [a.arg for a in fn.args.args] != ["c", "val"]:
        raise ValueError("calc_poly_mod(c, val) expected")
    body = [s for s in fn.body if not (isinstance(s, ast.Expr) and isinstance(s.value, ast.Constant))]
    s0, s1, rest, ret = body[0], body[1], body[2:-1], body[-1]
    # c0 = c >> S
    if not (isinstance(s0, ast.Assign) and _name(s0.targets[0], "c0") and isinstance(s0.value, ast.BinOp)
            and isinstance(s0.value.op, ast.RShift) and _name(s0.value.left, "c")):
        raise ValueError("`c0 = c >> S` expected")
    top = _int(s0.value.right)
    # c = ((c & MASK) << SH) ^ val
    v = s1.value if isinstance(s1, ast.Assign) and _name(s1.targets[0], "c") else None
    if not (isinstance(v, ast.BinOp) and isinstance(v.op, ast.BitXor) and _name(v.right, "val")
            and isinstance(v.left, ast.BinOp) and isinstance(v.left.op, ast.LShift)
            and isinstance(v.left.left, ast.BinOp) and isinstance(v.left.left.op, ast.BitAnd)
            and _name(v.left.left.left, "c")):
        raise ValueError("`c = ((c & MASK) << SH) ^ val` expected")
    mask, shl = _int(v.left.left.right), _int(v.left.right)
    gens = []
    for st in rest:
        ok = (isinstance(st, ast.If) and not st.orelse and len(st.body) == 1
              and isinstance(st.test, ast.BinOp) and isinstance(st.test.op, ast.BitAnd)
              and _name(st.test.left, "c0")
              and isinstance(st.body[0], ast.AugAssign) and isinstance(st.body[0].op, ast.BitXor)
              and _name(st.body[0].target, "c"))
        if not ok:
            raise ValueError("`if c0 & BIT: c ^= GEN` expected, got " + ast.dump(st)[:120])
        gens.append((_int(st.test.right), _int(st.body[0].value)))
    if not (isinstance(ret, ast.Return) and _name(ret.value, "c")):
        raise ValueError("`return c` expected")
    return top, mask, shl, gens


def extract(src):
    tree = ast.parse(src)
    out = {}
    for st in tree.body:
        if isinstance(st, ast.Assign) and len(st.targets) == 1 and isinstance(st.targets[0], ast.Name):
            if st.targets[0].id in ("DESCRIPTOR_INPUT_CHARSET", "DESCRIPTOR_CHECKSUM_CHARSET"):
                if not (isinstance(st.value, ast.Constant) and isinstance(st.value.value, str)):
                    raise ValueError(st.targets[0].id + " is not a string literal")
                out[st.targets[0].id] = st.value.value
        elif isinstance(st, ast.FunctionDef) and st.name == "calc_poly_mod":
            out["polymod"] = _polymod(st)
        elif isinstance(st, ast.ClassDef) and st.name == "P2WSHSortedMulti":
            for m in st.body:
                if isinstance(m, ast.FunctionDef) and m.name == "parse":
                    lits = [n.value for n in ast.walk(m) if isinstance(n, ast.Constant) and isinstance(n.value, str)
                            and "sortedmulti" in n.value and "wsh" in n.value and "(" in n.value and "[" in n.value]
                    pats = [re.search(r"\(\\#\[([^\]]*)\]\{(\d+)\}\)\?", s) for s in lits]
                    pats = [p for p in pats if p]
                    if len(pats) != 1:
                        raise ValueError("checksum group of the parse regex not found")
                    out["regex_class"] = pats[0].group(1)
                    out["regex_count"] = int(pats[0].group(2))
    need = {"DESCRIPTOR_INPUT_CHARSET", "DESCRIPTOR_CHECKSUM_CHARSET", "polymod", "regex_class", "regex_count"}
    if set(out) != need:
        raise ValueError("descriptor.py constants not found: " + ", ".join(sorted(need - set(out))))
    return out


def _z(s):
    return "[" + "; ".join(str(ord(ch)) for ch in s) + "]"


def render(t):
    top, mask, shl, gens = t["polymod"]
    lines = [
        "(* Generated/DescConsts.v — GENERATED by harness/gen_coq_c16.py from the source of",
        "   buidl/descriptor.py (charsets, the checksum character class of the parse regex, the constants of",
        "   calc_poly_mod).  Do not edit.  Text is a list of code points. *)",
        "From V Require Import Base.Prelude.",
        "",
        "Definition desc_input_charset : list Z :=",
        "  " + _z(t["DESCRIPTOR_INPUT_CHARSET"]) + ".",
        "",
        "Definition desc_checksum_charset : list Z :=",
        "  " + _z(t["DESCRIPTOR_CHECKSUM_CHARSET"]) + ".",
        "",
        "(* [...] class and repeat count of the capture group (\\#[...]{n})? in P2WSHSortedMulti.parse *)",
        "Definition desc_regex_checksum_class : list Z :=",
        "  " + _z(t["regex_class"]) + ".",
        f"Definition desc_regex_checksum_count : Z := {t['regex_count']}.",
        "",
        "(* calc_poly_mod:  c0 = c >> top_shift;  c = ((c & low_mask) << shl) ^ val;",
        "   then, in this order, `if c0 & bit: c ^= gen` for every (bit, gen) *)",
        f"Definition desc_top_shift : Z := {top}.",
        f"Definition desc_low_mask : Z := {mask}.",
        f"Definition desc_shl : Z := {shl}.",
        "Definition desc_gen : list (Z * Z) :=",
        "  [" + ";\n   ".join(f"({b}, {g})" for b, g in gens) + "].",
        "",
    ]
    return "\n".join(lines)


def main():
    src, _ = _source()
    text = render(extract(src))
    os.makedirs(os.path.dirname(OUT), exist_ok=True)
    try:
        if open(OUT).read() == text:
            return False
    except FileNotFoundError:
        pass
    tmp = OUT + ".tmp%d" % os.getpid()
    with open(tmp, "w") as f:
        f.write(text)
    os.replace(tmp, OUT)
    return True


if __name__ == "__main__":
    print("rewritten" if main() else "unchanged", OUT)
