#!/usr/bin/env python3
"""harness/mutation_adequacy.py — how good are the generators of a check?  (development tool, not a registered command)

For one property: (1) run the check once under `coverage` to learn which lines of the anchored source files the
check executes; (2) generate first-order mutants (one token each: comparison / boolean / arithmetic operator,
integer constant +-1, True<->False, dropped `not`, dropped `raise`, dropped stack/list call, any<->all, min<->max,
big<->little endian, dropped [::-1]) of the anchored files; (3) run `./check PID` against a scratch copy of the
library holding each mutant (fast mode: proof gate and vm_compute self-check skipped, evidence in a scratch
directory) and record whether it exits 1 with a VIOLATION; (4) for each surviving mutant run the repository's
own test file(s) for the mutated module: a mutant that survives BOTH is a gap (or an equivalent mutant) that has
to be triaged by hand.  Uncovered lines of the anchored files are reported as well.

Scratch trees live under /tmp/ma (removed at the end); nothing here is needed by a registered command.

usage: mutation_adequacy.py PID [--jobs N] [--max N] [--seed N] [--files a.py,b.py] [--lines file.py:lo-hi,...]
       results: /verif/mutation/<PID>.json (survivors with diffs, counts)
"""
import argparse
import ast
import concurrent.futures as cf
import difflib
import json
import os
import random
import re
import shutil
import subprocess
import sys
import time

VERIF = os.path.dirname(os.path.dirname(os.path.abspath(__file__)))
REPO = os.environ.get("VERIF_REPO", "/repo")
PY = "/venv/bin/python"
SCR = "/tmp/ma"

CMP = {"<": ["<="], "<=": ["<"], ">": [">="], ">=": [">"], "==": ["!="], "!=": ["=="],
       "in": ["not in"], "not in": ["in"], "is": ["is not"], "is not": ["is"]}
CMPOP = {ast.Lt: "<", ast.LtE: "<=", ast.Gt: ">", ast.GtE: ">=", ast.Eq: "==", ast.NotEq: "!=",
         ast.In: "in", ast.NotIn: "not in", ast.Is: "is", ast.IsNot: "is not"}
BIN = {ast.Add: ("+", ["-"]), ast.Sub: ("-", ["+"]), ast.Mult: ("*", ["+"]), ast.FloorDiv: ("//", ["*"]),
       ast.Mod: ("%", ["//"]), ast.LShift: ("<<", [">>"]), ast.RShift: (">>", ["<<"]),
       ast.BitAnd: ("&", ["|"]), ast.BitOr: ("|", ["&"]), ast.BitXor: ("^", ["|"]), ast.Pow: ("**", ["*"])}
RENAME = {"any": "all", "all": "any", "min": "max", "max": "min",
          "int_to_big_endian": "int_to_little_endian", "int_to_little_endian": "int_to_big_endian",
          "big_endian_to_int": "little_endian_to_int", "little_endian_to_int": "big_endian_to_int"}
DROP_CALLS = {"pop", "append", "extend", "insert", "reverse", "sort", "update", "add", "remove", "seek", "read"}


class Collector(ast.NodeVisitor):
    def __init__(self, srcb):
        self.b = srcb
        self.lines = srcb.split(b"\n")
        self.offs = [0]
        for ln in self.lines:
            self.offs.append(self.offs[-1] + len(ln) + 1)
        self.out = []          # (start, end, replacement bytes, lineno, description)
        self.depth = 0         # inside a function?

    def p(self, line, col):
        return self.offs[line - 1] + col

    def span(self, n):
        return self.p(n.lineno, n.col_offset), self.p(n.end_lineno, n.end_col_offset)

    def add(self, s, e, rep, lineno, desc):
        if self.depth > 0:
            self.out.append((s, e, rep.encode() if isinstance(rep, str) else rep, lineno, desc))

    def token_between(self, lo, hi, tok, reps, lineno, what):
        seg = self.b[lo:hi]
        pat = re.escape(tok.encode())
        if tok[0].isalpha():
            pat = rb"\b" + re.sub(rb"\\ ", rb"\\s+", pat) + rb"\b"
        m = re.search(pat, seg)
        if not m:
            return
        for r in reps:
            self.add(lo + m.start(), lo + m.end(), r, lineno, f"{what}: {tok} -> {r}")

    def visit_FunctionDef(self, n):
        self.depth += 1
        self.generic_visit(n)
        self.depth -= 1

    visit_AsyncFunctionDef = visit_FunctionDef

    def visit_Compare(self, n):
        left = n.left
        for op, right in zip(n.ops, n.comparators):
            tok = CMPOP.get(type(op))
            if tok:
                self.token_between(self.span(left)[1], self.span(right)[0], tok, CMP[tok], n.lineno, "compare")
            left = right
        self.generic_visit(n)

    def visit_BoolOp(self, n):
        tok = "and" if isinstance(n.op, ast.And) else "or"
        for a, b in zip(n.values, n.values[1:]):
            self.token_between(self.span(a)[1], self.span(b)[0], tok, ["or" if tok == "and" else "and"], n.lineno, "boolop")
        self.generic_visit(n)

    def visit_UnaryOp(self, n):
        if isinstance(n.op, ast.Not):
            s, _ = self.span(n)
            os_, _ = self.span(n.operand)
            # keep a parenthesis that may precede the operand
            seg = self.b[s:os_]
            m = re.match(rb"not\s*", seg)
            if m:
                self.add(s, s + m.end(), "", n.lineno, "drop not")
        self.generic_visit(n)

    def visit_BinOp(self, n):
        t = BIN.get(type(n.op))
        if t and not (isinstance(n.op, ast.Mod) and isinstance(n.left, ast.Constant) and isinstance(n.left.value, (str, bytes))):
            self.token_between(self.span(n.left)[1], self.span(n.right)[0], t[0], t[1], n.lineno, "binop")
        self.generic_visit(n)

    def visit_AugAssign(self, n):
        t = BIN.get(type(n.op))
        if t:
            self.token_between(self.span(n.target)[1], self.span(n.value)[0], t[0] + "=", [r + "=" for r in t[1]],
                               n.lineno, "augassign")
        self.generic_visit(n)

    def visit_Constant(self, n):
        s, e = self.span(n)
        v = n.value
        if v is True or v is False:
            self.add(s, e, "False" if v else "True", n.lineno, f"constant {v} -> {not v}")
        elif isinstance(v, int):
            txt = self.b[s:e].decode()
            hexa = txt.lower().startswith("0x")
            for w in (v + 1, v - 1):
                if w < 0:
                    rep = f"({w})"
                else:
                    rep = hex(w) if hexa else str(w)
                self.add(s, e, rep, n.lineno, f"constant {txt} -> {rep}")
        elif isinstance(v, bytes) and len(v) == 1:
            w = bytes([v[0] ^ 1])
            self.add(s, e, repr(w), n.lineno, f"constant {v!r} -> {w!r}")

    def visit_If(self, n):
        self._negate_test(n)
        self.generic_visit(n)

    visit_While = visit_If

    def _negate_test(self, n):
        t = n.test
        if not isinstance(t, (ast.Compare, ast.BoolOp, ast.UnaryOp, ast.Constant)):
            s, e = self.span(t)
            self.add(s, e, b"not (" + self.b[s:e] + b")", n.lineno, "negate condition")

    def visit_IfExp(self, n):
        self._negate_test(n)
        self.generic_visit(n)

    def visit_Raise(self, n):
        s, e = self.span(n)
        self.add(s, e, "pass", n.lineno, "raise -> pass")
        # do not mutate inside the raise expression (messages)

    def visit_Expr(self, n):
        c = n.value
        if isinstance(c, ast.Call) and isinstance(c.func, ast.Attribute) and c.func.attr in DROP_CALLS:
            s, e = self.span(n)
            self.add(s, e, "pass", n.lineno, f"drop call .{c.func.attr}()")
        if isinstance(c, ast.Constant):   # docstring
            return
        self.generic_visit(n)

    def visit_Call(self, n):
        f = n.func
        name = f.id if isinstance(f, ast.Name) else (f.attr if isinstance(f, ast.Attribute) else None)
        if name in RENAME:
            s, e = self.span(f)
            self.add(e - len(name), e, RENAME[name], n.lineno, f"call {name} -> {RENAME[name]}")
        if name in ("print", "format", "ValueError", "RuntimeError", "SyntaxError", "KeyError", "TypeError",
                    "NotImplementedError", "IndexError", "warn", "debug", "info", "warning", "error"):
            return
        self.generic_visit(n)

    def visit_Subscript(self, n):
        sl = n.slice
        if isinstance(sl, ast.Slice) and sl.lower is None and sl.upper is None and isinstance(sl.step, ast.UnaryOp) \
                and isinstance(sl.step.op, ast.USub) and isinstance(sl.step.operand, ast.Constant) and sl.step.operand.value == 1:
            _, ve = self.span(n.value)
            _, e = self.span(n)
            self.add(ve, e, "", n.lineno, "drop [::-1]")
            self.visit(n.value)
            return
        self.generic_visit(n)

    def visit_JoinedStr(self, n):   # f-strings: messages
        return

    def visit_Assert(self, n):
        return


def mutants_of(path):
    srcb = open(path, "rb").read()
    tree = ast.parse(srcb)
    c = Collector(srcb)
    c.visit(tree)
    res = []
    seen = set()
    for (s, e, rep, lineno, desc) in c.out:
        new = srcb[:s] + rep + srcb[e:]
        key = (s, e, rep)
        if key in seen or new == srcb:
            continue
        seen.add(key)
        try:
            ast.parse(new)
        except SyntaxError:
            continue
        res.append({"line": lineno, "desc": desc, "start": s, "end": e, "rep": rep.decode("latin1")})
    return srcb, res


def sh(cmd, env=None, timeout=None, cwd=None):
    try:
        p = subprocess.run(cmd, shell=isinstance(cmd, str), env=env, cwd=cwd, timeout=timeout,
                           stdout=subprocess.PIPE, stderr=subprocess.STDOUT)
        return p.returncode, p.stdout.decode(errors="replace")
    except subprocess.TimeoutExpired as e:
        return 124, (e.stdout or b"").decode(errors="replace")


def run_check(pid, tree, evid, timeout):
    env = dict(os.environ, VERIF_REPO=tree, VERIF_MUT_FAST="1", VERIF_EVID_DIR=evid, PYTHONDONTWRITEBYTECODE="1")
    os.makedirs(evid, exist_ok=True)
    return sh([os.path.join(VERIF, "check"), pid], env=env, timeout=timeout, cwd=VERIF)


def coverage_lines(pid, files):
    """lines of REPO/buidl/<file> executed by the check (fast mode) — {file: set(lines)}"""
    d = os.path.join(SCR, pid, "cov")
    shutil.rmtree(d, ignore_errors=True)
    os.makedirs(d)
    env = dict(os.environ, VERIF_REPO=REPO, VERIF_MUT_FAST="1", VERIF_EVID_DIR=d, PYTHONHASHSEED="0",
               PYTHONPATH=f"{REPO}:{VERIF}/harness", COVERAGE_FILE=os.path.join(d, ".coverage"))
    rc, out = sh([PY, "-m", "coverage", "run", "--include=" + REPO + "/buidl/*", "-m", "vp.cli", pid], env=env,
                 timeout=3600, cwd=VERIF)
    rc2, js = sh([PY, "-m", "coverage", "json", "-o", os.path.join(d, "cov.json"), "-q"], env=env, cwd=VERIF)
    cov = json.load(open(os.path.join(d, "cov.json")))
    res = {}
    for f, v in cov["files"].items():
        res[os.path.relpath(f, REPO)] = (set(v["executed_lines"]), set(v["missing_lines"]))
    return rc, res


TESTS_FOR = {
    "pecc.py": ["test_pecc.py", "test_ecc.py", "test_schnorr.py"], "tx.py": ["test_tx.py"], "script.py": ["test_script.py"],
    "op.py": ["test_op.py", "test_script.py"], "witness.py": ["test_witness.py", "test_tx.py"], "helper.py": ["test_helper.py"],
    "hd.py": ["test_hd.py"], "blinding.py": ["test_blinding.py"], "psbt.py": ["test_psbt.py", "test_psbt_helper.py"],
    "psbt_helper.py": ["test_psbt_helper.py"], "taproot.py": ["test_taproot.py", "test_musig.py"],
    "mnemonic.py": ["test_mnemonic.py", "test_hd.py"], "pbkdf2.py": ["test_pbkdf2.py"], "shamir.py": ["test_shamir.py"],
    "descriptor.py": ["test_descriptor.py"], "merkleblock.py": ["test_merkleblock.py"], "block.py": ["test_block.py"],
    "network.py": ["test_network.py"], "siphash.py": ["test_siphash.py"], "compactfilter.py": ["test_compactfilter.py"],
    "bloomfilter.py": ["test_bloomfilter.py"], "bech32.py": ["test_bech32.py", "test_bcur.py"], "bcur.py": ["test_bcur.py"],
    "timelock.py": ["test_timelock.py"], "phash.py": ["test_hash.py", "test_schnorr.py"],
}


def worker(args):
    k, pid, jobs = args
    tree = os.path.join(SCR, pid, f"w{k}")
    shutil.rmtree(tree, ignore_errors=True)
    os.makedirs(tree)
    shutil.copytree(os.path.join(REPO, "buidl"), os.path.join(tree, "buidl"),
                    ignore=shutil.ignore_patterns("__pycache__"))
    results = []
    for (rel, srcb, m) in jobs:
        path = os.path.join(tree, rel)
        new = srcb[:m["start"]] + m["rep"].encode("latin1") + srcb[m["end"]:]
        open(path, "wb").write(new)
        t0 = time.time()
        rc, out = run_check(pid, tree, os.path.join(tree, "evid"), 900)
        viol = [l for l in out.splitlines() if l.startswith("VIOLATION")]
        r = dict(m, file=rel, check_exit=rc, check_s=round(time.time() - t0, 1), violation=(viol[0][:200] if viol else ""))
        if rc == 0 and not viol:
            tests = [os.path.join("buidl", "test", t) for t in TESTS_FOR.get(os.path.basename(rel), [])]
            tests = [t for t in tests if os.path.exists(os.path.join(tree, t))]
            if tests:
                trc, tout = sh([PY, "-m", "pytest", "-q", "-x", "-p", "no:cacheprovider", "-p", "no:rerunfailures", "--timeout=600"]
                               + tests + ["-k", "not socket_guard"],
                               env=dict(os.environ, PYTHONPATH=tree, PYTHONDONTWRITEBYTECODE="1"), timeout=1500, cwd=tree)
                r["own_tests_exit"] = trc
                r["own_tests_tail"] = tout.strip().splitlines()[-1][:200] if tout.strip() else ""
            old_l = srcb.decode(errors="replace").splitlines()
            new_l = new.decode(errors="replace").splitlines()
            r["diff"] = "\n".join(difflib.unified_diff(old_l, new_l, rel, rel, lineterm="", n=2))
        elif rc not in (0, 1):
            r["check_tail"] = out[-300:]
        open(path, "wb").write(srcb)
        results.append(r)
    shutil.rmtree(tree, ignore_errors=True)
    return results


def main():
    ap = argparse.ArgumentParser()
    ap.add_argument("pid")
    ap.add_argument("--jobs", type=int, default=8)
    ap.add_argument("--max", type=int, default=0)
    ap.add_argument("--seed", type=int, default=1)
    ap.add_argument("--files", default="")
    ap.add_argument("--lines", default="", help="file.py:lo-hi,... restrict mutants to these line ranges")
    ap.add_argument("--no-coverage", action="store_true")
    a = ap.parse_args()
    pid = a.pid
    props = {json.loads(l)["id"]: json.loads(l) for l in open(os.path.join(VERIF, "properties.jsonl"))}
    files = a.files.split(",") if a.files else [f for f in props[pid]["anchors"]["files"] if f.endswith(".py")]
    files = [f if f.startswith("buidl/") else "buidl/" + f for f in files]
    ranges = {}
    for it in filter(None, a.lines.split(",")):
        f, r = it.split(":")
        lo, hi = r.split("-")
        ranges.setdefault("buidl/" + f if not f.startswith("buidl/") else f, []).append((int(lo), int(hi)))
    os.makedirs(os.path.join(SCR, pid), exist_ok=True)
    cov = {}
    if not a.no_coverage:
        rc, cov = coverage_lines(pid, files)
        print(f"coverage pass exit={rc}", {f: len(cov.get(f, (set(), set()))[0]) for f in files}, flush=True)
    allm = []
    uncovered = {}
    for rel in files:
        srcb, ms = mutants_of(os.path.join(REPO, rel))
        ex, miss = cov.get(rel, (None, set()))
        if ex is not None:
            uncovered[rel] = sorted(miss)
            ms = [m for m in ms if m["line"] in ex]
        if rel in ranges or ranges:
            ms = [m for m in ms if any(lo <= m["line"] <= hi for lo, hi in ranges.get(rel, []))]
        allm += [(rel, srcb, m) for m in ms]
    total = len(allm)
    rnd = random.Random(a.seed)
    if a.max and total > a.max:
        allm = rnd.sample(allm, a.max)
    rnd.shuffle(allm)
    print(f"{pid}: {total} mutants on covered lines of {files}; running {len(allm)} with {a.jobs} workers", flush=True)
    chunks = [(k, pid, allm[k::a.jobs]) for k in range(a.jobs)]
    t0 = time.time()
    results = []
    with cf.ProcessPoolExecutor(a.jobs) as ex:
        for rs in ex.map(worker, chunks):
            results += rs
    killed = [r for r in results if r["check_exit"] == 1 and r["violation"]]
    odd = [r for r in results if r["check_exit"] not in (0, 1) or (r["check_exit"] == 1 and not r["violation"])]
    surv = [r for r in results if r["check_exit"] == 0]
    surv_tests = [r for r in surv if r.get("own_tests_exit", 0) == 0]
    out = {"property": pid, "files": files, "mutants_on_covered_lines": total, "run": len(results),
           "killed_by_check": len(killed), "check_error_or_timeout": len(odd), "survived_check": len(surv),
           "survived_check_and_own_tests": len(surv_tests), "seconds": round(time.time() - t0),
           "uncovered_lines": uncovered,
           "survivors": sorted(surv_tests, key=lambda r: (r["file"], r["line"])),
           "survivors_killed_by_own_tests": [dict(file=r["file"], line=r["line"], desc=r["desc"], tail=r.get("own_tests_tail", "")) for r in surv if r not in surv_tests],
           "odd": odd[:50]}
    os.makedirs(os.path.join(VERIF, "mutation"), exist_ok=True)
    json.dump(out, open(os.path.join(VERIF, "mutation", pid + ".json"), "w"), indent=1)
    print(json.dumps({k: v for k, v in out.items() if k not in ("survivors", "uncovered_lines", "odd", "survivors_killed_by_own_tests")}))
    shutil.rmtree(os.path.join(SCR, pid), ignore_errors=True)


if __name__ == "__main__":
    main()
