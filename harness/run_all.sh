#!/bin/sh
# harness/run_all.sh [quick|thorough] [parallelism]  — runs every registered check against /repo, one log per property
# under /verif/build/run_all/, and prints one summary line per property (exit code, VIOLATION / KNOWN-FINDING counts).
TIER=${1:-quick}; PAR=${2:-4}
OUT=/verif/build/run_all; mkdir -p $OUT
cd /verif
ls coq/Props/C*.v | sed 's|.*/\(C[0-9]*\)\.v|\1|' | xargs -P $PAR -I{} sh -c "./check {} --tier $TIER > $OUT/{}.$TIER.log 2>&1; echo \"{} exit=\$? violations=\$(grep -c '^VIOLATION' $OUT/{}.$TIER.log) known=\$(grep -c '^KNOWN-FINDING' $OUT/{}.$TIER.log)\""
