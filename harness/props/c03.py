"""C03 — secp256k1 group law, generic FieldElement/Point classes, SEC / x-only encodings."""
from buidl import pecc
from buidl.pecc import FieldElement as FE, Point, S256Point, S256Field
from vp.sexp import ERR

PID = "C03"
RULE = ("Small curves: every element pair of F_p and every point pair of y^2=x^3+7 (and a few other a,b) for the "
        "small primes incl. curves with 2-torsion (p=11, (5,0)); F_p exponent sweep incl. 0, p-1, negative. "
        "secp256k1: boundary scalars 0,1,2,n-1,n,n+1,-1,-n,2^256,2^256+k, near 2^128/2^255 plus random ones, "
        "equal/opposite/infinity operands, every prefix byte 0..255 over sampled x (valid x, x not on curve, x>=p), "
        "lengths 0..70, truncations and bit flips of valid encodings. The library's own == / != on every pair of "
        "F_p, every point pair of small curves, secp points sharing exactly one coordinate (P / -P, P / beta*P), "
        "infinity, operands of two fields / two curves (a only, b only), half-defined points (one coordinate None), "
        "F_p powers against repeated multiplication, scalars between n and p, points ground for particular "
        "encoding bytes, S256Point.combine.")
TRUSTED = ["Python int arithmetic and pow(b,e,m) (modelled by Z and square-and-multiply modpow)",
           "the harness's own reference code: affine reference over ints for small curves, Jacobian-coordinate "
           "secp256k1 implementation (independent of buidl) for scalar multiplication / addition"]
ASSUMPTIONS = ["y^2 = x^3 + 7 is singular over F_3 and F_7 (discriminant -2^4*3^3*7^2): there only curve membership "
               "is checked, the group laws are checked for every other prime in [5,101]",
               "generic Point.__rmul__ is exercised with coefficient >= 0 only (a negative one loops forever in "
               "Python; S256Point reduces mod N first)",
               "the object layer (operands carrying their own prime / their own a and b: mixed-field and mixed-curve TypeError, "
               "== / !=, half-defined points, S256Point.__eq__/__ne__, combine) is modelled in Model/PeccObj.v and run against the "
               "implementation by the o_* / s_eq / s_ne / s_combine correspondence cases; Proofs/PeccObjP.v proves that on operands "
               "of one curve it computes exactly Model/Pecc.v; Point over plain Python ints (int_points) is not modelled"]
BUDGET_S = {"quick": 170, "thorough": 1700}

P = pecc.P
N = pecc.N
GX, GY = pecc.G.x.num, pecc.G.y.num
SECP = [P, 0, 7, N, GX, GY]
PRIMES = [p for p in range(2, 230) if all(p % d for d in range(2, int(p ** .5) + 1))]
SMALL = [p for p in PRIMES if 3 <= p <= 101]

# ---------------------------------------------------------------- implementation adapters


def _is_secp(C):
    return list(C) == SECP


def _pt(C, v):
    """point from [] / [x, y] through the real constructors"""
    p, a, b = C[0], C[1], C[2]
    if _is_secp(C):
        return S256Point(None, None) if len(v) == 0 else S256Point(v[0], v[1])
    fa, fb = FE(a, p), FE(b, p)
    if len(v) == 0:
        return Point(None, None, fa, fb)
    return Point(FE(v[0], p), FE(v[1], p), fa, fb)


def _out(pt):
    return [] if pt.x is None else [pt.x.num, pt.y.num]


def i_pt_rmul(C, k, v):
    if k < 0:
        raise ValueError("generic __rmul__ does not terminate on a negative coefficient")
    pt = _pt(C, v)
    return _out(Point.__rmul__(pt, k))


def _fe(v):
    """FieldElement from [num, prime]; [] is None"""
    return None if len(v) == 0 else FE(v[0], v[1])


def _feo(e):
    return [] if e is None else [e.num, e.prime]


def _gpt(v):
    """generic Point from [x, y, a, b] (each a FieldElement spec) through the real constructors"""
    return Point(_fe(v[0]), _fe(v[1]), _fe(v[2]), _fe(v[3]))


def _gout(pt):
    return [_feo(pt.x), _feo(pt.y), _feo(pt.a), _feo(pt.b)]


_FE_BIN = [lambda u, v: u + v, lambda u, v: u - v, lambda u, v: u * v, lambda u, v: u / v]


def i_gp_rmul(k, pt):
    if k < 0:
        raise ValueError("generic __rmul__ does not terminate on a negative coefficient")
    return Point.__rmul__(pt, k)


# too slow inside Coq (256-bit curve arithmetic): not part of the extraction self-check
VM_SKIP = {"s_rmul", "s_add_int", "s_even_point", "s_sqrt", "s_parse_sec", "s_parse_xonly", "s_parse", "pt_rmul"}

IMPL = {
    "fe_new": lambda C, a: FE(a, C[0]).num,
    "fe_add": lambda C, a, b: (FE(a, C[0]) + FE(b, C[0])).num,
    "fe_sub": lambda C, a, b: (FE(a, C[0]) - FE(b, C[0])).num,
    "fe_mul": lambda C, a, b: (FE(a, C[0]) * FE(b, C[0])).num,
    "fe_div": lambda C, a, b: (FE(a, C[0]) / FE(b, C[0])).num,
    "fe_pow": lambda C, a, e: (FE(a, C[0]) ** e).num,
    "fe_rmul": lambda C, k, a: (k * FE(a, C[0])).num,
    "pt_new": lambda C, x, y: _out(_pt(C, [x, y])),
    "pt_add": lambda C, v, w: _out(_pt(C, v) + _pt(C, w)),
    "pt_rmul": i_pt_rmul,
    "s_rmul": lambda C, k, v: _out(k * _pt(SECP, v)),
    "s_add_int": lambda C, v, t: _out(_pt(SECP, v) + t),
    "s_even_point": lambda C, v: _out(_pt(SECP, v).even_point()),
    "s_parity": lambda C, v: _pt(SECP, v).parity,
    "s_sqrt": lambda C, a: S256Field(a).sqrt().num,
    "s_sec": lambda C, v, c: _pt(SECP, v).sec(bool(c)),
    "s_xonly": lambda C, v: _pt(SECP, v).xonly(),
    "s_parse_sec": lambda C, b: _out(S256Point.parse_sec(b)),
    "s_parse_xonly": lambda C, b: _out(S256Point.parse_xonly(b)),
    "s_parse": lambda C, b: _out(S256Point.parse(b)),
    # object layer (Model/PeccObj.v): FieldElement = [num, prime] / [] for None, generic Point = [x, y, a, b]
    "o_fe_eq": lambda C, a, b: _fe(a) == _fe(b),
    "o_fe_ne": lambda C, a, b: _fe(a) != _fe(b),
    "o_fe_op": lambda C, op, a, b: _feo(_FE_BIN[op](_fe(a), _fe(b))),
    "o_fe_pow": lambda C, a, e: _feo(_fe(a) ** e),
    "o_fe_rmul": lambda C, k, a: _feo(k * _fe(a)),
    "o_pt_new": lambda C, v: _gout(_gpt(v)),
    "o_pt_eq": lambda C, v, w: _gpt(v) == _gpt(w),
    "o_pt_ne": lambda C, v, w: _gpt(v) != _gpt(w),
    "o_pt_add": lambda C, v, w: _gout(_gpt(v) + _gpt(w)),
    "o_pt_rmul": lambda C, k, v: _gout(i_gp_rmul(k, _gpt(v))),
    "s_eq": lambda C, v, w: _pt(SECP, v) == _pt(SECP, w),
    "s_ne": lambda C, v, w: _pt(SECP, v) != _pt(SECP, w),
    "s_combine": lambda C, vs: _out(S256Point.combine([_pt(SECP, v) for v in vs])),
}


# An entry point that did not terminate twice (the engine's per-call alarm fired) is not called a third time: every
# later call fails at once.  The hang itself is already recorded as a disagreement with the model; without this a
# non-terminating loop (e.g. `while coef` turned around in Point.__rmul__) costs one 60 s alarm per case AND per
# shrinking candidate, and the check does not finish in any reasonable time.  Never active on a tree that terminates.
_HANGS = {}


def _hang_memo(name, f):
    def g(*args):
        if _HANGS.get(name, 0) >= 2:
            raise RuntimeError(f"{name}: the implementation did not terminate on earlier calls")
        try:
            return f(*args)
        except Exception as e:  # noqa
            if type(e).__name__ == "ImplTimeout":
                _HANGS[name] = _HANGS.get(name, 0) + 1
            raise
    return g


IMPL = {k_: _hang_memo(k_, f_) for k_, f_ in IMPL.items()}

# ---------------------------------------------------------------- independent references (ints only)


def ref_points(p, a, b):
    return [None] + [(x, y) for x in range(p) for y in range(p) if (y * y - x * x * x - a * x - b) % p == 0]


def ref_add(p, a, A, B):
    if A is None:
        return B
    if B is None:
        return A
    (x1, y1), (x2, y2) = A, B
    if x1 == x2:
        if (y1 + y2) % p == 0:
            return None
        lam = (3 * x1 * x1 + a) * pow(2 * y1, -1, p) % p
    else:
        lam = (y2 - y1) * pow(x2 - x1, -1, p) % p
    x3 = (lam * lam - x1 - x2) % p
    return (x3, (lam * (x1 - x3) - y1) % p)


def ref_mul(p, a, k, A):
    acc = None
    for bit in bin(k)[2:] if k else "":
        acc = ref_add(p, a, acc, acc)
        if bit == "1":
            acc = ref_add(p, a, acc, A)
    return acc


# Jacobian coordinates on secp256k1 (a = 0): (X, Y, Z) ~ (X/Z^2, Y/Z^3); Z = 0 is infinity
def j_double(A):
    X, Y, Z = A
    if Z == 0 or Y == 0:
        return (1, 1, 0)
    S = 4 * X * Y * Y % P
    M = 3 * X * X % P
    X3 = (M * M - 2 * S) % P
    Y3 = (M * (S - X3) - 8 * Y * Y * Y * Y) % P
    return (X3, Y3, 2 * Y * Z % P)


def j_add(A, B):
    if A[2] == 0:
        return B
    if B[2] == 0:
        return A
    X1, Y1, Z1 = A
    X2, Y2, Z2 = B
    Z1Z1, Z2Z2 = Z1 * Z1 % P, Z2 * Z2 % P
    U1, U2 = X1 * Z2Z2 % P, X2 * Z1Z1 % P
    S1, S2 = Y1 * Z2 * Z2Z2 % P, Y2 * Z1 * Z1Z1 % P
    if U1 == U2:
        return j_double(A) if S1 == S2 else (1, 1, 0)
    H, R = (U2 - U1) % P, (S2 - S1) % P
    HH = H * H % P
    HHH = H * HH % P
    V = U1 * HH % P
    X3 = (R * R - HHH - 2 * V) % P
    Y3 = (R * (V - X3) - S1 * HHH) % P
    return (X3, Y3, H * Z1 * Z2 % P)


def j_aff(A):
    if A[2] == 0:
        return None
    zi = pow(A[2], P - 2, P)
    return (A[0] * zi * zi % P, A[1] * zi * zi * zi % P)


def j_of(a):
    return (1, 1, 0) if a is None else (a[0], a[1], 1)


def j_mul(k, a):
    """MSB-first double-and-add in Jacobian coordinates, scalar taken mod N"""
    k %= N
    acc = (1, 1, 0)
    base = j_of(a)
    for bit in bin(k)[2:] if k else "":
        acc = j_double(acc)
        if bit == "1":
            acc = j_add(acc, base)
    return j_aff(acc)


def on_secp(a):
    return a is None or (0 <= a[0] < P and 0 <= a[1] < P and (a[1] * a[1] - a[0] ** 3 - 7) % P == 0)


def lift(x, want_odd):
    """the curve point with this x and y parity, or None"""
    if not 0 <= x < P:
        return None
    c = (x * x * x + 7) % P
    y = pow(c, (P + 1) // 4, P)
    if y * y % P != c:
        return None
    if (y & 1) != int(bool(want_odd)):
        y = P - y
    return (x, y)


def _tup(pt):
    return None if pt.x is None else (pt.x.num, pt.y.num)


def _sp(a):
    return S256Point(None, None) if a is None else S256Point(a[0], a[1])


# ---------------------------------------------------------------- property predicates


def p_field_axioms(p, triples):
    """commutative ring with 1 + Fermat inverse on F_p through FieldElement"""
    E = [FE(i, p) for i in range(p)]
    zero, one = E[0], E[1 % p]
    for a in E:
        if a + zero != a or a * one != a or a - a != zero or a * zero != zero:
            return f"identity laws fail for {a}"
        if (a + (zero - a)) != zero:
            return f"additive inverse fails for {a}"
        if a.num != 0:
            inv = one / a
            if a * inv != one:
                return f"{a} * (1/{a}) = {a * inv}"
            if a ** (p - 2) != inv and p > 2:
                return f"{a} ** (p-2) differs from 1/{a}"
            if a ** -1 != inv:
                return f"{a} ** -1 differs from 1/{a}"
        if a ** 2 != a * a:
            return f"{a} ** 2 = {a ** 2} but {a} * {a} = {a * a}"
        if a ** 3 != a * a * a:
            return f"{a} ** 3 = {a ** 3} but a*a*a = {a * a * a}"
        if a ** 1 != a:
            return f"{a} ** 1 = {a ** 1}"
        if a ** (p - 1) != (one if a.num else zero):
            return f"{a} ** (p-1) = {a ** (p - 1)}"
        if a ** p != a:
            return f"{a} ** p = {a ** p}"
        for k in (0, 1, 2, 3, p, p + 1, -1, -2):
            if (k * a).num != (k * a.num) % p:
                return f"{k} * {a} wrong"
    for a in E:
        for b in E:
            s, m = a + b, a * b
            if s != b + a or m != b * a:
                return f"commutativity fails for {a}, {b}"
            if s.num != (a.num + b.num) % p or m.num != (a.num * b.num) % p or (a - b).num != (a.num - b.num) % p:
                return f"{a} (+,-,*) {b} is not arithmetic mod {p}"
            if (s - b) != a:
                return f"({a} + {b}) - {b} != {a}"
            if b.num != 0 and (a / b) * b != a:
                return f"({a} / {b}) * {b} != {a}"
    if triples:
        for a in E:
            for b in E:
                ab, apb = a * b, a + b
                for c in E:
                    if apb + c != a + (b + c) or ab * c != a * (b * c) or a * (b + c) != ab + a * c:
                        return f"associativity/distributivity fails for {a}, {b}, {c}"
    return None


def p_small_curve(p, a, b, assoc):
    """the generic Point class on y^2 = x^3 + a x + b over F_p: membership, closure, agreement with an
    independent affine reference, commutativity, identity, inverse, P+P = 2P, associativity"""
    fa, fb = FE(a, p), FE(b, p)
    pts = ref_points(p, a, b)
    S = set(pts)
    for x in range(p):
        for y in range(p):
            try:
                Point(FE(x, p), FE(y, p), fa, fb)
                ok = True
            except ValueError:
                ok = False
            if ok != ((x, y) in S):
                return f"Point({x},{y}) over F_{p}: constructor {'accepts' if ok else 'rejects'}, equation says " \
                       f"{'on' if (x, y) in S else 'off'} the curve"
    if (4 * a ** 3 + 27 * b * b) % p == 0 or p == 2:
        return None             # singular cubic (for b = 7: p = 3 and p = 7): membership only, not a group
    inf = Point(None, None, fa, fb)
    obj = {None: inf}
    for q in pts[1:]:
        obj[q] = Point(FE(q[0], p), FE(q[1], p), fa, fb)
    table = {}
    for A in pts:
        if _tup(obj[A] + inf) != A or _tup(inf + obj[A]) != A:
            return f"identity law fails for {A}"
        neg = None if A is None else (A[0], (-A[1]) % p)
        if neg not in S:
            return f"negative of {A} not on the curve (reference)"
        if _tup(obj[A] + obj[neg]) is not None:
            return f"{A} + (-{A}) = {obj[A] + obj[neg]}"
        if _tup(2 * obj[A]) != _tup(obj[A] + obj[A]):
            return f"2*{A} != {A}+{A}"
        for B in pts:
            try:
                R = _tup(obj[A] + obj[B])
            except Exception as e:  # noqa
                return f"{A} + {B} raised {e!r}"
            if R not in S:
                return f"{A} + {B} = {R} is not on the curve"
            if R != ref_add(p, a, A, B):
                return f"{A} + {B} = {R}, reference says {ref_add(p, a, A, B)}"
            table[(A, B)] = R
    for A in pts:
        for B in pts:
            if table[(A, B)] != table[(B, A)]:
                return f"{A} + {B} != {B} + {A}"
    if assoc:
        for A in pts:
            for B in pts:
                AB = table[(A, B)]
                for C_ in pts:
                    if table[(AB, C_)] != table[(A, table[(B, C_)])]:
                        return f"({A}+{B})+{C_} != {A}+({B}+{C_})"
    order = len(pts)
    for A in pts:
        if _tup(order * obj[A]) is not None:
            return f"#E * {A} is not infinity"
        for k in (0, 1, 2, 3, 5, order - 1, order + 1, 2 * order + 3):
            if _tup(k * obj[A]) != ref_mul(p, a, k, A):
                return f"{k} * {A} = {k * obj[A]}, reference {ref_mul(p, a, k, A)}"
    return None


def p_group_ids(a, b):
    """(a+b)G = aG + bG, a(bG) = (ab)G, results on the curve and equal to the Jacobian reference"""
    G = pecc.G
    aG, bG = a * G, b * G
    for k, R in ((a, aG), (b, bG)):
        if _tup(R) != j_mul(k, (GX, GY)):
            return f"{k}*G differs from the Jacobian reference"
        if not on_secp(_tup(R)):
            return f"{k}*G is not on the curve"
    if (a + b) * G != aG + bG:
        return "(a+b)G != aG + bG"
    if _tup(aG + bG) != j_aff(j_add(j_of(_tup(aG)), j_of(_tup(bG)))):
        return "aG + bG differs from the Jacobian reference"
    if a * bG != (a * b) * G:
        return "a(bG) != (ab)G"
    if aG + b != (a + b) * G:
        return "aG + b (int shorthand) != (a+b)G"
    return None


def p_point_laws(k, j):
    """for P = kG, Q = jG: nP = inf, P+(-P) = inf, P+P = 2P, commutativity, identity, scalar reduction mod n"""
    G = pecc.G
    Pt = k * G
    Q = j * G
    inf = S256Point(None, None)
    if (N * Pt).x is not None:
        return "n*P is not infinity"
    if Pt + inf != Pt or inf + Pt != Pt:
        return "identity law"
    if Pt.x is not None:
        neg = S256Point(Pt.x.num, (P - Pt.y.num) % P)
        if (Pt + neg).x is not None or (neg + Pt).x is not None:
            return "P + (-P) is not infinity"
        if -1 * Pt != neg or (N - 1) * Pt != neg:
            return "-1 * P is not the reflected point"
        if Pt.even_point().y.num % 2 != 0 or Pt.even_point().x != Pt.x:
            return "even_point"
    if Pt + Pt != 2 * Pt:
        return "P + P != 2P"
    if _tup(Pt + Pt) != j_aff(j_double(j_of(_tup(Pt)))):
        return "P + P differs from the Jacobian doubling"
    if Pt + Q != Q + Pt:
        return "P + Q != Q + P"
    R = _tup(Pt + Q)
    if not on_secp(R) or R != j_aff(j_add(j_of(_tup(Pt)), j_of(_tup(Q)))):
        return "P + Q off curve or differs from the Jacobian reference"
    if (j + N) * Pt != j * Pt or (j - N) * Pt != j * Pt or (j + (1 << 256) * N) * Pt != j * Pt:
        return "scalar not reduced mod n"
    if _tup(j * Pt) != j_mul(j, _tup(Pt)) or _tup(j * Pt) != j_mul(j * k, (GX, GY)):
        return "j*(kG) differs from the Jacobian reference"
    return None


def p_scalar(k, v):
    """k * P against the Jacobian reference, for any integer k"""
    A = None if len(v) == 0 else (v[0], v[1])
    R = _tup(k * _sp(A))
    if R != j_mul(k, A):
        return f"{k} * P = {R}, Jacobian reference {j_mul(k, A)}"
    if not on_secp(R):
        return "result not on the curve"
    return None


def p_sec_rt(k):
    """SEC (both compressions) and x-only encodings of kG: layout and round trip"""
    A = j_mul(k, (GX, GY))
    if A is None:
        return None
    return _sec_rt(A)


def p_sec_rt_xy(x, y):
    """the same for a curve point given by its coordinates (constructed / ground points: leading zero bytes in x or
    y, top byte 0x80 / 0xff, tiny coordinates)"""
    if not on_secp((x, y)):
        return "harness: not a curve point"
    return _sec_rt((x, y))


def _sec_rt(A):
    pt = S256Point(A[0], A[1])
    xb, yb = A[0].to_bytes(32, "big"), A[1].to_bytes(32, "big")
    c, u, xo = pt.sec(True), pt.sec(False), pt.xonly()
    if c != bytes([2 + (A[1] & 1)]) + xb or u != b"\x04" + xb + yb or xo != xb:
        return "encoding layout differs from SEC1 / BIP340"
    if pt.sec() != c or pt.sec(compressed=True) != c or pt.sec(compressed=False) != u:
        return "sec() with the argument left out / given by keyword is not the compressed / requested form"
    # the 64-digit hex text of a coordinate and the diagnostic text of the point (used in error messages)
    if pt.x.hex() != xb.hex() or pt.y.hex() != yb.hex() or S256Field(A[1]).hex() != yb.hex():
        return f"S256Field.hex() of a coordinate is {pt.x.hex()!r} / {pt.y.hex()!r}, not the 64-digit hex number"
    txt = _outcome(lambda: (repr(pt), repr(S256Point(None, None)), repr(pt.x)))
    if txt[0] != "ok" or c.hex() not in txt[1][0] or "infinity" in txt[1][0] or "infinity" not in txt[1][1] \
            or txt[1][2] != xb.hex():
        return f"repr of the point / of infinity / of its x coordinate: {txt}"
    for enc in (c, u):
        for f in (S256Point.parse, S256Point.parse_sec):
            if _tup(f(enc)) != A:
                return "SEC round trip fails"
    ev = (A[0], A[1] if A[1] % 2 == 0 else P - A[1])
    for f in (S256Point.parse, S256Point.parse_xonly):
        if _tup(f(xo)) != ev:
            return "x-only round trip does not give the even-y point"
    return None


def spec_decode(b):
    """what a SEC1 / BIP340 decoder must return: ('pt', (x,y)) or 'reject'"""
    if len(b) == 33 and b[0] in (2, 3):
        r = lift(int.from_bytes(b[1:], "big"), b[0] == 3)
        return ("pt", r) if r else "reject"
    if len(b) == 65 and b[0] == 4:
        x, y = int.from_bytes(b[1:33], "big"), int.from_bytes(b[33:], "big")
        return ("pt", (x, y)) if (x < P and y < P and on_secp((x, y))) else "reject"
    if len(b) == 32:
        r = lift(int.from_bytes(b, "big"), False)
        return ("pt", r) if r else "reject"
    return "reject"


def _parse_res(f, b):
    """'reject' (an exception), ('pt', coordinates) or — never acceptable — ('returned', what) when the call returns
    something that is not a point instead of raising"""
    try:
        pt = f(b)
    except Exception as e:  # noqa
        if type(e).__name__ == "ImplTimeout":
            raise               # the engine's watchdog: a decoder that does not terminate is not a rejection
        return "reject"
    if not isinstance(pt, S256Point):
        return ("returned", repr(pt)[:40])
    return ("pt", _tup(pt))


def p_parse(b):
    """S256Point.parse / parse_sec / parse_xonly accept exactly the encodings of curve points"""
    want = spec_decode(b)
    got = _parse_res(S256Point.parse, b)
    if got != want:
        return f"parse: got {got}, a strict decoder gives {want}"
    got = _parse_res(S256Point.parse_sec, b)
    if len(b) in (33, 65):
        if got != want:
            return f"parse_sec: got {got}, a strict decoder gives {want}"
    elif got != "reject":
        return f"parse_sec on a {len(b)}-byte string: {got}"
    if len(b) == 32:
        got = _parse_res(S256Point.parse_xonly, b)
        if got != want:
            return f"parse_xonly: got {got}, a strict decoder gives {want}"
    # converse of the round trip (C03_parse_sound_canonical): an accepted string IS the canonical encoding of the
    # returned point in the same format — no second byte string decodes to the same point
    if want != "reject":
        pt = S256Point.parse(b)
        back = _outcome(lambda: pt.xonly() if len(b) == 32 else pt.sec(compressed=(len(b) == 33)))
        if back != ("ok", b):
            return f"parse accepts {b.hex()} but re-encoding the returned point gives {back}"
    return None


def p_double_y0(p):
    """regression for 6d42726: doubling a 2-torsion point (y = 0) gives infinity — on every curve
    y^2 = x^3 + 7 over F_p that has one"""
    fa, fb = FE(0, p), FE(7 % p, p)
    for x in range(p):
        if (x ** 3 + 7) % p == 0:
            Q = Point(FE(x, p), FE(0, p), fa, fb)
            for R in (Q + Q, 2 * Q, 4 * Q):
                if R.x is not None:
                    return f"doubling ({x},0) over F_{p} gives {R}"
            if _tup(3 * Q) != (x, 0):
                return f"3*({x},0) over F_{p} is {3 * Q}"
    return None


def p_int_points(x, y, a, b):
    """the generic Point class also works over plain integers (the repository's own PointTest uses it so):
    doubling and adding must not assume FieldElement coordinates (regression for 5b941e6)"""
    from buidl.pecc import Point
    P = Point(x, y, a, b)
    if y == 0 or (3 * x * x + a) % (2 * y) == 0:
        # only when the tangent slope is an integer: `/` on ints is float division, an inexact slope makes the
        # constructor's membership test fail by rounding (no statement of the property covers that)
        Q = P + P
        if Q.x is not None and Q.y ** 2 != Q.x ** 3 + a * Q.x + b:
            return "P + P over the integers is not on the curve"
    R = Point(x, -y, a, b)
    if (P + R).x is not None:
        return "P + (-P) over the integers is not the point at infinity"
    return None


# ---- state kept across calls on one object (a memoised value that goes stale, an operand changed in place)


def p_fe_reuse(p, p2):
    """ONE FieldElement object e and ONE operand object o for the whole sweep: e.num and o.num are set in place to
    every pair of F_p, every operator is applied, and the answer must be arithmetic mod p on the CURRENT values;
    operators must leave both operands as they were.  Then e.prime / o.prime are set in place to p2 and a
    diagonal band of pairs is swept again."""
    e, o = FE(0, p), FE(0, p)
    for q, pairs in ((p, [(a, b) for a in range(p) for b in range(p)]),
                     (p2, [(a % p2, (a * 7 + d) % p2) for a in range(p2) for d in (0, 1, 3)])):
        e.prime = o.prime = q
        for a, b in pairs:
            e.num, o.num = a, b
            got = [(e + o).num, (e - o).num, (e * o).num, (e ** b).num, (e ** -b).num if a else 0, (b * e).num,
                   e == o, e != o, (o + e).num, (o - e).num]
            want = [(a + b) % q, (a - b) % q, a * b % q, pow(a, b, q), pow(a, (-b) % (q - 1), q) if a else 0, a * b % q,
                    a == b, a != b, (a + b) % q, (b - a) % q]
            if b:
                got.append((e / o).num)
                want.append(a * pow(b, q - 2, q) % q)
            if got != want:
                i = [g == w for g, w in zip(got, want)].index(False)
                return (f"F_{q}: operator #{i} on the reused objects set in place to {a}, {b} gives {got[i]}, "
                        f"arithmetic mod {q} gives {want[i]}")
            if (e.num, e.prime, o.num, o.prime) != (a, q, b, q):
                return f"F_{q}: an operator changed its operands ({a}, {b})"
    return None


def _set_pt(pt, A, p, fresh):
    """put the coordinates of A (None = infinity) into the point object in place"""
    if A is None:
        pt.x = pt.y = None
    elif fresh or pt.x is None:
        pt.x, pt.y = FE(A[0], p), FE(A[1], p)
    else:
        # keep the coordinate objects (never shared between the two operands), change their value
        pt.x.num, pt.y.num = A[0], A[1]


def p_pt_reuse_small(p, a, b):
    """ONE generic Point object and ONE operand object on y^2 = x^3 + a x + b over F_p: their x, y are set in
    place to every pair of curve points (infinity included) and pt + qt, qt + pt, k * pt must be the reference
    result for the CURRENT coordinates; operands must be left unchanged."""
    fa, fb = FE(a, p), FE(b, p)
    pts = ref_points(p, a, b)
    pt, qt = Point(None, None, fa, fb), Point(None, None, fa, fb)
    n = 0
    for A in pts:
        for B in pts:
            n += 1
            _set_pt(pt, A, p, n % 2)
            _set_pt(qt, B, p, n % 3)
            for (u, v, U, V) in ((pt, qt, A, B), (qt, pt, B, A)):
                R = _tup(u + v)
                if R != ref_add(p, a, U, V):
                    return f"F_{p}: reused objects set in place to {U}, {V}: sum {R}, reference {ref_add(p, a, U, V)}"
            k = (n * 5 + 1) % (len(pts) + 3)
            R = _tup(k * pt)
            if R != ref_mul(p, a, k, A):
                return f"F_{p}: {k} * (object set in place to {A}) = {R}, reference {ref_mul(p, a, k, A)}"
            if _tup(pt) != A or _tup(qt) != B:
                return f"F_{p}: an operation changed its operands {A}, {B}"
    return None


def p_s256_reuse(k, j, ks, ts):
    """ONE S256Point object Pt = kG (and the module's G, and ONE other point Qt = jG) through a call history:
    encodings asked in different orders, c * Pt for the scalars ks in order (repeats included) interleaved with
    the same c on G and Qt, Pt + Qt / Qt + Pt / Pt + G / Pt + Pt / Pt + (-Pt), Pt + t for the ints ts; every
    answer equals the Jacobian reference, and Pt, Qt, G are unchanged after every operation."""
    G = pecc.G
    A, B = j_mul(k, (GX, GY)), j_mul(j, (GX, GY))
    Pt, Qt = _sp(A), _sp(B)
    xb, yb = A[0].to_bytes(32, "big"), A[1].to_bytes(32, "big")
    want_enc = {"c": bytes([2 + (A[1] & 1)]) + xb, "u": b"\x04" + xb + yb, "x": xb}

    def intact(where):
        if _tup(Pt) != A or _tup(Qt) != B or _tup(G) != (GX, GY) or Pt.parity != (A[1] & 1) or G.parity != (GY & 1):
            return f"{where} changed one of its operands (or the module's G)"
        for tag in ("c", "x", "u", "x", "c"):
            enc = Pt.sec(True) if tag == "c" else Pt.sec(False) if tag == "u" else Pt.xonly()
            if enc != want_enc[tag]:
                return f"after {where}: encoding '{tag}' of the reused point is {enc.hex()}, expected {want_enc[tag].hex()}"
        return None

    bad = intact("construction")
    if bad:
        return bad
    for step, c in enumerate(ks):
        for nm, obj, tup in (("Pt", Pt, A), ("G", G, (GX, GY)), ("Qt", Qt, B))[: 3 if step % 2 == 0 else 1]:
            R = _tup(c * obj)
            if R != j_mul(c, tup):
                return f"call {step}: {c} * {nm} in a call history gives {R}, Jacobian reference {j_mul(c, tup)}"
        bad = intact(f"{c} * P")
        if bad:
            return bad
    negA = (A[0], P - A[1])
    for nm, u, v, U, V in (("Pt+Qt", Pt, Qt, A, B), ("Pt+G", Pt, G, A, (GX, GY)), ("Qt+Pt", Qt, Pt, B, A),
                           ("Pt+Pt", Pt, Pt, A, A), ("Pt+(-Pt)", Pt, _sp(negA), A, negA), ("G+Pt", G, Pt, (GX, GY), A),
                           ("Pt+Qt again", Pt, Qt, A, B)):
        R = _tup(u + v)
        if R != j_aff(j_add(j_of(U), j_of(V))):
            return f"{nm} in a call history gives {R}, Jacobian reference differs"
    bad = intact("point additions")
    if bad:
        return bad
    for step, t in enumerate(ts):
        R = _tup(Pt + t)
        if R != j_mul(k + t, (GX, GY)):
            return f"call {step}: Pt + {t} (int shorthand) in a call history differs from (k + t)G"
    ev = Pt.even_point()
    if _tup(ev) != (A[0], A[1] if A[1] % 2 == 0 else P - A[1]):
        return "even_point of the reused point"
    return intact("int additions")


def p_parse_history(encs):
    """module-level decoders called with different strings in turn (a memo keyed too coarsely — by x only, by
    length, by the first call — shows here): forwards and backwards, every answer equals the strict decoder's"""
    for rnd, seq in enumerate((encs, encs[::-1])):
        for step, b in enumerate(seq):
            want = spec_decode(b)
            fns = [("parse", S256Point.parse)]
            if len(b) in (33, 65):
                fns.append(("parse_sec", S256Point.parse_sec))
            if len(b) == 32:
                fns.append(("parse_xonly", S256Point.parse_xonly))
            for nm, f in fns:
                try:
                    got = ("pt", _tup(f(b)))
                except Exception as e:  # noqa
                    if type(e).__name__ == "ImplTimeout":
                        raise
                    got = "reject"
                if got != want:
                    return f"round {rnd} call {step}: {nm}({b.hex()}) gives {got}, a strict decoder gives {want}"
            if want != "reject" and len(b) != 32:
                pt = S256Point.parse(b)
                if pt.sec(len(b) == 33) != b or pt.parity != (want[1][1] & 1):
                    return f"round {rnd} call {step}: the point parsed from {b.hex()} re-encodes differently"
    return None


# ---- the library's own == / != (every other predicate compares coordinates), operands of different fields / curves,
# half-defined points, exponent boundaries


def _outcome(f):
    """('ok', value) or ('raise', exception type name); the engine's watchdog exception passes through"""
    try:
        return ("ok", f())
    except Exception as e:  # noqa
        if type(e).__name__ == "ImplTimeout":
            raise
        return ("raise", type(e).__name__)


def _eq_ne(u, v, want, what):
    """u == v and u != v through the library's operators against the expected truth value"""
    eq, ne = _outcome(lambda: u == v), _outcome(lambda: u != v)
    if eq[0] != "ok" or ne[0] != "ok":
        return f"{what}: == gives {eq}, != gives {ne} (expected {'equal' if want else 'different'})"
    if not isinstance(eq[1], bool) or not isinstance(ne[1], bool):
        return f"{what}: == / != return {eq[1]!r} / {ne[1]!r}, not truth values"
    if eq[1] != want or ne[1] != (not want):
        return f"{what}: == is {eq[1]}, != is {ne[1]}, expected {'equal' if want else 'different'}"
    return None


_FE_OPS = (("+", lambda u, v: u + v), ("-", lambda u, v: u - v), ("*", lambda u, v: u * v), ("/", lambda u, v: u / v))


def p_fe_eq(p, q):
    """FieldElement.__eq__ / __ne__: two separately built elements of F_p are equal iff their numbers are; an element
    of F_p never equals an element of F_q (same number or not) nor None; + - * / across the two fields raise TypeError
    and never return an element"""
    E1, E2 = [FE(i, p) for i in range(p)], [FE(i, p) for i in range(p)]
    for a in E1:
        for b in E2:
            bad = _eq_ne(a, b, a.num == b.num, f"FieldElement({a.num},{p}) vs FieldElement({b.num},{p})")
            if bad:
                return bad
        for tag, other in (("None", None),):
            bad = _eq_ne(a, other, False, f"FieldElement({a.num},{p}) vs {tag}")
            if bad:
                return bad
    if q == p:
        return None
    F = [FE(i, q) for i in range(q)]
    for a in E1:
        for b in (F if p * q <= 2000 else [F[a.num % q], F[0], F[1], F[q - 1], F[(a.num * 7 + 3) % q]]):
            for (u, v) in ((a, b), (b, a)):
                what = f"FieldElement({u.num},{u.prime}) vs FieldElement({v.num},{v.prime})"
                bad = _eq_ne(u, v, False, what)
                if bad:
                    return bad
                for nm, op in _FE_OPS:
                    got = _outcome(lambda: op(u, v))
                    if got != ("raise", "TypeError"):
                        return f"{what}: operator {nm} across two fields gives {got}, expected TypeError"
    return None


def p_fe_pow(p):
    """FieldElement.__pow__ against repeated multiplication of integers: every a of F_p, every exponent in
    [-2p-2, 3p+2] (0, 1, p-2, p-1, p, multiples of p-1, negatives) and some huge ones; a negative exponent of a != 0 is the
    inverse of the positive power; 0 ** e = 0 for e > 0 and 0 ** 0 = 1"""
    hi = 3 * p + 3
    for a in range(p):
        pw = [1 % p]
        for _ in range(hi):
            pw.append(pw[-1] * a % p)
        e_ = FE(a, p)
        for e in range(0, hi):
            got = _outcome(lambda: (e_ ** e).num)
            if got != ("ok", pw[e]):
                return f"FieldElement({a},{p}) ** {e} gives {got}, repeated multiplication gives {pw[e]}"
        if a:
            for e in range(1, 2 * p + 3):
                got = _outcome(lambda: (e_ ** -e).num)
                if got[0] != "ok" or not 0 <= got[1] < p or got[1] * pw[e] % p != 1:
                    return f"FieldElement({a},{p}) ** {-e} gives {got}, which is not the inverse of {a}^{e} = {pw[e]}"
            per = p - 1
            for e in (10 ** 20 + 3, (1 << 256) + 1, per * 10 ** 9, per * 10 ** 9 + 1, -(10 ** 20), -per * 10 ** 9):
                got = _outcome(lambda: (e_ ** e).num)
                if got != ("ok", pw[e % per]):
                    return f"FieldElement({a},{p}) ** {e} gives {got}, expected {pw[e % per]}"
        else:
            for e in (10 ** 20 + 3, (p - 1) * 10 ** 9, (1 << 256)):
                got = _outcome(lambda: (e_ ** e).num)
                if got != ("ok", 0):
                    return f"FieldElement(0,{p}) ** {e} gives {got}, expected 0"
    return None


def _gp(p, a, b, A):
    """a fresh generic Point object (fresh coordinate and coefficient objects) for the reference point A"""
    if A is None:
        return Point(None, None, FE(a, p), FE(b, p))
    return Point(FE(A[0], p), FE(A[1], p), FE(a, p), FE(b, p))


def p_pt_eq_small(p, a, b):
    """Point.__eq__ / __ne__ on y^2 = x^3 + a x + b over F_p: two separately built points are equal iff their
    coordinates are (every pair: P vs -P shares x, (x,y) vs (x',y) shares y, point vs infinity); points of a curve
    with another a and/or another b are never equal (same coordinates or both infinity included), and adding them —
    in either order, infinity operands included — raises TypeError instead of returning a point"""
    pts = ref_points(p, a, b)
    o1 = {A: _gp(p, a, b, A) for A in pts}
    o2 = {A: _gp(p, a, b, A) for A in pts}
    for A in pts:
        for B in pts:
            bad = _eq_ne(o1[A], o2[B], A == B, f"F_{p} a={a} b={b}: {A} vs {B}")
            if bad:
                return bad
    for (a2, b2) in (((a + 1) % p, b), (a, (b + 1) % p), ((a + 1) % p, (b + 1) % p), ((a + 2) % p, b), (a, (b - 1) % p)):
        if (a2, b2) == (a, b):
            continue
        pts2 = ref_points(p, a2, b2)
        shared = [A for A in pts2 if A in o1]          # same coordinates on both curves (infinity always; x = 0 ...)
        sample2 = shared + [A for A in pts2 if A not in o1][:4]
        sample1 = shared + [A for A in pts if A not in shared][:4]
        for A in sample1:
            for B in sample2:
                u, v = o1[A], _gp(p, a2, b2, B)
                for (s, t, S, T) in ((u, v, A, B), (v, u, B, A)):
                    what = f"F_{p}: {S} of curve a={s.a.num} b={s.b.num} vs {T} of curve a={t.a.num} b={t.b.num}"
                    bad = _eq_ne(s, t, False, what)
                    if bad:
                        return bad
                    got = _outcome(lambda: _tup(s + t))
                    if got != ("raise", "TypeError"):
                        return f"{what}: + gives {got}, expected TypeError (different curves)"
    return None


def p_half_point(p, a, b):
    """a point with exactly ONE coordinate None is not a point: the generic constructor (FieldElement and plain-int
    coordinates) and S256Point must raise for (None, y) and (x, None), whatever x, y"""
    fa, fb = FE(a, p), FE(b, p)
    pts = ref_points(p, a, b)[1:]
    cands = []
    for v in list(range(p)):
        cands.append((f"Point(None, FieldElement({v},{p}))", lambda v=v: Point(None, FE(v, p), fa, fb)))
        cands.append((f"Point(FieldElement({v},{p}), None)", lambda v=v: Point(FE(v, p), None, fa, fb)))
    for (x, y) in pts[:6] + [(-1, -1), (2, 5), (0, 0), (1, 0)]:
        cands.append((f"Point(None, {y}) over the integers", lambda y=y: Point(None, y, 5, 7)))
        cands.append((f"Point({x}, None) over the integers", lambda x=x: Point(x, None, 5, 7)))
    for (x, y) in ((GX, GY), (GX, P - GY), (0, 0), (1, 1), (P - 1, 0)):
        cands.append((f"S256Point(None, {y:#x})", lambda y=y: S256Point(None, y)))
        cands.append((f"S256Point({x:#x}, None)", lambda x=x: S256Point(x, None)))
        cands.append((f"S256Point(None, S256Field({y:#x}))", lambda y=y: S256Point(None, S256Field(y))))
        cands.append((f"S256Point(S256Field({x:#x}), None)", lambda x=x: S256Point(S256Field(x), None)))
    for what, f in cands:
        got = _outcome(f)
        if got[0] != "raise":
            return f"{what} is accepted ({got[1]!r}, x={got[1].x!r}, y={got[1].y!r}); a half-defined point must be rejected"
    return None


def _beta():
    """a primitive cube root of unity mod P (P = 1 mod 3): (beta*x, y) is on the curve whenever (x, y) is"""
    g = 2
    while True:
        c = pow(g, (P - 1) // 3, P)
        if c != 1:
            return c
        g += 1


def p_s256_eq(k, j):
    """S256Point.__eq__ / __ne__: for A = kG, B = jG (independent Jacobian reference) the objects built from A (ints,
    S256Field objects), -A (same x), (beta*x, y) and (beta^2*x, y) (same y, beta^3 = 1), (beta*x, -y), B and infinity
    (twice) are equal exactly when their coordinates are — every ordered pair, == and !="""
    A, B = j_mul(k, (GX, GY)), j_mul(j, (GX, GY))
    be = _beta()
    items = [("inf", None, S256Point(None, None)), ("inf'", None, S256Point(None, None))]
    coords = []
    for nm, Q in (("A", A), ("B", B)):
        if Q is None:
            continue
        x, y = Q
        coords += [(nm, (x, y)), (nm + "'", (x, y)), ("-" + nm, (x, P - y)), ("beta*" + nm, (be * x % P, y)),
                   ("beta^2*" + nm, (be * be * x % P, y)), ("-beta*" + nm, (be * x % P, P - y))]
    for nm, Q in coords:
        if not on_secp(Q):
            return f"harness: {nm} is not on the curve"
        items.append((nm, Q, S256Point(Q[0], Q[1])))
    if A is not None:
        items.append(("A (S256Field coordinates)", A, S256Point(S256Field(A[0]), S256Field(A[1]))))
    for (n1, Q1, o1) in items:
        for (n2, Q2, o2) in items:
            bad = _eq_ne(o1, o2, Q1 == Q2, f"k={k} j={j}: {n1} vs {n2}")
            if bad:
                return bad
    # the field elements themselves: S256Field against S256Field / a generic FieldElement of the same and of another prime
    if A is not None:
        x, y = A
        for (u, v, want, what) in ((S256Field(x), S256Field(x), True, "S256Field(x) vs S256Field(x)"),
                                   (S256Field(x), S256Field(y), x == y, "S256Field(x) vs S256Field(y)"),
                                   (S256Field(x), FE(x, P), True, "S256Field(x) vs FieldElement(x, P)"),
                                   (S256Field(x % N), FE(x % N, N), False, "S256Field(x) vs FieldElement(x, N)"),
                                   (FE(x % N, N), S256Field(x % N), False, "FieldElement(x, N) vs S256Field(x)"),
                                   (S256Field(x), None, False, "S256Field(x) vs None")):
            bad = _eq_ne(u, v, want, what)
            if bad:
                return bad
        for nm, op in _FE_OPS:
            got = _outcome(lambda: op(S256Field(x % N), FE(y % N, N)))
            if got != ("raise", "TypeError"):
                return f"S256Field {nm} FieldElement of F_n gives {got}, expected TypeError"
    return None


def p_combine(ks):
    """S256Point.combine(points) is the sum of the points (Jacobian reference), for lists with repeated, opposite and
    infinity entries; the argument list and its points are left unchanged"""
    tups = []
    for k in ks:
        tups.append(j_mul(abs(k), (GX, GY)) if k >= 0 else
                    (lambda q: None if q is None else (q[0], P - q[1]))(j_mul(-k, (GX, GY))))
    objs = [_sp(t) for t in tups]
    acc = (1, 1, 0)
    for t in tups:
        acc = j_add(acc, j_of(t))
    got = _outcome(lambda: _tup(S256Point.combine(objs)))
    if got != ("ok", j_aff(acc)):
        return f"combine of {len(ks)} points gives {got}, Jacobian reference {j_aff(acc)}"
    if [_tup(o) for o in objs] != tups or len(objs) != len(ks):
        return "combine changed its argument"
    return None


def p_layers(k, j, a, b):
    """layers that are proved separately, composed on the implementation (C03_rmul_raw_eq_rmul, C03_parse_xonly_is_even_point,
    C03_even_point_idem, C03_pubkey_sec_parse, C03_encoded_keys_add): the generic Point.__rmul__ (no reduction of the
    coefficient, k >= 0 — also k >= n) and S256Point.__rmul__ agree; parse(P.xonly()) is P.even_point(); even_point is
    idempotent; secret -> point -> SEC -> parse returns the point; decoded keys add like their secrets"""
    Pt = _sp(j_mul(j, (GX, GY)))
    if k >= 0:
        g = _outcome(lambda: _tup(Point.__rmul__(Pt, k)))
        s_ = _outcome(lambda: _tup(k * Pt))
        want = ("ok", j_mul(k * j, (GX, GY)))
        if g != want or s_ != want:
            return f"k={k:#x}: generic __rmul__ gives {g}, S256Point.__rmul__ gives {s_}, reference {want}"
    if Pt.x is not None:
        ev = _outcome(lambda: _tup(Pt.even_point()))
        viax = _outcome(lambda: _tup(S256Point.parse(Pt.xonly())))
        twice = _outcome(lambda: _tup(Pt.even_point().even_point()))
        if ev[0] != "ok" or viax != ev or twice != ev or ev[1][1] % 2 or ev[1][0] != Pt.x.num:
            return f"even_point {ev}, parse(xonly) {viax}, even_point twice {twice}"
    if 1 <= a < N and 1 <= b < N:
        for c1 in (True, False):
            for c2 in (True, False):
                def run():
                    A, B = pecc.PrivateKey(a).point, pecc.PrivateKey(b).point
                    A2, B2 = S256Point.parse(A.sec(c1)), S256Point.parse(B.sec(c2))
                    return (_tup(A2) == _tup(A), _tup(B2) == _tup(B), _tup(A2 + B2))
                got = _outcome(run)
                if got != ("ok", (True, True, j_mul(a + b, (GX, GY)))):
                    return f"keys {a:#x}, {b:#x} through SEC ({c1}, {c2}) and back, then added: {got}"
    return None


def p_privkey_point(secret):
    """PrivateKey(secret).point is secret*G (Jacobian reference) for 1 <= secret <= n-1; a secret outside that range
    is refused (it would give infinity or a second name for another key)"""
    got = _outcome(lambda: _tup(pecc.PrivateKey(secret).point))
    if 1 <= secret <= N - 1:
        want = ("ok", j_mul(secret, (GX, GY)))
        if got != want:
            return f"PrivateKey({secret:#x}).point is {got}, the Jacobian reference gives {want[1]}"
    elif got[0] != "raise":
        return f"PrivateKey({secret:#x}) is accepted (point {got[1]}); valid secrets are 1..n-1"
    return None


# ---- audit round 3: alternative entry points (keyword / 4-argument / field-object constructors, PrivateKey with its
# optional arguments, tuple containers, +=), the RESULT OBJECTS of every operation (class, curve coefficients, parity,
# encodings -- not only their coordinates), results held while their sources are used again, failure followed by a retry,
# S256Field.sqrt on its own, decoders called with other byte containers, parse_xonly called directly with a wrong length


def _wf(R, E, what):
    """R is a well-formed S256Point for the reference coordinates E (None = infinity): class, coordinates, curve
    coefficients 0 / 7 over F_p, parity attribute, all three encodings with the argument left out / positional / keyword"""
    if not isinstance(R, S256Point):
        return f"{what}: the result is a {type(R).__name__}, not an S256Point"
    if _tup(R) != E:
        return f"{what}: coordinates {_tup(R)}, reference {E}"
    cf = _outcome(lambda: (R.a.num, R.a.prime, R.b.num, R.b.prime))
    if cf != ("ok", (0, P, 7, P)):
        return f"{what}: curve coefficients of the result are {cf}, not 0 and 7 over F_p"
    if E is None:
        return None if R.y is None else f"{what}: x is None but y is {R.y!r}"
    if R.x.prime != P or R.y.prime != P:
        return f"{what}: coordinates live in F_{R.x.prime} / F_{R.y.prime}"
    xb, yb = E[0].to_bytes(32, "big"), E[1].to_bytes(32, "big")
    c, u = bytes([2 + (E[1] & 1)]) + xb, b"\x04" + xb + yb
    got = _outcome(lambda: (R.parity, R.sec(), R.sec(True), R.sec(False), R.sec(compressed=False), R.xonly()))
    if got != ("ok", (E[1] & 1, c, c, u, u, xb)):
        return f"{what}: parity / sec() / sec(True) / sec(False) / xonly() of the result object are {got}"
    return None


def p_result_shape(k, j, c, t):
    """A = kG, B = jG (Jacobian reference).  A is built through every constructor form (ints positional / by keyword,
    S256Field objects, the 4-argument form Point.__add__ itself uses, explicit None, generic FieldElement objects of F_p,
    S256Field with its ignored second argument, PrivateKey with and without its optional arguments); all forms are equal
    to each other.  Every operation on every form (+ both orders, doubling, + (-A), infinity on either side, +=,
    combine on list and tuple, and -- on two forms -- c *, + t, generic __rmul__, even_point) returns a WELL-FORMED
    S256Point: class, coordinates, coefficients, parity attribute and encodings of the RESULT object.  Results are held
    while the sources go through failing calls and further operations, then verified again."""
    A, B = j_mul(k, (GX, GY)), j_mul(j, (GX, GY))
    if A is None or B is None:
        return "harness: k and j must not be multiples of n"
    x, y = A
    s_ = k % N
    ctors = [("S256Point(x, y)", lambda: S256Point(x, y)),
             ("S256Point(x=x, y=y)", lambda: S256Point(x=x, y=y)),
             ("S256Point(y=y, x=x)", lambda: S256Point(y=y, x=x)),
             ("S256Point(S256Field(x), S256Field(y))", lambda: S256Point(S256Field(x), S256Field(y))),
             ("S256Point(x, y, S256Field(0), S256Field(7))", lambda: S256Point(x, y, S256Field(0), S256Field(7))),
             ("S256Point(x, y, None, None)", lambda: S256Point(x, y, None, None)),
             ("S256Point(x, y, b=None)", lambda: S256Point(x, y, b=None)),
             ("S256Point(FieldElement(x, P), FieldElement(y, P))", lambda: S256Point(FE(x, P), FE(y, P))),
             ("S256Point(S256Field(x, P), S256Field(y, prime=None))", lambda: S256Point(S256Field(x, P), S256Field(y, prime=None))),
             ("S256Point(S256Field(num=x, prime=7), S256Field(num=y))", lambda: S256Point(S256Field(num=x, prime=7), S256Field(num=y))),
             ("PrivateKey(k).point", lambda: pecc.PrivateKey(s_).point),
             ("PrivateKey(k, 'testnet', False).point", lambda: pecc.PrivateKey(s_, "testnet", False).point),
             ("PrivateKey(secret=k, compressed=False, network='signet').point",
              lambda: pecc.PrivateKey(secret=s_, compressed=False, network="signet").point)]
    vs = []
    for nm, f in ctors:
        got = _outcome(f)
        if got[0] != "ok":
            return f"{nm} for the curve point {k:#x}*G raises {got[1]}"
        bad = _wf(got[1], A, nm)
        if bad:
            return bad
        vs.append((nm, got[1]))
    # coefficients given explicitly must not replace secp256k1's: either refused or ignored; an off-curve pair that
    # WOULD satisfy y^2 = x^3 + b' is still not a point
    y2 = (y + 1) % P
    b2 = (y2 * y2 - x * x * x) % P
    for nm, f in (("S256Point(x, y, S256Field(5), S256Field(9))", lambda: S256Point(x, y, S256Field(5), S256Field(9))),
                  ("S256Point(x, y, a=FieldElement(1, P), b=FieldElement(2, P))", lambda: S256Point(x, y, a=FE(1, P), b=FE(2, P)))):
        got = _outcome(f)
        if got[0] == "ok":
            bad = _wf(got[1], A, nm)
            if bad:
                return bad
    for nm, f in (("S256Point(x, y+1)", lambda: S256Point(x, y2)),
                  ("S256Point(x, y+1, S256Field(0), S256Field(b')) with b' = (y+1)^2 - x^3", lambda: S256Point(x, y2, S256Field(0), S256Field(b2))),
                  ("S256Point(x, y+1, a=FieldElement(0, P), b=FieldElement(b', P))", lambda: S256Point(x, y2, a=FE(0, P), b=FE(b2, P))),
                  ("S256Point(S256Field(x), S256Field(y+1), b=S256Field(b'))", lambda: S256Point(S256Field(x), S256Field(y2), b=S256Field(b2)))):
        got = _outcome(f)
        if got[0] != "raise":
            return f"{nm} is accepted although ({x:#x}, y+1) is not on secp256k1"
    for (n1, o1) in vs:
        for (n2, o2) in vs:
            bad = _eq_ne(o1, o2, True, f"{n1} vs {n2}")
            if bad:
                return bad
    negA = (x, P - y)
    Qt, inf, Ng = _sp(B), S256Point(None, None), _sp(negA)
    ref = lambda U, V: j_aff(j_add(j_of(U), j_of(V)))        # noqa
    AB, AA = ref(A, B), ref(A, A)
    held = []

    def keep(what, f, E):
        got = _outcome(f)
        if got[0] != "ok":
            return f"{what} raises {got[1]}"
        held.append((what, got[1], E))
        return _wf(got[1], E, what)

    def iadd(V, W):
        u = V
        u += W
        return u

    heavy = {0, 1 + (k + j) % (len(vs) - 1)}
    for i, (nm, V) in enumerate(vs):
        ops = [(f"({nm}) + Q", lambda: V + Qt, AB), (f"Q + ({nm})", lambda: Qt + V, AB), (f"({nm}) + itself", lambda: V + V, AA),
               (f"({nm}) + (-A)", lambda: V + Ng, None), (f"(-A) + ({nm})", lambda: Ng + V, None),
               (f"infinity + ({nm})", lambda: inf + V, A), (f"({nm}) + infinity", lambda: V + inf, A),
               (f"u = ({nm}); u += Q", lambda: iadd(V, Qt), AB), (f"u = infinity; u += ({nm})", lambda: iadd(inf, V), A),
               (f"combine([{nm}, Q])", lambda: S256Point.combine([V, Qt]), AB),
               (f"combine((Q, {nm}))", lambda: S256Point.combine((Qt, V)), AB),
               (f"combine([{nm}])", lambda: S256Point.combine([V]), A),
               (f"combine([infinity, {nm}, infinity])", lambda: S256Point.combine([inf, V, inf]), A),
               (f"combine(({nm}, -A, Q))", lambda: S256Point.combine((V, Ng, Qt)), B)]
        if i in heavy:
            ops += [(f"{c:#x} * ({nm})", lambda: c * V, j_mul(c, A)),
                    (f"({nm}) + {t:#x} (int shorthand)", lambda: V + t, j_mul(k + t, (GX, GY))),
                    (f"generic Point.__rmul__({nm}, c mod n)", lambda: Point.__rmul__(V, c % N), j_mul(c, A)),
                    (f"({nm}).even_point()", lambda: V.even_point(), A if y % 2 == 0 else negA),
                    (f"(({nm}) + Q) + (-A): a result used as an operand", lambda: (V + Qt) + Ng, B)]
        for what, f, E in ops:
            bad = keep(what, f, E)
            if bad:
                return bad
            if _tup(V) != A or _tup(Qt) != B or _tup(Ng) != negA or inf.x is not None or inf.y is not None:
                return f"{what} changed one of its operands"
    # failing calls, then everything once more
    V0 = vs[0][1]
    other = Point(FE(1, 11), FE(3, 11), FE(0, 11), FE(8, 11))         # 9 = 1 + 8 over F_11
    xb = x.to_bytes(32, "big")
    for what, f in (("A + a point of another curve", lambda: V0 + other), ("a point of another curve + A", lambda: other + V0),
                    ("S256Point(x, y+1)", lambda: S256Point(x, y2)), ("parse(05 || x)", lambda: S256Point.parse(b"\x05" + xb)),
                    ("combine([])", lambda: S256Point.combine([])), ("A + None", lambda: V0 + None),
                    ("infinity.sec()", lambda: inf.sec()), ("S256Field(p)", lambda: S256Field(P))):
        got = _outcome(f)
        if got[0] != "raise":
            return f"{what} returns {got[1]!r} instead of raising"
    for what, R, E in held:
        bad = _wf(R, E, what + " (held, verified again after later operations and failing calls)")
        if bad:
            return bad
    for nm, V in vs:
        bad = _wf(V, A, nm + " (after the operations)") or _wf(V + Qt, AB, f"({nm}) + Q after failing calls")
        if bad:
            return bad
    return _wf(Qt, B, "Q after the operations") or _wf(pecc.G, (GX, GY), "the module's G after the operations")


def p_small_shape(p, a, b):
    """generic Point on y^2 = x^3 + a x + b over F_p: keyword construction equals positional; the RESULT object of
    every sum (infinity results included) and multiple is a Point of the same curve (class, a, b) that works as an
    operand again -- (A+B)+C, C+(A+B), 2*(A+B) on the result objects; u = A; u += B leaves A alone; a TypeError /
    ValueError from a bad call is followed by correct answers on the same objects; results held to the end are unchanged;
    FieldElement by keyword, class and prime of operator results"""
    fa, fb = FE(a, p), FE(b, p)
    pts = ref_points(p, a, b)
    obj = {A: _gp(p, a, b, A) for A in pts}
    kw = _outcome(lambda: [Point(x=FE(num=A[0], prime=p), y=FE(prime=p, num=A[1]), a=fa, b=fb) if A else Point(b=fb, a=fa, y=None, x=None)
                           for A in pts])
    if kw[0] != "ok":
        return f"F_{p}: construction by keyword raises {kw[1]}"
    for A, o in zip(pts, kw[1]):
        bad = _eq_ne(o, obj[A], True, f"F_{p}: {A} built by keyword vs positionally")
        if bad:
            return bad
    foreign = Point(None, None, FE((a + 1) % p, p), fb)
    held = []

    def shape(R, E, what):
        if type(R) is not Point:
            return f"F_{p} {what}: result is a {type(R).__name__}"
        if _tup(R) != E:
            return f"F_{p} {what}: {_tup(R)}, reference {E}"
        cf = _outcome(lambda: (R.a.num, R.a.prime, R.b.num, R.b.prime))
        if cf != ("ok", (a, p, b, p)):
            return f"F_{p} {what}: the result carries the coefficients {cf}, the curve has a={a} b={b} over F_{p}"
        return None
    some = pts[:2] + pts[-3:]
    for n, A in enumerate(pts):
        for B in pts:
            E = ref_add(p, a, A, B)
            got = _outcome(lambda: obj[A] + obj[B])
            if got[0] != "ok":
                return f"F_{p}: {A} + {B} raises {got[1]}"
            R = got[1]
            bad = shape(R, E, f"{A} + {B}")
            if bad:
                return bad
            held.append((f"{A} + {B}", R, E))
            u = obj[A]
            u += obj[B]
            if _tup(u) != E or _tup(obj[A]) != A or _tup(obj[B]) != B:
                return f"F_{p}: u = {A}; u += {B} gives {_tup(u)} and leaves the operands {_tup(obj[A])}, {_tup(obj[B])}"
            for C_ in some:
                got = _outcome(lambda: (_tup(R + obj[C_]), _tup(obj[C_] + R)))
                want = ref_add(p, a, E, C_)
                if got != ("ok", (want, want)):
                    return f"F_{p}: ({A} + {B}) + {C_} on the result object gives {got}, reference {want}"
            got = _outcome(lambda: 2 * R)
            if got[0] != "ok" or shape(got[1], ref_add(p, a, E, E), f"2 * ({A} + {B})"):
                return f"F_{p}: 2 * ({A} + {B}) on the result object: {got}"
        for kk in (0, 1, 2, 3, len(pts), len(pts) + 2):
            got = _outcome(lambda: kk * obj[A])
            if got[0] != "ok":
                return f"F_{p}: {kk} * {A} raises {got[1]}"
            bad = shape(got[1], ref_mul(p, a, kk, A), f"{kk} * {A}")
            if bad:
                return bad
            held.append((f"{kk} * {A}", got[1], ref_mul(p, a, kk, A)))
        # a failing call, then the same objects again
        if n % 3 == 0:
            for what, f in ((f"{A} + infinity of another curve", lambda: obj[A] + foreign),
                            (f"infinity of another curve + {A}", lambda: foreign + obj[A]),
                            ("an off-curve constructor call", lambda: Point(FE(0, p), FE(1 if (1 - b) % p else 2, p), fa, fb))):
                got = _outcome(f)
                if got[0] != "raise":
                    return f"F_{p}: {what} returns {got[1]!r} instead of raising"
            B = pts[(n * 7 + 1) % len(pts)]
            if _tup(obj[A] + obj[B]) != ref_add(p, a, A, B):
                return f"F_{p}: {A} + {B} after a failing call"
    for what, R, E in held:
        bad = shape(R, E, what + " (held to the end)")
        if bad:
            return bad
    for u in (FE(num=1 % p, prime=p), FE(prime=p, num=p - 1)):
        for nm, op in _FE_OPS:
            w = op(u, FE(p - 1, p))
            if type(w) is not FE or w.prime != p:
                return f"F_{p}: FieldElement {nm} FieldElement is a {type(w).__name__} of prime {w.prime}"
        for w in (u ** 3, u ** -1, 3 * u):
            if type(w) is not FE or w.prime != p:
                return f"F_{p}: ** / int * on a FieldElement gives a {type(w).__name__} of prime {w.prime}"
    return None


def p_sqrt(c):
    """S256Field(c).sqrt() on its own (every decoder path goes through it, but only with c = x^3 + 7): a root whose
    square is c when c is a square (Euler's criterion), ValueError when it is not; the same on the S256Field object that
    the operators return (class kept through + - * / ** and int *: hex(), sqrt() exist, prime is p whatever the ignored
    second constructor argument says); an argument outside [0, p) is refused"""
    if not 0 <= c < P:
        got = _outcome(lambda: S256Field(c))
        return None if got[0] == "raise" else f"S256Field({c:#x}) is accepted as {got[1]!r}"
    is_sq = c == 0 or pow(c, (P - 1) // 2, P) == 1
    d = (c * 4) % P                                          # a square iff c is; 2 * sqrt(c) is a root
    forms = [("S256Field(c)", lambda: S256Field(c)), ("S256Field(c, 7)", lambda: S256Field(c, 7)),
             ("S256Field(num=c, prime=None)", lambda: S256Field(num=c, prime=None)),
             ("S256Field(c) + S256Field(0)", lambda: S256Field(c) + S256Field(0)),
             ("S256Field(c) - S256Field(0)", lambda: S256Field(c) - S256Field(0)),
             ("S256Field(c) * S256Field(1)", lambda: S256Field(c) * S256Field(1)),
             ("S256Field(c) / S256Field(1)", lambda: S256Field(c) / S256Field(1)),
             ("S256Field(c) ** 1", lambda: S256Field(c) ** 1), ("1 * S256Field(c)", lambda: 1 * S256Field(c)),
             ("(S256Field(c) ** -1) ** -1", lambda: (S256Field(c) ** -1) ** -1 if c else S256Field(0))]
    for nm, f in forms:
        got = _outcome(f)
        if got[0] != "ok" or not isinstance(got[1], S256Field) or (got[1].num, got[1].prime) != (c, P):
            return f"{nm} is {got}, expected the S256Field element {c:#x} of F_p"
        e = got[1]
        if e.hex() != "%064x" % c or repr(e) != "%064x" % c:
            return f"{nm}: hex() / repr give {e.hex()!r}"
        r = _outcome(lambda: e.sqrt())
        if is_sq:
            if r[0] != "ok" or not isinstance(r[1], S256Field) or r[1].num * r[1].num % P != c:
                return f"({nm}).sqrt() of the square {c:#x} gives {r}"
        elif r != ("raise", "ValueError"):
            return f"({nm}).sqrt() of the non-square {c:#x} gives {r}, expected ValueError"
        if (e.num, e.prime) != (c, P):
            return f"({nm}).sqrt() changed the element"
    r4 = _outcome(lambda: (4 * S256Field(c)).sqrt().num)
    if is_sq:
        if r4[0] != "ok" or r4[1] * r4[1] % P != d:
            return f"(4 * S256Field(c)).sqrt() gives {r4}"
    elif r4[0] != "raise":
        return f"(4 * S256Field(c)).sqrt() of a non-square gives {r4}"
    return None


def p_parse_types(b):
    """the decoders on the same bytes held in a bytearray / memoryview give what a strict decoder gives on bytes, and
    leave the buffer as it was"""
    want = spec_decode(b)
    for tn, typ in (("bytearray", bytearray), ("memoryview", memoryview), ("bytes copy", lambda s: bytes(bytearray(s)))):
        fns = [("parse", S256Point.parse)]
        if len(b) in (33, 65):
            fns.append(("parse_sec", S256Point.parse_sec))
        if len(b) == 32:
            fns.append(("parse_xonly", S256Point.parse_xonly))
        for nm, f in fns:
            buf = typ(b)
            got = _parse_res(f, buf)
            if got != want:
                return f"{nm}({tn} of {b.hex()}) gives {got}, a strict decoder gives {want}"
            if bytes(buf) != b:
                return f"{nm} changed its {tn} argument"
    return None


def p_parse_xonly_len(b):
    """S256Point.parse_xonly called DIRECTLY (taproot.py and op.py do; S256Point.parse dispatches on the length first):
    a string that is not 32 bytes long is not an x-only key"""
    if len(b) == 32:
        return "harness: this predicate is for lengths other than 32"
    got = _parse_res(S256Point.parse_xonly, b)
    if got != "reject":
        return f"parse_xonly accepts the {len(b)}-byte string {b.hex()!r}: {got}"
    return None


PROPS = {"result_shape": p_result_shape, "small_shape": p_small_shape, "sqrt": p_sqrt, "parse_types": p_parse_types,
         "parse_xonly_len": p_parse_xonly_len, "layers": p_layers, "privkey_point": p_privkey_point, "int_points": p_int_points, "field_axioms": p_field_axioms, "small_curve": p_small_curve, "group_ids": p_group_ids,
         "point_laws": p_point_laws, "scalar": p_scalar, "sec_rt": p_sec_rt, "parse": p_parse,
         "double_y0": p_double_y0, "fe_reuse": p_fe_reuse, "pt_reuse_small": p_pt_reuse_small,
         "s256_reuse": p_s256_reuse, "parse_history": p_parse_history,
         "fe_eq": p_fe_eq, "fe_pow": p_fe_pow, "pt_eq_small": p_pt_eq_small, "half_point": p_half_point,
         "s256_eq": p_s256_eq, "combine": p_combine, "sec_rt_xy": p_sec_rt_xy}


def classify(v):
    if v["kind"] == "prop" and v["name"] == "parse" and v["args"][0] == bytes(32):
        return "K-C03-xonly-zero-is-infinity"
    if v["kind"] == "prop" and v["name"] == "parse_xonly_len" and len(v["args"][0]) != 32:
        return XONLY_LEN_KEY
    return None


XONLY_LEN_KEY = "K-C03-parse-xonly-any-length"


# ---------------------------------------------------------------- generators

def scalars_boundary():
    out = [0, 1, 2, 3, N - 2, N - 1, N, N + 1, N + 2, -1, -2, -N, -N - 1, -N + 1, 2 * N, 2 * N + 1, 2 * N - 1,
           (N - 1) // 2, (N + 1) // 2, 1 << 128, (1 << 128) - 1, (1 << 128) + 1, 1 << 255, (1 << 255) - 1,
           (1 << 255) + 1, 1 << 256, (1 << 256) - 1, (1 << 256) + 1, (1 << 256) + 12345, P, P - 1, P + 1,
           (1 << 512) + 5, -(1 << 256), -(1 << 300) - 7,
           # strictly between the group order n and the field prime p (a window of ~2^129 that random scalars miss)
           N + (1 << 64), N + (P - N) // 2, P - 2, P - (1 << 32), N + 977, P + N, P - N]
    return out


def rscalar(r):
    c = r.random()
    if c < 0.6:
        return r.randrange(1, N)
    if c < 0.7:
        return r.getrandbits(r.randrange(1, 64))
    if c < 0.8:
        return -r.randrange(1, 1 << 260)
    if c < 0.9:
        return r.randrange(N, 1 << 264)
    return N - r.getrandbits(r.randrange(1, 40)) - 1


def small_curve_params(p, r=None):
    out = [(0, 7 % p)]
    if r is not None and p > 3:
        for _ in range(2):
            out.append((r.randrange(p), r.randrange(p)))
    return out


def _generate_obj(ctx):
    """correspondence of the object layer (Model/PeccObj.v): == / != with None and across fields, + - * / ** across
    fields, the generic constructor (half-defined, off-curve, mixed-field arguments), Point == / != / + / k* across
    curves, S256Point == / !=, S256Point.combine"""
    r = ctx.rng
    thorough = ctx.tier == "thorough"
    D = [5, 0, 2, 1, 0, 0]                       # the curve argument is not used by the o_* entry points
    pairs = [(2, 3), (3, 2), (5, 7), (7, 5), (5, 5), (11, 13)] + ([(13, 11), (31, 29), (43, 47), (1, 2), (2, 1)] if thorough else [(1, 2)])
    for (p, q) in pairs:
        ctx.label("obj/field elements of F_p and F_q: == != + - * /")
        es = [[a, p] for a in range(p)]
        fs = [[b, q] for b in range(q)] + [[]]
        for a in es:
            for b in fs:
                yield ("corr", "o_fe_eq", [D, a, b])
                yield ("corr", "o_fe_ne", [D, a, b])
                yield ("corr", "o_fe_eq", [D, b, a])
                yield ("corr", "o_fe_ne", [D, b, a])
                if b:
                    for op in range(4):
                        yield ("corr", "o_fe_op", [D, op, a, b])
            for e in (0, 1, 2, 3, p - 2, p - 1, p, -1, -2, -p, 10 ** 20 + 3):
                yield ("corr", "o_fe_pow", [D, a, e])
            for k in (-2, 0, 1, 3, p):
                yield ("corr", "o_fe_rmul", [D, k, a])
        yield ("corr", "o_fe_eq", [D, [], []])
        yield ("corr", "o_fe_ne", [D, [], []])
        # out-of-range constructor arguments
        for bad in ([p, p], [-1, p], [0, 0], [0, -3], [p + 3, p]):
            yield ("corr", "o_fe_eq", [D, bad, [0, p]])
            yield ("corr", "o_fe_op", [D, 0, [0, p], bad])
            yield ("corr", "o_fe_pow", [D, bad, 2])
    for p in [5, 11, 13] + ([17, 19, 43] if thorough else []):
        a, b = 0, 7 % p
        others = [((a + 1) % p, b, p), (a, (b + 1) % p, p), ((a + 1) % p, (b + 1) % p, p)]
        q = 7 if p != 7 else 11
        pts = ref_points(p, a, b)

        def spec(A, a_, b_, p_, pa=None, pb=None):
            pa, pb = pa or p_, pb or p_
            return [[] if A is None else [A[0], p_], [] if A is None else [A[1], p_], [a_ % pa, pa], [b_ % pb, pb]]
        own = [spec(A, a, b, p) for A in pts]
        ctx.label("obj/generic points of one curve: == != + k*")
        for v in own:
            yield ("corr", "o_pt_new", [D, v])
            for w in own:
                yield ("corr", "o_pt_eq", [D, v, w])
                yield ("corr", "o_pt_ne", [D, v, w])
                yield ("corr", "o_pt_add", [D, v, w])
            for k in (0, 1, 2, 3, 5, len(pts), len(pts) + 1):
                yield ("corr", "o_pt_rmul", [D, k, v])
        yield ("corr", "o_pt_rmul", [D, -1, own[-1]])
        foreign = []
        for (a2, b2, p2) in others:
            pts2 = ref_points(p2, a2, b2)
            foreign += [spec(A, a2, b2, p2) for A in pts2[:3] + [B for B in pts2 if B in pts][:2]]
        # infinity whose a and b live in two different fields; a curve over another prime
        foreign += [spec(None, a, b, p, p, q), spec(None, a, b, p, q, p), spec(None, a, b, q), spec(None, a, b + 1, p)]
        foreign += [spec(A, a, b, q) for A in ref_points(q, a, b % q)[:3]]
        ctx.label("obj/points of two curves / two fields: == != +")
        for v in own[:5] + own[-2:]:
            for w in foreign:
                for (s_, t_) in ((v, w), (w, v)):
                    yield ("corr", "o_pt_eq", [D, s_, t_])
                    yield ("corr", "o_pt_ne", [D, s_, t_])
                    yield ("corr", "o_pt_add", [D, s_, t_])
        for w in foreign:
            yield ("corr", "o_pt_new", [D, w])
            yield ("corr", "o_pt_rmul", [D, 3, w])
        ctx.label("obj/constructor: half-defined, off-curve, mixed-field arguments")
        fa, fb = [a, p], [b, p]
        for x in range(p):
            yield ("corr", "o_pt_new", [D, [[x, p], [], fa, fb]])
            yield ("corr", "o_pt_new", [D, [[], [x, p], fa, fb]])
            for y in range(p if p <= 13 else 4):
                yield ("corr", "o_pt_new", [D, [[x, p], [y, p], fa, fb]])
        A = pts[-1]
        for v in ([[A[0], p], [A[1] % q, q], fa, fb], [[A[0] % q, q], [A[1], p], fa, fb], [[A[0], p], [A[1], p], [a, q], fb],
                  [[A[0], p], [A[1], p], fa, [b % q, q]], [[A[0], p], [A[1], p], [a, q], [b % q, q]], [[p, p], [A[1], p], fa, fb],
                  [[A[0], p], [-1, p], fa, fb], [[A[0], p], [A[1], p], [p, p], fb], [[], [], [a, q], fb], [[], [], fa, [-1, p]]):
            yield ("corr", "o_pt_new", [D, v])
            yield ("corr", "o_pt_eq", [D, v, own[0]])
            yield ("corr", "o_pt_add", [D, own[0], v])
    # S256Point == / != and combine
    ks = [1, 2, N - 1, N - 2, r.randrange(1, N), r.randrange(1, N)]
    sp = [[]] + [list(j_mul(k, (GX, GY))) for k in ks]
    sp += [[v[0], P - v[1]] for v in sp[1:3]]
    ctx.label("obj/S256Point == != on equal, opposite, distinct, infinity")
    for v in sp:
        for w in sp:
            yield ("corr", "s_eq", [SECP, v, w])
            yield ("corr", "s_ne", [SECP, v, w])
    yield ("corr", "s_eq", [SECP, [GX, GY + 1], [GX, GY]])
    for lst in [[], [sp[1]], [[]], [sp[1], sp[1]], [sp[1], sp[3]], [sp[1], [], sp[2]], [sp[2], sp[2], sp[2]], [[], []],
                [sp[1], sp[2], sp[3], sp[4]], [sp[5], sp[6], sp[5]], [sp[1], [GX, GY + 1]], [[P, 0], sp[1]]] + \
               [[r.choice(sp) for _ in range(r.randrange(2, 6))] for _ in range(ctx.n(4, 40))]:
        ctx.label("obj/S256Point.combine")
        yield ("corr", "s_combine", [SECP, lst])


def generate(ctx):
    yield from _generate_obj(ctx)
    yield from _generate_eq(ctx)
    yield from _generate(ctx)
    for (x, y, a, b) in [(-1, -1, 5, 7), (-1, 1, 5, 7), (2, 5, 5, 7), (3, -7, 5, 7), (18, 77, 5, 7)]:
        yield ("prop", "int_points", [x, y, a, b])
    yield from _generate_reuse(ctx)
    yield from _generate_audit(ctx)


def _generate_audit(ctx):
    """alternative entry points / defaults / result objects / special byte classes (audit round 3)"""
    r = ctx.rng
    thorough = ctx.tier == "thorough"
    # (1*G has even y, (n-1)*G odd y; j = n-k makes Q = -A; k = j makes Q = A)
    for (k, j, c, t) in [(1, 2, N - 1, 1), (N - 1, 1, (1 << 256) + 3, N - 1), (5, N - 5, -2, N + 7)] + \
                        [(r.randrange(1, N), r.randrange(1, N), rscalar(r), rscalar(r)) for _ in range(ctx.n(1, 25))]:
        ctx.label("shape/every constructor form, result objects of every operation, held results, failure then retry")
        yield ("prop", "result_shape", [k, j, c, t])
    for p in [5, 11, 13] + ([17, 19, 23, 31, 43] if thorough else []):
        ctx.label("shape/generic Point: keyword construction, result objects as operands, +=, failure then retry")
        yield ("prop", "small_shape", [p, 0, 7 % p])
    for p in [7, 17] + ([29, 37, 41] if thorough else []):
        a, b = r.randrange(1, p), r.randrange(p)
        if (4 * a ** 3 + 27 * b * b) % p:
            ctx.label("shape/generic Point: keyword construction, result objects as operands, +=, failure then retry")
            yield ("prop", "small_shape", [p, a, b])
    for c in [0, 1, 2, 3, 4, 7, 9, P - 1, P - 2, P - 4, P - 7, (P - 1) // 2, (P + 1) // 2, (P + 1) // 4, N, N - 1, 1 << 255,
              (1 << 255) - 19, P, P + 1, -1, 1 << 256] + [r.randrange(P) for _ in range(ctx.n(12, 200))]:
        ctx.label("sqrt/S256Field.sqrt on squares, non-squares, 0, results of operators, out of range")
        yield ("prop", "sqrt", [c])
    # special x / y values as 32-, 33- and 65-byte candidates (the prefix sweep takes x from random points, small
    # non-residues and x >= p): the ends of [0, p), the group order and its neighbours, single-bit and all-ff patterns
    xs = [1, 2, 3, P - 1, P - 2, P - 3, N, N - 1, N + 1, 1 << 255, (1 << 255) - 1, 1 << 248, (1 << 256) - 1, P, 0xff,
          int.from_bytes(b"\x01" * 32, "big"), int.from_bytes(b"\x7f" * 32, "big"), int.from_bytes(b"\x80" + bytes(31), "big")]
    # x between the group order n and the field prime p (a window of 2^129 that no random or derived point shows):
    # walk up from n and down from p until both sides have curve points and non-points
    for start, step in ((N, 1), (P - 1, -1), (N + (P - N) // 2, 1)):
        x, on, off = start, 0, 0
        while on < 2 or off < 1:
            if lift(x, False) is None:
                off += 1
                if off <= 1:
                    xs.append(x)
            else:
                on += 1
                if on <= 2:
                    xs.append(x)
            x += step
    xs = sorted(set(xs))
    for x in xs:
        xb = x.to_bytes(32, "big")
        q = lift(x, False)
        if q and N <= x < P:
            ctx.label("parse/x on the curve with n <= x < p")
            for odd in (False, True):
                yield ("prop", "sec_rt_xy", list(lift(x, odd)))
                yield ("corr", "pt_new", [SECP] + list(lift(x, odd)))
                yield ("prop", "scalar", [r.choice([2, 3, N - 1]), list(lift(x, odd))])
        ys = ([q[1], P - q[1]] if q else [1]) + [x, 0, P - 1, (1 << 256) - 1]
        cands = [xb, b"\x02" + xb, b"\x03" + xb, b"\x04" + xb, b"\x00" + xb] + \
                [bytes([pre]) + xb + yy.to_bytes(32, "big") for yy in ys for pre in (4, 2, 6)]
        for b_ in cands:
            ctx.label("parse/special x: 1, p-1, n, n+-1, 2^255, all-ff ... " + ("(on the curve)" if q else "(not on the curve)"))
            yield ("corr", "s_parse", [SECP, b_])
            yield ("prop", "parse", [b_])
            yield ("prop", "parse_types", [b_])
    for v in [(GX, GY), j_mul(N - 1, (GX, GY)), j_mul(r.randrange(1, N), (GX, GY))]:
        xb, yb = v[0].to_bytes(32, "big"), v[1].to_bytes(32, "big")
        for b_ in (xb, b"\x02" + xb, b"\x03" + xb, b"\x04" + xb + yb, b"\x04" + xb + xb, b"\x05" + xb, xb[:31], b"", b"\x04" + xb + yb + b"\x00"):
            ctx.label("parse/other byte containers (bytearray, memoryview)")
            yield ("prop", "parse_types", [b_])
    # a known finding (K-C03-parse-xonly-any-length): every one of these is accepted by the unchanged repository
    gx = GX.to_bytes(32, "big")
    for b_ in [b"", b"\x00", b"\x01", b"\x00" + gx, bytes(8) + gx, gx[:31], gx[1:], gx + b"\x00", (1).to_bytes(31, "big"),
               (1).to_bytes(33, "big"), b"\x02" + gx, bytes(31), bytes(33), bytes(64), gx + gx]:
        ctx.label("parse/parse_xonly called directly with a length other than 32")
        yield ("prop", "parse_xonly_len", [b_])


def _generate_eq(ctx):
    """the library's == / != on field elements and points, operands of different fields / curves, half-defined
    points, exponent boundaries of FieldElement.__pow__, S256Point.combine"""
    r = ctx.rng
    thorough = ctx.tier == "thorough"
    for (p, q) in [(2, 3), (3, 2), (5, 7), (7, 5), (11, 13), (13, 11), (31, 29), (29, 31), (5, 5)] + \
                  ([(97, 101), (101, 97), (223, 229)] if thorough else [(43, 47)]):
        ctx.label("eq/field-elements: same field, two fields, None")
        yield ("prop", "fe_eq", [p, q])
    for p in [2, 3, 5, 7, 11, 13, 17] + ([q for q in PRIMES if 17 < q <= 101] + [223] if thorough else [31, 43]):
        ctx.label("field/pow exponent sweep 0, negative, >= p-1 (repeated multiplication)")
        yield ("prop", "fe_pow", [p])
    for p in [5, 7, 11, 13, 17, 19, 31, 43] + ([61, 67, 73, 97, 101] if thorough else []):
        for (a, b) in [(0, 7 % p), (r.randrange(p), 4), (r.randrange(1, p), r.randrange(p))]:
            pts = ref_points(p, a, b)[1:]
            ctx.label("eq/point pairs sharing x only", sum(1 for A in pts for B in pts if A[0] == B[0] and A[1] != B[1]))
            ctx.label("eq/point pairs sharing y only", sum(1 for A in pts for B in pts if A[1] == B[1] and A[0] != B[0]))
            ctx.label("eq/points of two curves (a differs only, b differs only, both; same coordinates; infinity)")
            yield ("prop", "pt_eq_small", [p, a, b])
    for p in [5, 11, 13] + ([43, 101] if thorough else []):
        ctx.label("constructor/exactly one coordinate None")
        yield ("prop", "half_point", [p, 0, 7 % p])
    for (k, j) in [(1, 2), (1, N - 1), (0, 5), (7, 7), (N - 2, 2)] + \
                  [(r.randrange(1, N), r.randrange(1, N)) for _ in range(ctx.n(8, 60))]:
        ctx.label("eq/secp points: equal, -P (same x), beta*P (same y), infinity")
        yield ("prop", "s256_eq", [k, j])
    # points whose encoding has a particular byte: walk k0*G, (k0+1)G, ... (one Jacobian addition each) until every class
    # has been met (probability 1/256 per step and class)
    classes = {"x with a leading zero byte": lambda x, y: x >> 248 == 0, "y with a leading zero byte": lambda x, y: y >> 248 == 0,
               "x top byte 0x80": lambda x, y: x >> 248 == 0x80, "x top byte 0xff": lambda x, y: x >> 248 == 0xff,
               "x low byte 0x00": lambda x, y: x & 0xff == 0, "y low byte 0x01": lambda x, y: y & 0xff == 1}
    found = {}
    acc, JG = j_of(j_mul(r.randrange(1, N), (GX, GY))), j_of((GX, GY))
    for _ in range(6000):
        if len(found) == len(classes):
            break
        acc = j_add(acc, JG)
        Q = j_aff(acc)
        for nm, f in classes.items():
            if nm not in found and f(*Q):
                found[nm] = Q
    for nm, (x, y) in sorted(found.items()):
        ctx.label("encoding/ground point: " + nm)
        xb, yb = x.to_bytes(32, "big"), y.to_bytes(32, "big")
        yield ("prop", "sec_rt_xy", [x, y])
        yield ("prop", "scalar", [r.choice([2, 3, N - 1, rscalar(r)]), [x, y]])
        for c in (0, 1):
            yield ("corr", "s_sec", [SECP, [x, y], c])
        yield ("corr", "s_xonly", [SECP, [x, y]])
        for enc in (bytes([2 + (y & 1)]) + xb, bytes([3 - (y & 1)]) + xb, b"\x04" + xb + yb, xb):
            yield ("corr", "s_parse", [SECP, enc])
            yield ("prop", "parse", [enc])
    for secret in [1, 2, 3, N - 1, N - 2, (N - 1) // 2, (N + 1) // 2, 1 << 255, 0, -1, N, N + 1, P, 1 << 256, -N + 1] + \
                  [r.randrange(1, N) for _ in range(ctx.n(4, 40))]:
        ctx.label("privkey/point of a secret (boundaries 0, 1, n-1, n)")
        yield ("prop", "privkey_point", [secret])
    for (k_, j_, a_, b_) in [(0, 1, 1, N - 1), (N, 5, 1, 1), (N + 1, 7, 2, N - 2), (2 * N + 3, N - 1, N - 1, N - 1), ((1 << 256) + 5, 2, 3, 4),
                             (N - 1, N - 1, (N - 1) // 2, (N + 1) // 2), (1, 0, 1, 2), (P, 3, 5, 6)] + \
                            [(r.choice([r.randrange(N), r.randrange(N, 1 << 264), r.getrandbits(40)]), r.randrange(1, N),
                              r.randrange(1, N), r.randrange(1, N)) for _ in range(ctx.n(5, 60))]:
        ctx.label("layers/generic vs reduced __rmul__, xonly -> parse = even_point, keys through SEC")
        yield ("prop", "layers", [k_, j_, a_, b_])
    k, j = r.randrange(1, N), r.randrange(1, N)
    for ks in [[1], [1, -1], [1, 1], [k, j, -k], [0, k], [k, 0, 0, j], [k, k, k], [-k, 0, k], [0, 0], [0],
               [1, 2, 3, 4, 5, 6, 7, 8]] + [[r.choice([0, 1, -1, k, -k, j, r.randrange(1, N)]) for _ in range(r.randrange(2, 7))]
                                             for _ in range(ctx.n(5, 60))]:
        ctx.label("combine/list of points")
        yield ("prop", "combine", [ks])


def _generate_reuse(ctx):
    """state kept across calls: one object through a history of calls and in-place edits"""
    r = ctx.rng
    thorough = ctx.tier == "thorough"
    for p, p2 in [(3, 5), (5, 3), (7, 11), (11, 7), (13, 31), (31, 13)] + ([(43, 47), (97, 101), (223, 229)] if thorough else []):
        ctx.label("reuse/field-element-set-in-place")
        yield ("prop", "fe_reuse", [p, p2])
    for p in [5, 11, 13, 17, 19, 23] + ([29, 31, 37, 41, 43, 47, 61, 67] if thorough else [43]):
        ctx.label("reuse/small-curve-point-set-in-place")
        yield ("prop", "pt_reuse_small", [p, 0, 7 % p])
        a, b = r.randrange(p), r.randrange(p)
        if (4 * a ** 3 + 27 * b * b) % p:
            yield ("prop", "pt_reuse_small", [p, a, b])
    for i in range(ctx.n(3, 40)):
        k, j = r.randrange(1, N), r.randrange(1, N)
        c1, c2 = rscalar(r), r.randrange(1, N)
        ks = [c1, c2, c1, r.choice([0, 1, 2, N - 1, N, N + 1, -1]), c2, c1 + N, c2 + (1 << 256)]
        t1 = r.randrange(1, N)
        ts = [t1, r.choice([0, 1, N - 1, N, -k, N - k]), t1, rscalar(r), t1 + (1 << 256), t1 + N, -t1, t1 % (1 << 128)]
        ctx.label("reuse/one-secp-point-many-operations")
        yield ("prop", "s256_reuse", [k, j, ks, ts])
    for i in range(ctx.n(6, 100)):
        encs = []
        for _ in range(r.randrange(2, 4)):
            A = j_mul(r.randrange(1, N), (GX, GY))
            xb, yb, nyb = A[0].to_bytes(32, "big"), A[1].to_bytes(32, "big"), (P - A[1]).to_bytes(32, "big")
            x = A[0]
            while lift(x, False) is not None:
                x = (x + 1) % P
            ob = x.to_bytes(32, "big")
            encs += [b"\x02" + xb, b"\x03" + xb, xb, b"\x04" + xb + yb, b"\x04" + xb + nyb, b"\x06" + xb + yb,
                     b"\x02" + ob, b"\x03" + ob, ob, b"\x04" + ob + yb, b"\x02" + xb, b"\x05" + xb, b"\x04" + xb + xb]
        r.shuffle(encs)
        ctx.label("reuse/decoder-call-history")
        yield ("prop", "parse_history", [encs])


def _generate(ctx):
    r = ctx.rng
    thorough = ctx.tier == "thorough" if hasattr(ctx, "tier") else False

    # ---- 1. field: exhaustive correspondence on small primes, samples on larger ones
    ex_primes = [2, 3, 5, 7, 11] + ([13, 17, 19, 23, 29, 31] if thorough else [])
    for p in ex_primes:
        C = [p, 0, 7 % p, 1, 0, 0]
        ctx.label("field/exhaustive-pairs")
        for a in range(-1, p + 2):
            yield ("corr", "fe_new", [C, a])
        for a in range(p):
            for b in range(p):
                for fn in ("fe_add", "fe_sub", "fe_mul", "fe_div"):
                    yield ("corr", fn, [C, a, b])
            for e in list(range(-p - 2, 2 * p + 3)) + [10 ** 20 + 3, -10 ** 20]:
                yield ("corr", "fe_pow", [C, a, e])
            for k in (-3, -1, 0, 1, 2, 3, p, p + 1):
                yield ("corr", "fe_rmul", [C, k, a])
        # out-of-range operands raise
        for fn in ("fe_add", "fe_mul", "fe_div"):
            yield ("corr", fn, [C, p, 1 % p])
            yield ("corr", fn, [C, 0, -1])
    for p in [q for q in PRIMES if q not in ex_primes] + [P]:
        C = [p, 0, 7 % p, 1, 0, 0]
        ctx.label("field/sampled")
        for _ in range(ctx.n(6, 60)):
            a, b = r.randrange(p), r.choice([0, 1, p - 1, r.randrange(p)])
            for fn in ("fe_add", "fe_sub", "fe_mul", "fe_div"):
                yield ("corr", fn, [C, a, b])
            yield ("corr", "fe_pow", [C, a, r.choice([0, 1, 2, 3, p - 2, p - 1, p, -1, (p + 1) // 4, r.randrange(4 * p)])])
            yield ("corr", "fe_rmul", [C, r.choice([2, 3, -1, r.randrange(3 * p)]), a])
        yield ("corr", "fe_pow", [C, 0, p - 1])
        yield ("corr", "fe_pow", [C, 0, 0])
        yield ("corr", "fe_div", [C, 1, 0])
    # field axioms on the implementation
    for p in SMALL:
        trip = p <= (101 if thorough else 23)
        ctx.label("prop/field_axioms" + ("+triples" if trip else ""))
        yield ("prop", "field_axioms", [p, trip])
    if thorough:
        yield ("prop", "field_axioms", [223, False])

    # ---- 2. small curves
    cor_primes = [3, 5, 7, 11, 13, 17, 19] + ([23, 29, 31, 37, 41, 43, 47, 61, 67, 79, 97, 101] if thorough else [43])
    for p in cor_primes:
        for (a, b) in small_curve_params(p, r):
            C = [p, a, b, 1, 0, 0]
            pts = ref_points(p, a, b)
            ctx.label("smallcurve/exhaustive-pairs")
            if p <= 13:
                for x in range(p):
                    for y in range(p):
                        yield ("corr", "pt_new", [C, x, y])
            yield ("corr", "pt_new", [C, p, 0])
            yield ("corr", "pt_new", [C, 0, -1])
            vs = [[] if q is None else list(q) for q in pts]
            for v in vs:
                for w in vs:
                    if len(v) and len(w) and v[0] == w[0] and v[1] == 0:
                        ctx.label("smallcurve/2-torsion-doubling")
                    yield ("corr", "pt_add", [C, v, w])
                for k in list(range(0, 8)) + [len(pts) - 1, len(pts), len(pts) + 1, 2 * len(pts) + 1]:
                    yield ("corr", "pt_rmul", [C, k, v])
            # operands that are not on the curve
            off = [(x, y) for x in range(p) for y in range(p) if (x, y) not in set(pts)][:3]
            for q in off:
                yield ("corr", "pt_add", [C, list(q), vs[-1]])
                yield ("corr", "pt_add", [C, vs[-1], list(q)])
    for p in SMALL:
        assoc = p <= (101 if thorough else 31)
        ctx.label("prop/small_curve" + ("+assoc" if assoc else ""))
        yield ("prop", "small_curve", [p, 0, 7 % p, assoc])
        yield ("prop", "double_y0", [p])
    for p in [5, 7, 11, 13, 17, 19, 23] + ([29, 31, 37, 41, 43, 47, 53, 59, 61] if thorough else []):
        for _ in range(2):
            a, b = r.randrange(p), r.randrange(p)
            if (4 * a ** 3 + 27 * b * b) % p == 0:
                continue            # singular cubic: not a group
            ctx.label("prop/small_curve general a,b")
            yield ("prop", "small_curve", [p, a, b, p <= 31])
    if thorough:
        yield ("prop", "small_curve", [223, 0, 7, False])

    # ---- 3. secp256k1 scalar multiplication and addition
    G = [GX, GY]
    bnd = scalars_boundary()
    for k in bnd:
        ctx.label("secp/boundary-scalar")
        yield ("corr", "s_rmul", [SECP, k, G])
        yield ("prop", "scalar", [k, G])
    yield ("corr", "s_rmul", [SECP, 5, []])
    yield ("corr", "s_rmul", [SECP, N - 1, []])
    yield ("corr", "pt_rmul", [SECP, N - 1, G])
    yield ("corr", "pt_rmul", [SECP, N, G])
    yield ("corr", "pt_rmul", [SECP, N + 1, G])
    yield ("corr", "pt_rmul", [SECP, (1 << 256) + 3, G])
    pts = []
    for _ in range(ctx.n(10, 150)):
        k = r.randrange(1, N)
        A = j_mul(k, (GX, GY))
        pts.append(list(A))
    for v in pts:
        k = rscalar(r)
        ctx.label("secp/random-scalar-random-point")
        yield ("corr", "s_rmul", [SECP, k, v])
        yield ("prop", "scalar", [k, v])
        yield ("corr", "s_add_int", [SECP, v, rscalar(r)])
        yield ("corr", "s_even_point", [SECP, v])
        yield ("corr", "s_parity", [SECP, v])
    yield ("corr", "s_even_point", [SECP, []])
    yield ("corr", "s_parity", [SECP, []])
    yield ("corr", "s_add_int", [SECP, [], 5])
    yield ("corr", "s_add_int", [SECP, G, 0])
    yield ("corr", "s_add_int", [SECP, G, N])
    yield ("corr", "s_add_int", [SECP, G, N - 1])       # G + (-G)
    yield ("corr", "s_add_int", [SECP, G, 1])           # doubling through the int shorthand
    # additions: equal / opposite / infinity / distinct
    for i, v in enumerate(pts):
        w = pts[(i + 1) % len(pts)]
        neg = [v[0], P - v[1]]
        for (a_, b_, lab) in ((v, w, "distinct"), (v, v, "equal"), (v, neg, "opposite"), (v, [], "inf-right"),
                              ([], v, "inf-left"), ([], [], "inf-inf")):
            ctx.label("secp/add-" + lab)
            yield ("corr", "pt_add", [SECP, a_, b_])
    # operands that are not points
    yield ("corr", "pt_add", [SECP, [GX, GY + 1], G])
    yield ("corr", "pt_add", [SECP, G, [P, 0]])
    yield ("corr", "pt_new", [SECP, GX, GY])
    yield ("corr", "pt_new", [SECP, GX, P - GY])
    yield ("corr", "pt_new", [SECP, GX + P, GY])
    yield ("corr", "pt_new", [SECP, -1, GY])
    yield ("corr", "pt_new", [SECP, 0, 0])
    for _ in range(ctx.n(8, 100)):
        a, b = rscalar(r), rscalar(r)
        ctx.label("prop/group_ids")
        yield ("prop", "group_ids", [a, b])
    for (a, b) in [(0, 0), (0, 1), (1, N - 1), (N - 1, N - 1), (N, 5), (-1, 1), (1 << 256, -(1 << 256)), (2, N - 2),
                   ((N + 1) // 2, (N + 1) // 2), (N - 1, 2), (-N, N + 1)]:
        ctx.label("prop/group_ids boundary")
        yield ("prop", "group_ids", [a, b])
    for _ in range(ctx.n(6, 80)):
        ctx.label("prop/point_laws")
        yield ("prop", "point_laws", [rscalar(r), rscalar(r)])
    for (k, j) in [(0, 0), (1, 1), (1, N - 1), (N - 1, 2), (2, 0), (N, 3)]:
        yield ("prop", "point_laws", [k, j])

    # ---- 4. encodings
    for k in [1, 2, 3, N - 1, N - 2, (N - 1) // 2] + [r.randrange(1, N) for _ in range(ctx.n(10, 200))]:
        ctx.label("prop/sec_rt")
        yield ("prop", "sec_rt", [k])
    yield ("corr", "s_sec", [SECP, [], 1])
    yield ("corr", "s_sec", [SECP, [], 0])
    yield ("corr", "s_xonly", [SECP, []])
    encs = []
    for v in pts + [G]:
        for c in (0, 1):
            yield ("corr", "s_sec", [SECP, v, c])
        yield ("corr", "s_xonly", [SECP, v])
        xb, yb = v[0].to_bytes(32, "big"), v[1].to_bytes(32, "big")
        encs += [bytes([2 + (v[1] & 1)]) + xb, b"\x04" + xb + yb, xb]
    for e in encs:
        ctx.label("parse/valid-encoding")
        yield ("corr", "s_parse", [SECP, e])
        yield ("corr", "s_parse_sec", [SECP, e])
        yield ("corr", "s_parse_xonly", [SECP, e])
        yield ("prop", "parse", [e])
    # x classes: on curve, not on curve, >= p
    xs_on = [v[0] for v in pts[: ctx.n(3, 12)]] + [GX]
    xs_off = []
    x = 5
    while len(xs_off) < 3:
        if lift(x, False) is None:
            xs_off.append(x)
        x += 1
    while len(xs_off) < ctx.n(5, 12):
        x = r.randrange(P)
        if lift(x, False) is None:
            xs_off.append(x)
    xs_big = [P, P + 1, (1 << 256) - 1, P + GX - (1 << 32) if P + GX < (1 << 256) else P + 2]
    xs_big = [x for x in xs_big if P <= x < (1 << 256)]
    for cls, xs in (("x-on-curve", xs_on), ("x-off-curve", xs_off), ("x>=p", xs_big), ("x=0", [0])):
        for x in xs:
            xb = x.to_bytes(32, "big")
            y_ok = lift(x, False)
            ys = [(y_ok[1] if y_ok else 1), (P - y_ok[1] if y_ok else 2), 0, P, r.randrange(P)]
            for pre in range(256):
                ctx.label("parse/prefix-sweep " + cls)
                b = bytes([pre]) + xb
                yield ("corr", "s_parse_sec", [SECP, b])
                yield ("prop", "parse", [b])
                if pre in (0, 1, 2, 3, 4, 5, 6, 7, 255) or cls != "x-on-curve" and pre % 64 == 0:
                    for y in ys:
                        b65 = bytes([pre]) + xb + y.to_bytes(32, "big")
                        yield ("corr", "s_parse", [SECP, b65])
                        yield ("prop", "parse", [b65])
            yield ("corr", "s_parse_xonly", [SECP, xb])
            yield ("corr", "s_parse", [SECP, xb])
            yield ("prop", "parse", [xb])
            yield ("corr", "s_sqrt", [SECP, (x ** 3 + 7) % P])
    yield ("corr", "s_sqrt", [SECP, 0])
    yield ("corr", "s_sqrt", [SECP, P])
    # non-canonical representatives of a coordinate: a 32-byte field can hold c + p only when c < 2^32 + 977, so the
    # points are CONSTRUCTED from a tiny coordinate (tiny y: cube root of y^2 - 7, p = 7 mod 9; tiny x: square root)
    tiny = []
    y = 1
    while len([t for t in tiny if t[2] == "y"]) < ctx.n(3, 10):
        c = (y * y - 7) % P
        x = pow(c, (P + 2) // 9, P)
        if pow(x, 3, P) == c:
            tiny.append((x, y, "y"))
        y += 1
    x = 1
    while len([t for t in tiny if t[2] == "x"]) < ctx.n(3, 10):
        for odd in (False, True):
            q = lift(x, odd)
            if q:
                tiny.append((q[0], q[1], "x"))
        x += 1
    for (x, y, which) in tiny:
        ctx.label("parse/coordinate+p (tiny " + which + ")")
        yield ("prop", "sec_rt_xy", [x, y])
        yield ("corr", "s_sec", [SECP, [x, y], 1])
        yield ("corr", "s_sec", [SECP, [x, y], 0])
        yield ("corr", "s_xonly", [SECP, [x, y]])
        xs = [x, x + P] if x + P < (1 << 256) else [x]
        ys = [y, y + P] if y + P < (1 << 256) else [y]
        for xx in xs:
            for yy in ys:
                b65 = b"\x04" + xx.to_bytes(32, "big") + yy.to_bytes(32, "big")
                yield ("corr", "s_parse", [SECP, b65])
                yield ("corr", "s_parse_sec", [SECP, b65])
                yield ("prop", "parse", [b65])
            for pre in (2, 3):
                b33 = bytes([pre]) + xx.to_bytes(32, "big")
                yield ("corr", "s_parse_sec", [SECP, b33])
                yield ("prop", "parse", [b33])
            yield ("corr", "s_parse_xonly", [SECP, xx.to_bytes(32, "big")])
            yield ("prop", "parse", [xx.to_bytes(32, "big")])
        # the constructor with integers congruent to the coordinates but outside [0, p)
        for (xx, yy) in ((x, y + P), (x, y - P), (x + P, y), (x - P, y), (x, -(P - y)), (x + P, y + P)):
            yield ("corr", "pt_new", [SECP, xx, yy])
    for (xx, yy) in ((GX, GY - P), (GX, GY + P), (GX - P, GY), (GX, -GY), (GX, GY + 2 * P)):
        ctx.label("constructor/coordinate outside [0,p)")
        yield ("corr", "pt_new", [SECP, xx, yy])
    # wrong lengths: every length 0..70 with each interesting first byte; parse_xonly on any length
    for ln in range(0, 71):
        for pre in (0, 2, 3, 4):
            body = (bytes([pre]) + GX.to_bytes(32, "big") + GY.to_bytes(32, "big") + bytes(8))[:ln]
            ctx.label("parse/length-sweep")
            yield ("corr", "s_parse", [SECP, body])
            yield ("corr", "s_parse_sec", [SECP, body])
            yield ("prop", "parse", [body])
        yield ("corr", "s_parse_xonly", [SECP, bytes(ln)])
        yield ("corr", "s_parse_xonly", [SECP, ctx.rbytes(ln)])
        yield ("corr", "s_parse_xonly", [SECP, (bytes(40) + GX.to_bytes(32, "big"))[-ln:] if ln else b""])
    # truncations / bit flips of valid encodings
    for e in encs[: ctx.n(6, 60)]:
        for cut in range(len(e)):
            ctx.label("parse/truncation")
            yield ("prop", "parse", [e[:cut]])
        for _ in range(ctx.n(12, 40)):
            i = r.randrange(len(e))
            m = bytes([e[i] ^ (1 << r.randrange(8))])
            b = e[:i] + m + e[i + 1:]
            ctx.label("parse/bitflip")
            yield ("corr", "s_parse", [SECP, b])
            yield ("prop", "parse", [b])
    for _ in range(ctx.n(40, 1000)):
        ln = r.choice([32, 33, 33, 65])
        b = ctx.rbytes(ln)
        if ln != 32 and r.random() < 0.8:
            b = bytes([r.choice([2, 3, 4])]) + b[1:]
        ctx.label("parse/random")
        yield ("corr", "s_parse", [SECP, b])
        yield ("prop", "parse", [b])
